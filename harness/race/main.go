// Command race is the complementary free-running pass: the same kind of harness bodies as the
// scheduler scenarios, on the UNINSTRUMENTED package, with real goroutines, built with -race.
//
// A cooperative scheduler's hand-offs are happens-before edges and steps between two scheduling
// points are atomic, so plain-memory races (e.g. a scratch buffer hoisted to package scope) are
// invisible to the model checker. This pass is NOT exhaustive and decides nothing by its silence; but
// the race detector has no false positives, so a reported race whose stack is in package log - or a
// functional mismatch observed while running free - is a genuine violation.
package main

import (
	"bytes"
	"context"
	"encoding/json"
	"flag"
	"fmt"
	"os"
	"runtime"
	"sort"
	"strings"
	"sync"
	"time"

	log "github.com/go-spring/log"
)

type violation struct {
	Clause string `json:"clause"`
	Key    string `json:"key"`
	Detail string `json:"detail"`
}

type found struct {
	Viol   violation `json:"violation"`
	Part   string    `json:"part"`
	Replay any       `json:"replay"`
}

type part struct {
	Scenario    string   `json:"scenario"`
	Bounds      string   `json:"bounds"`
	Executions  int64    `json:"executions"`
	States      int64    `json:"states"`
	Transitions int64    `json:"transitions"`
	DistinctObs int      `json:"distinct_obs"`
	Capped      bool     `json:"capped"`
	Found       []found  `json:"found,omitempty"`
	Samples     []any    `json:"samples,omitempty"`
	ObsHashes   []uint64 `json:"obs_hashes,omitempty"`
}

func (p *part) fail(clause, key, detail string) {
	for _, f := range p.Found {
		if f.Viol.Clause == clause && f.Viol.Key == key {
			return
		}
	}
	if len(p.Found) < 20 {
		p.Found = append(p.Found, found{Viol: violation{clause, key, detail}, Part: p.Scenario})
	}
}

// ---- bodies -----------------------------------------------------------------------------------

// escaping: G goroutines escape different strings (control bytes, invalid UTF-8, quotes) into their
// own buffers at the same time; every result must equal the sequentially computed one.
func bodyEscaping(p *part, rounds int) {
	inputs := []string{"\x00a", "\x01b\x1f", "\x18\x19", "q\"\\", "\xff\xfe", "é\x7f\x10", "plain", "\x02\x03\x04\x05", "tab\t\n\r", "\x1b[0m"}
	want := make([]string, len(inputs))
	for i, in := range inputs {
		b := &bytes.Buffer{}
		log.WriteLogString(b, in)
		want[i] = b.String()
	}
	var wg sync.WaitGroup
	var mu sync.Mutex
	for g := 0; g < 8; g++ {
		wg.Add(1)
		go func(g int) {
			defer wg.Done()
			b := &bytes.Buffer{}
			jb := &bytes.Buffer{}
			for r := 0; r < rounds; r++ {
				i := (g + r) % len(inputs)
				b.Reset()
				log.WriteLogString(b, inputs[i])
				jb.Reset()
				enc := log.NewJSONEncoder(jb)
				enc.AppendObjectBegin()
				enc.AppendKey(inputs[i])
				enc.AppendString(inputs[i])
				enc.AppendObjectEnd()
				if b.String() != want[i] || jb.String() != `{"`+want[i]+`":"`+want[i]+`"}` {
					mu.Lock()
					p.fail("concurrent-escaping-differs", fmt.Sprintf("%q", inputs[i]), fmt.Sprintf("escaping %q concurrently gave %q / %q, alone it gives %q", inputs[i], b.String(), jb.String(), want[i]))
					mu.Unlock()
				}
			}
		}(g)
	}
	wg.Wait()
	p.Executions += int64(8 * rounds)
}

type lockedSink struct {
	mu    sync.Mutex
	lines []string
}

func (s *lockedSink) Write(b []byte) (int, error) {
	// consume slowly: first half, yield, second half (the caller's slice must stay intact meanwhile)
	h := len(b) / 2
	first := string(b[:h])
	time.Sleep(time.Microsecond)
	rest := string(b[h:])
	s.mu.Lock()
	s.lines = append(s.lines, first+rest)
	s.mu.Unlock()
	return len(b), nil
}

var tags = []*log.Tag{log.RegisterTag("_race_a"), log.RegisterTag("_race_b")}

// logging: G goroutines log self-identifying events (short, long, control bytes) through a synchronous
// logger onto console + file, both layouts; every line must be whole and equal to the line obtained by
// formatting the event alone.
func bodyLogging(p *part, rounds int, layout string, loggerLayout bool) {
	dir, err := os.MkdirTemp("", "verif-race-")
	if err != nil {
		panic(err)
	}
	defer os.RemoveAll(dir)
	sink := &lockedSink{}
	log.Stdout = sink
	fixed := time.Date(2025, 6, 1, 10, 0, 0, 0, time.UTC)
	log.TimeNow = func(context.Context) time.Time { return fixed }
	conf := map[string]string{
		"bufferCap": "1KB", "appender.c.type": "Console", "appender.f.type": "File", "appender.f.fileDir": dir, "appender.f.fileName": "r.log",
		"logger.root.type": "Logger", "logger.root.appenderRef[0].ref": "c", "logger.root.appenderRef[1].ref": "f",
	}
	if loggerLayout {
		conf["logger.root.layout.type"] = layout
	} else {
		conf["appender.c.layout.type"] = layout
		conf["appender.f.layout.type"] = layout
	}
	if err := log.Refresh(conf); err != nil {
		p.fail("setup", layout, err.Error())
		return
	}
	payload := func(g, r int) string {
		base := fmt.Sprintf("g%d-r%d-", g, r)
		switch r % 4 {
		case 1:
			return base + strings.Repeat(string(rune('a'+g)), 700)
		case 2:
			return base + "\x01\x1e\"" + strings.Repeat("z", g)
		case 3:
			return base + strings.Repeat("m", 450+g)
		}
		return base
	}
	const G = 8
	var wg sync.WaitGroup
	for g := 0; g < G; g++ {
		wg.Add(1)
		go func(g int) {
			defer wg.Done()
			for r := 0; r < rounds; r++ {
				emit(tags[g%2], payload(g, r), g)
			}
		}(g)
	}
	wg.Wait()
	log.Destroy()
	// reference: the same events, one goroutine, fresh sink
	got := sink.lines
	ref := &lockedSink{}
	log.Stdout = ref
	if err := log.Refresh(conf); err != nil {
		p.fail("setup", layout, err.Error())
		return
	}
	for g := 0; g < G; g++ {
		for r := 0; r < rounds; r++ {
			emit(tags[g%2], payload(g, r), g)
		}
	}
	log.Destroy()
	cnt := map[string]int{}
	for _, l := range ref.lines {
		cnt[l]++
	}
	bad := 0
	for _, l := range got {
		if cnt[l] > 0 {
			cnt[l]--
		} else if bad++; bad <= 3 {
			p.fail("line-differs-from-solo-line", layout, fmt.Sprintf("sink received %q which is not the line of any event formatted alone", trunc(l, 200)))
		}
	}
	missing := 0
	for _, n := range cnt {
		missing += n
	}
	if missing > 0 || len(got) != len(ref.lines) {
		p.fail("lines-missing", layout, fmt.Sprintf("%d of %d lines missing or altered", missing, len(ref.lines)))
	}
	p.Executions += int64(G * rounds)
}

//go:noinline
func emit(t *log.Tag, payload string, g int) {
	log.Info(context.Background(), t, log.String("k", payload), log.Int("g", g))
}

func trunc(s string, n int) string {
	if len(s) > n {
		return s[:n] + "..."
	}
	return s
}

type countAppender struct {
	mu    sync.Mutex
	items map[string]int
}

func (a *countAppender) Start() error    { return nil }
func (a *countAppender) Stop()           {}
func (a *countAppender) GetName() string { return "count" }
func (a *countAppender) Append(e *log.Event) {
	a.mu.Lock()
	if len(e.Fields) == 0 {
		a.items["BLANK-EVENT"] += 2 // an event nobody submitted (reported as delivered-twice / foreign)
	} else {
		a.items[fmt.Sprintf("E%d", e.Fields[0].Num)]++
	}
	a.mu.Unlock()
}
func (a *countAppender) Write(b []byte) {
	a.mu.Lock()
	a.items["W"+string(b)]++
	a.mu.Unlock()
}

// async: producers (events and raw writes with a recycled buffer) against the worker, all three
// policies, then Stop; conservation and "nothing twice, nothing altered".
func bodyAsync(p *part, rounds int, policy log.BufferFullPolicy) {
	a := &countAppender{items: map[string]int{}}
	l := &log.AsyncLogger{
		LoggerBase:       log.LoggerBase{Name: "a", Level: log.LevelRange{MinLevel: log.NoneLevel, MaxLevel: log.MaxLevel}},
		AppenderRefs:     log.AppenderRefs{AppenderRefs: []*log.AppenderRef{{Appender: a, Level: log.LevelRange{MinLevel: log.NoneLevel, MaxLevel: log.MaxLevel}}}},
		BufferSize:       100,
		BufferFullPolicy: policy,
	}
	if err := l.Start(); err != nil {
		p.fail("setup", "async", err.Error())
		return
	}
	const G = 6
	var wg sync.WaitGroup
	for g := 0; g < G; g++ {
		wg.Add(1)
		go func(g int) {
			defer wg.Done()
			buf := make([]byte, 0, 32)
			for r := 0; r < rounds; r++ {
				id := g*1000000 + r
				if r%2 == 0 {
					e := log.GetEvent()
					e.Level = log.InfoLevel
					e.Fields = []log.Field{log.Int("id", id)}
					l.Append(e)
				} else {
					buf = append(buf[:0], fmt.Sprintf("%d", id)...)
					l.Write(buf)
					for i := range buf {
						buf[i] = '#'
					}
				}
			}
		}(g)
	}
	wg.Wait()
	l.Stop()
	total := 0
	for id, n := range a.items {
		total += n
		if n > 1 {
			p.fail("delivered-twice", fmt.Sprint(policy), fmt.Sprintf("item %s delivered %d times", id, n))
		}
		if strings.Contains(id, "#") {
			p.fail("write-altered", fmt.Sprint(policy), fmt.Sprintf("appender received %q", id))
		}
	}
	if int64(total)+l.GetDiscardCounter() != int64(G*rounds) {
		p.fail("conservation", fmt.Sprint(policy), fmt.Sprintf("delivered %d + discarded %d != submitted %d", total, l.GetDiscardCounter(), G*rounds))
	}
	p.Executions += int64(G * rounds)
}

// rolling: concurrent writers on a real RollingFileAppender across real 1-second boundaries.
func bodyRolling(p *part, seconds int) {
	dir, err := os.MkdirTemp("", "verif-race-roll-")
	if err != nil {
		panic(err)
	}
	defer os.RemoveAll(dir)
	a := &log.RollingFileAppender{FileDir: dir, FileName: "r.log", Rotation: log.TimeRotation{Interval: time.Second}, MaxAge: 1}
	if err := a.Start(); err != nil {
		p.fail("setup", "rolling", err.Error())
		return
	}
	stop := time.Now().Add(time.Duration(seconds) * time.Second)
	var wg sync.WaitGroup
	counts := make([]int, 4)
	for g := 0; g < 4; g++ {
		wg.Add(1)
		go func(g int) {
			defer wg.Done()
			for i := 0; time.Now().Before(stop); i++ {
				a.Write([]byte(fmt.Sprintf("w%d-%d\n", g, i)))
				counts[g] = i + 1
				if i%64 == 0 {
					time.Sleep(time.Millisecond)
				}
			}
		}(g)
	}
	wg.Wait()
	a.Stop()
	seen := map[string]int{}
	es, _ := os.ReadDir(dir)
	for _, e := range es {
		b, _ := os.ReadFile(dir + "/" + e.Name())
		for _, l := range strings.Split(strings.TrimSuffix(string(b), "\n"), "\n") {
			seen[l]++
		}
	}
	for g, n := range counts {
		for i := 0; i < n; i++ {
			if c := seen[fmt.Sprintf("w%d-%d", g, i)]; c != 1 {
				p.fail("rolling-write-count", "rolling", fmt.Sprintf("write w%d-%d is %d times in the files (%d files)", g, i, c, len(es)))
				break
			}
		}
		p.Executions += int64(n)
	}
}

// hooks: 8 goroutines log through ONE synchronous logger / layout while the three context hooks are set: the
// time hook returns a different instant per call, the context-fields hook returns the SAME slice with spare
// capacity to every call (as an application that keeps its base fields in one place does), the context
// string carries the call's id. Every line must carry the time, context string and own field of ITS call.
type hookID struct{}

func bodyHooks(p *part, rounds int, layout string) {
	log.VerifReset()
	sink := &lockedSink{}
	log.Stdout = sink
	base := time.Date(2025, 6, 1, 10, 0, 0, 0, time.UTC)
	idOf := func(ctx context.Context) int { v, _ := ctx.Value(hookID{}).(int); return v }
	shared := make([]log.Field, 1, 8)
	shared[0] = log.String("svc", "base")
	log.TimeNow = func(ctx context.Context) time.Time { return base.Add(time.Duration(idOf(ctx)) * time.Millisecond) }
	log.StringFromContext = func(ctx context.Context) string { return fmt.Sprintf("cs-%d", idOf(ctx)) }
	log.FieldsFromContext = func(ctx context.Context) []log.Field { return shared[:1] }
	defer func() { log.TimeNow, log.StringFromContext, log.FieldsFromContext = nil, nil, nil }()
	if err := log.Refresh(map[string]string{"appender.c.type": "Console", "appender.c.layout.type": layout, "logger.root.type": "Logger", "logger.root.level": "INFO", "logger.root.appenderRef.ref": "c"}); err != nil {
		p.fail("setup", "hooks", err.Error())
		return
	}
	var wg sync.WaitGroup
	for g := 0; g < 8; g++ {
		wg.Add(1)
		go func(g int) {
			defer wg.Done()
			for r := 0; r < rounds; r++ {
				id := 1 + g*rounds + r
				log.Info(context.WithValue(context.Background(), hookID{}, id), tags[g%2], log.Int("id", id), log.String("own", fmt.Sprintf("own-%d", id)))
			}
		}(g)
	}
	wg.Wait()
	log.Destroy()
	sink.mu.Lock()
	lines := append([]string(nil), sink.lines...)
	sink.mu.Unlock()
	if len(lines) != 8*rounds {
		p.fail("lines-missing", layout, fmt.Sprintf("%d lines for %d events", len(lines), 8*rounds))
	}
	for _, l := range lines {
		var id int
		k := "||id="
		if layout == "JSONLayout" {
			k = `"id":`
		}
		i := strings.Index(l, k)
		if i < 0 {
			p.fail("record-not-from-its-call", layout, fmt.Sprintf("line without an id field: %q", l))
			continue
		}
		fmt.Sscanf(l[i+len(k):], "%d", &id)
		ts := base.Add(time.Duration(id) * time.Millisecond).Format("2006-01-02T15:04:05.000")
		if !strings.Contains(l, ts) || !strings.Contains(l, fmt.Sprintf("cs-%d", id)) || !strings.Contains(l, fmt.Sprintf("own-%d", id)) || !strings.Contains(l, "base") {
			p.fail("record-not-from-its-call", layout, fmt.Sprintf("call %d (hook time %s, context string cs-%d, own field own-%d): line %q", id, ts, id, id, l))
		}
	}
	p.Executions += int64(8 * rounds)
}

// caller: 8 goroutines released together onto the SAME call site with a cold frame cache (the package state is
// restored before every round), then onto different ones; every record must carry the location of its own
// statement, in default and in fast mode.
type locRec struct {
	log.AppenderBase
}

var (
	locMu    sync.Mutex
	locItems []string
)

func (a *locRec) Start() error { return nil }
func (a *locRec) Stop()        {}
func (a *locRec) Append(e *log.Event) {
	locMu.Lock()
	if len(e.Fields) > 0 {
		locItems = append(locItems, fmt.Sprintf("%d@%s:%d", e.Fields[0].Num, e.File, e.Line))
	}
	locMu.Unlock()
}
func (a *locRec) Write(b []byte) {}

func init() { log.RegisterPlugin[locRec]("RLoc", log.PluginTypeAppender) }

func here() (string, int) {
	_, f, l, _ := runtime.Caller(1)
	return f, l
}

var raceSites = []func(id int) string{
	func(id int) string {
		f, l := here()
		log.Info(context.Background(), tags[0], log.Int("id", id))
		return fmt.Sprintf("%d@%s:%d", id, f, l+1)
	},
	func(id int) string {
		f, l := here()
		log.Warn(context.Background(), tags[1], log.Int("id", id))
		return fmt.Sprintf("%d@%s:%d", id, f, l+1)
	},
	func(id int) string {
		f, l := here()
		log.Error(context.Background(), tags[0], log.Int("id", id))
		return fmt.Sprintf("%d@%s:%d", id, f, l+1)
	},
	func(id int) string {
		f, l := here()
		log.Record(context.Background(), log.InfoLevel, tags[1], 1, log.Int("id", id))
		return fmt.Sprintf("%d@%s:%d", id, f, l+1)
	},
}

func bodyCaller(p *part, rounds int, fast bool) {
	for r := 0; r < rounds; r++ {
		log.VerifReset() // cold caches
		log.Stdout = &bytes.Buffer{}
		if err := log.Refresh(map[string]string{"appender.l.type": "RLoc", "logger.root.type": "Logger", "logger.root.level": "INFO", "logger.root.appenderRef.ref": "l",
			"enableCaller": "true", "fastCaller": fmt.Sprint(fast)}); err != nil {
			p.fail("setup", "caller", err.Error())
			return
		}
		locMu.Lock()
		locItems = nil
		locMu.Unlock()
		var wg sync.WaitGroup
		var mu sync.Mutex
		var want []string
		start := make(chan struct{})
		for g := 0; g < 8; g++ {
			wg.Add(1)
			go func(g int) {
				defer wg.Done()
				<-start
				a := raceSites[r%len(raceSites)](r*100 + g*2)
				b := raceSites[(r+g)%len(raceSites)](r*100 + g*2 + 1)
				mu.Lock()
				want = append(want, a, b)
				mu.Unlock()
			}(g)
		}
		close(start)
		wg.Wait()
		log.Destroy()
		locMu.Lock()
		got := append([]string(nil), locItems...)
		locMu.Unlock()
		sort.Strings(got)
		sort.Strings(want)
		if strings.Join(got, ",") != strings.Join(want, ",") {
			for i := range want {
				if i >= len(got) || got[i] != want[i] {
					g := "(missing)"
					if i < len(got) {
						g = got[i]
					}
					p.fail("wrong-location-under-concurrency", fmt.Sprintf("fast=%v", fast), fmt.Sprintf("round %d: record %q, the calling statement is %q", r, g, want[i]))
					break
				}
			}
		}
		p.Executions += 16
	}
}

func main() {
	fs := flag.NewFlagSet("run", flag.ExitOnError)
	prop := fs.String("prop", "", "property")
	tier := fs.String("tier", "quick", "tier")
	out := fs.String("out", "", "output")
	shard := fs.String("shard", "0/1", "i/n (only shard 0 works)")
	_ = fs.Int("deadline", 0, "")
	_ = fs.Int("seed", 0, "")
	if len(os.Args) < 2 || os.Args[1] != "run" {
		fmt.Fprintln(os.Stderr, "usage: race run --prop P ...")
		os.Exit(2)
	}
	fs.Parse(os.Args[2:])
	t0 := time.Now()
	rounds := 300
	if *tier == "thorough" {
		rounds = 3000
	}
	var parts []*part
	if strings.HasPrefix(*shard, "0/") {
		add := func(name, bounds string, f func(p *part)) {
			p := &part{Scenario: name, Bounds: bounds, DistinctObs: 2, ObsHashes: []uint64{1, 2}}
			f(p)
			p.States, p.Transitions = p.Executions, p.Executions
			p.Samples = []any{map[string]any{"part": name, "note": "free-running -race pass: real goroutines, uninstrumented package; sampling, not exhaustive"}}
			parts = append(parts, p)
		}
		switch *prop {
		case "C09":
			add("c09/free-running-race/escaping", fmt.Sprintf("8 goroutines x %d concurrent escapes (sampling, -race)", rounds*20), func(p *part) { bodyEscaping(p, rounds*20) })
		case "C03":
			for _, lay := range []string{"TextLayout", "JSONLayout"} {
				for _, ll := range []bool{false, true} {
					lay, ll := lay, ll
					add(fmt.Sprintf("c03/free-running-race/%s/logger-layout=%v", lay, ll), fmt.Sprintf("8 goroutines x %d events (sampling, -race)", rounds), func(p *part) { bodyLogging(p, rounds, lay, ll) })
				}
			}
			add("c03/free-running-race/escaping", "8 goroutines concurrent escapes", func(p *part) { bodyEscaping(p, rounds*5) })
			for _, lay := range []string{"TextLayout", "JSONLayout"} {
				lay := lay
				add("c03/free-running-race/hooks/"+lay, fmt.Sprintf("8 goroutines x %d events, per-call hook time, one shared context-field slice with spare capacity (sampling, -race)", rounds), func(p *part) { bodyHooks(p, rounds, lay) })
			}
		case "C04", "C12":
			for _, pol := range []log.BufferFullPolicy{log.BufferFullPolicyBlock, log.BufferFullPolicyDiscard, log.BufferFullPolicyDiscardOldest} {
				pol := pol
				add(fmt.Sprintf("%s/free-running-race/async/policy=%d", strings.ToLower(*prop), pol), fmt.Sprintf("6 producers x %d items (sampling, -race)", rounds*3), func(p *part) { bodyAsync(p, rounds*3, pol) })
			}
		case "C08", "C10":
			for _, lay := range []string{"TextLayout", "JSONLayout"} {
				if *prop == "C08" && lay != "TextLayout" {
					continue
				}
				lay := lay
				add(fmt.Sprintf("%s/free-running-race/hooks/%s", strings.ToLower(*prop), lay), fmt.Sprintf("8 goroutines x %d events through one layout, per-call hook time, shared context-field slice with spare capacity (sampling, -race)", rounds), func(p *part) { bodyHooks(p, rounds, lay) })
			}
		case "C11":
			for _, fast := range []bool{false, true} {
				fast := fast
				add(fmt.Sprintf("c11/free-running-race/same-site/fast=%v", fast), fmt.Sprintf("%d rounds: 8 goroutines released onto one cold call site, then onto different ones (sampling, -race)", rounds/2), func(p *part) { bodyCaller(p, rounds/2, fast) })
			}
		case "C13":
			add("c13/free-running-race/rolling", "4 writers across real 1-second boundaries (sampling, -race)", func(p *part) {
				s := 3
				if *tier == "thorough" {
					s = 8
				}
				bodyRolling(p, s)
			})
		}
	}
	res := map[string]any{"property": *prop, "tier": *tier, "scenarios": parts, "wall_s": time.Since(t0).Seconds()}
	b, _ := json.Marshal(res)
	if *out == "" {
		os.Stdout.Write(b)
	} else {
		os.WriteFile(*out, b, 0644)
	}
}
