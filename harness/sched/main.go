// Command sched is the scheduler-driven harness: closed scenarios over the instrumented package,
// explored exhaustively within preemption / deviation budgets by the zzvrt explorer.
package main

import (
	"encoding/json"
	"flag"
	"fmt"
	"os"
	"sort"
	"strconv"
	"strings"
	"time"

	zzvrt "github.com/go-spring/log/zzvrt"
)

// Scn is a registered scenario.
type Scn struct {
	Prop  string
	Name  string
	Tiers string // "qt" quick+thorough, "t" thorough only
	Make  func(tier string) *zzvrt.Scenario
}

var registry []Scn

var (
	theConformer *conformer
	conformCount int64
)

// Fam is a family of scenarios indexed 0..Count-1 (one Stats entry for the whole family; members
// are distributed over the shards, each member is explored completely by its shard).
type Fam struct {
	Prop  string
	Name  string
	Tiers string
	Count func(tier string) int
	Make  func(tier string, i int) *zzvrt.Scenario
	Early bool // small family that runs BEFORE the scenarios of its property (a tree that makes the big scenarios explode must not keep the shard's time budget from reaching it)
}

var families []Fam

func registerFamily(f Fam) { families = append(families, f) }

func runFamily(f Fam, tier string, si, sn int, dl time.Time, onlyIdx int) zzvrt.Stats {
	agg := zzvrt.Stats{Scenario: f.Name, Outcomes: map[string]int64{}}
	obs := map[uint64]struct{}{}
	n := f.Count(tier)
	for i := 0; i < n; i++ {
		if i%sn != si || (onlyIdx >= 0 && i != onlyIdx) {
			continue
		}
		if !dl.IsZero() && time.Now().After(dl) {
			agg.Capped = true
			break
		}
		sc := f.Make(tier, i)
		if sc == nil {
			continue
		}
		sc.Name = fmt.Sprintf("%s#%d", f.Name, i)
		e := &zzvrt.Explorer{S: sc, Shard: 0, NShards: 1, Deadline: dl, MaxFound: 3}
		e.Explore()
		st := e.Stats
		agg.Bounds = st.Bounds
		agg.Executions += st.Executions
		agg.Steps += st.Steps
		agg.TreeNodes += st.TreeNodes
		agg.Members++
		if st.MaxPoints > agg.MaxPoints {
			agg.MaxPoints = st.MaxPoints
		}
		for k, v := range st.Outcomes {
			agg.Outcomes[k] += v
		}
		for _, h := range st.ObsHashes {
			obs[h] = struct{}{}
		}
		agg.Capped = agg.Capped || st.Capped
		agg.ReplayChecked += st.ReplayChecked
		if len(agg.Found) < 20 {
			agg.Found = append(agg.Found, st.Found...)
		}
		if agg.Sample == nil && st.SampleTrace != nil {
			agg.Sample, agg.SampleTrace = st.Sample, append([]string{sc.Name + " " + sc.Desc}, st.SampleTrace...)
		}
	}
	agg.DistinctObs = len(obs)
	if len(obs) <= 4096 {
		for h := range obs {
			agg.ObsHashes = append(agg.ObsHashes, h)
		}
	}
	return agg
}

func register(prop, name, tiers string, mk func(tier string) *zzvrt.Scenario) {
	registry = append(registry, Scn{prop, name, tiers, mk})
}

type shardOut struct {
	Property  string        `json:"property"`
	Tier      string        `json:"tier"`
	Shard     int           `json:"shard"`
	NShards   int           `json:"nshards"`
	Scenarios []zzvrt.Stats `json:"scenarios"`
	WallS     float64       `json:"wall_s"`
}

func main() {
	if len(os.Args) < 2 {
		fmt.Fprintln(os.Stderr, "usage: sched run|replay|list ...")
		os.Exit(2)
	}
	switch os.Args[1] {
	case "list":
		for _, s := range registry {
			fmt.Println(s.Prop, s.Name, s.Tiers)
		}
	case "run":
		fs := flag.NewFlagSet("run", flag.ExitOnError)
		prop := fs.String("prop", "", "property id")
		tier := fs.String("tier", "quick", "quick|thorough")
		shard := fs.String("shard", "0/1", "i/n")
		out := fs.String("out", "", "output json")
		only := fs.String("scenario", "", "only scenarios whose name contains this")
		deadline := fs.Int("deadline", 0, "seconds for this shard (0 = none)")
		_ = fs.Int("seed", 0, "seed (only permutes visiting order when a cap is hit)")
		fs.Parse(os.Args[2:])
		var si, sn int
		fmt.Sscanf(*shard, "%d/%d", &si, &sn)
		t0 := time.Now()
		res := shardOut{Property: *prop, Tier: *tier, Shard: si, NShards: sn}
		var dl time.Time
		if *deadline > 0 {
			dl = t0.Add(time.Duration(*deadline) * time.Second)
		}
		for _, f := range families {
			if !f.Early || f.Prop != *prop || (*tier == "quick" && !strings.Contains(f.Tiers, "q")) || (*only != "" && !strings.Contains(f.Name, *only)) {
				continue
			}
			res.Scenarios = append(res.Scenarios, runFamily(f, *tier, si, sn, dl, -1))
		}
		for _, s := range registry {
			if s.Prop != *prop || (*tier == "quick" && !strings.Contains(s.Tiers, "q")) {
				continue
			}
			if *only != "" && !strings.Contains(s.Name, *only) {
				continue
			}
			sc := s.Make(*tier)
			sc.Name = s.Name
			e := &zzvrt.Explorer{S: sc, Shard: si, NShards: sn, Deadline: dl}
			c0 := conformCount
			e.Explore()
			if conformCount > c0 {
				e.Stats.Extra = map[string]int64{"vfs_traces_replayed_on_real_fs": conformCount - c0}
			}
			res.Scenarios = append(res.Scenarios, e.Stats)
		}
		for _, f := range families {
			if f.Early || f.Prop != *prop || (*tier == "quick" && !strings.Contains(f.Tiers, "q")) {
				continue
			}
			if *only != "" && !strings.Contains(f.Name, *only) {
				continue
			}
			res.Scenarios = append(res.Scenarios, runFamily(f, *tier, si, sn, dl, -1))
		}
		if theConformer != nil {
			theConformer.close()
		}
		res.WallS = time.Since(t0).Seconds()
		b, _ := json.Marshal(res)
		if *out == "" {
			os.Stdout.Write(b)
			fmt.Println()
		} else if err := os.WriteFile(*out, b, 0644); err != nil {
			fmt.Fprintln(os.Stderr, err)
			os.Exit(2)
		}
	case "replay":
		fs := flag.NewFlagSet("replay", flag.ExitOnError)
		name := fs.String("scenario", "", "scenario name")
		tier := fs.String("tier", "quick", "tier the scenario was built for")
		choices := fs.String("choices", "", "comma separated choice list")
		fs.Parse(os.Args[2:])
		var ch []int
		for _, p := range strings.Split(*choices, ",") {
			if p = strings.TrimSpace(p); p != "" {
				n, err := strconv.Atoi(p)
				if err != nil {
					fmt.Fprintln(os.Stderr, "bad choice list")
					os.Exit(2)
				}
				ch = append(ch, n)
			}
		}
		for _, s := range registry {
			if s.Name != *name {
				continue
			}
			sc := s.Make(*tier)
			sc.Name = s.Name
			x, obs, v := zzvrt.Replay(sc, ch)
			for _, l := range x.Trace {
				fmt.Println(l)
			}
			fmt.Printf("outcome=%q\nobservation=%s\n", x.Outcome, obs)
			if x.Stack != "" {
				fmt.Println(x.Stack)
			}
			for _, vi := range v {
				fmt.Printf("VIOLATED clause=%s key=%s: %s\n", vi.Clause, vi.Key, vi.Detail)
			}
			if len(v) > 0 {
				os.Exit(1)
			}
			return
		}
		for _, f := range families {
			base, idx, ok := strings.Cut(*name, "#")
			if !ok || f.Name != base {
				continue
			}
			i, _ := strconv.Atoi(idx)
			sc := f.Make(*tier, i)
			sc.Name = *name
			x, obs, v := zzvrt.Replay(sc, ch)
			fmt.Println(sc.Desc)
			for _, l := range x.Trace {
				fmt.Println(l)
			}
			fmt.Printf("outcome=%q\nobservation=%s\n", x.Outcome, obs)
			if x.Stack != "" {
				fmt.Println(x.Stack)
			}
			for _, vi := range v {
				fmt.Printf("VIOLATED clause=%s key=%s: %s\n", vi.Clause, vi.Key, vi.Detail)
			}
			if len(v) > 0 {
				os.Exit(1)
			}
			return
		}
		fmt.Fprintln(os.Stderr, "unknown scenario", *name)
		os.Exit(2)
	}
}

func sortedCopy(s []string) []string {
	c := append([]string(nil), s...)
	sort.Strings(c)
	return c
}
