package main

import (
	"fmt"
	"regexp"
	"sort"
	"strings"
	"time"

	log "github.com/go-spring/log"
	zzvrt "github.com/go-spring/log/zzvrt"
)

// ---------------------------------------------------------------------------------------------
// The real RollingFileAppender on the in-memory filesystem and the virtual clock (C13, C19, C05c).
// Writers write self-identifying one-line ids; the explorer decides the interleaving, where the
// clock crosses an interval boundary (any time.Now call), and which filesystem calls fail.
// ---------------------------------------------------------------------------------------------

const (
	rollDir  = "/logs"
	rollName = "app.log"
)

var (
	rollNameRe = regexp.MustCompile(`^app\.log\.(\d{14})$`)
	rollStart  = time.Date(2025, 6, 1, 10, 20, 0, 0, time.UTC)
)

type rollWrite struct {
	id         string
	startAt    time.Time
	endAt      time.Time
	startStep  int
	endStep    int
	returned   bool
	ticksAtBeg int
	ticksAtEnd int
	kf         string // known-finding classification suffix
	tid        int
}

type rollCfg struct {
	writers  [][]string // ids per writer
	preExist bool       // a file with the start-up name already exists
	restart  bool       // Stop/Start cycle in the middle (single writer)
	maxAge   int32
	conform  bool // replay every execution's filesystem call log on the real filesystem
	variant  string
	openOnly bool            // only file creations may fail
	zone     *time.Location  // the process's local zone (default UTC): file names carry local wall-clock time
	syncOnly bool            // only fsync calls may fail (a target that cannot be synced: a pipe, a device, an I/O error at the end)
	lands    []time.Duration // where in the next interval a clock tick may land (default: 1ms after the boundary)
	interval time.Duration   // rotation interval (default: one hour)
	skew     time.Duration   // != 0: writes are Append calls of events stamped clock+skew (the appender's clock is the wall clock, not the event)
	tail     []string        // written by the main thread, one at a time, after every writer has finished (and before Stop)
}

// idLayout formats an event as its tag (which carries the write's id) plus a line break.
type idLayout struct{}

func (idLayout) ToBytes(e *log.Event) []byte { return []byte(e.Tag + "\n") }

func (c rollCfg) loc() *time.Location {
	if c.zone != nil {
		return c.zone
	}
	return time.UTC
}

func (c rollCfg) start() time.Time { return rollStart.In(c.loc()) }

func (c rollCfg) iv() time.Duration {
	if c.interval > 0 {
		return c.interval
	}
	return time.Hour
}

type rollObs struct {
	writes  []*rollWrite
	err     string
	fdsQ    []int // open descriptors under the directory at quiescent moments
	stopped bool
	stderr  string
}

func (c rollCfg) name() string {
	var ws []string
	for _, w := range c.writers {
		ws = append(ws, fmt.Sprint(len(w)))
	}
	s := "w" + strings.Join(ws, "+")
	if c.preExist {
		s += "/pre"
	}
	if c.restart {
		s += "/restart"
	}
	if c.conform {
		s += "/vfs-conformance"
	}
	if c.variant != "" {
		s += "/" + c.variant
	}
	if c.interval > 0 {
		s += "/every-" + c.interval.String()
	}
	if c.skew != 0 {
		s += fmt.Sprintf("/append-event-time%+v", c.skew)
	}
	if c.syncOnly {
		s += "/failing-fsync"
	}
	if c.zone != nil {
		s += fmt.Sprintf("/zone=%s/maxAge=%d", c.zone, c.maxAge)
	}
	return s
}

func ticksUsed(x *zzvrt.Exec) int {
	_, env := x.Used()
	return env[zzvrt.SeamTick]
}

func (c rollCfg) run(o *rollObs) {
	x := zzvrt.Cur()
	if c.openOnly {
		x.FS.FaultOps = map[string]bool{"open": true}
	}
	if c.syncOnly {
		x.FS.FaultOps = map[string]bool{"sync": true}
	}
	a := &log.RollingFileAppender{FileDir: rollDir, FileName: rollName, Rotation: log.TimeRotation{Interval: c.iv()}, MaxAge: c.maxAge}
	if c.skew != 0 {
		a.Layout = idLayout{}
	}
	zzvrt.Atomic(func() {
		x.FS.MkdirAll(rollDir)
		if c.preExist {
			x.FS.Put(rollDir+"/"+rollName+"."+x.Now.Format("20060102150405"), []byte("old-content\n"), x.Now.Add(-time.Minute))
		}
		if err := a.Start(); err != nil {
			o.err = "start: " + err.Error()
		}
	})
	if o.err != "" {
		return
	}
	done := 0
	for wi, ids := range c.writers {
		ids := ids
		zzvrt.GoNamed(fmt.Sprintf("writer-%d", wi), func() {
			for k, id := range ids {
				w := &rollWrite{id: id, startAt: x.Now, startStep: x.Steps, ticksAtBeg: ticksUsed(x), tid: zzvrt.ThreadID()}
				o.writes = append(o.writes, w)
				if c.skew != 0 {
					a.Append(&log.Event{Level: log.InfoLevel, Time: x.Now.Add(c.skew), Tag: id})
				} else {
					a.Write([]byte(id + "\n"))
				}
				w.endAt, w.endStep, w.returned, w.ticksAtEnd = x.Now, x.Steps, true, ticksUsed(x)
				if c.restart && k == 0 {
					a.Stop()
					if err := a.Start(); err != nil {
						o.err = "restart: " + err.Error()
						done++
						return
					}
				}
			}
			done++
		})
	}
	zzvrt.WaitUntil(func() bool { return done == len(c.writers) })
	for _, id := range c.tail {
		w := &rollWrite{id: id, startAt: x.Now, startStep: x.Steps, ticksAtBeg: ticksUsed(x), tid: zzvrt.ThreadID()}
		o.writes = append(o.writes, w)
		a.Write([]byte(id + "\n"))
		w.endAt, w.endStep, w.returned, w.ticksAtEnd = x.Now, x.Steps, true, ticksUsed(x)
	}
	// quiescent: no write in progress (the retention goroutine may still be running)
	o.fdsQ = append(o.fdsQ, x.FS.OpenCount(rollDir))
	a.Stop()
	a.Stop() // Stop twice must be harmless
	o.stopped = true
}

// aloneOf: "issued one at a time" - no other write call is in progress at any moment of w.
func aloneOf(o *rollObs, w *rollWrite) bool {
	for _, u := range o.writes {
		if u != w && !(u.returned && u.endStep <= w.startStep) && !(u.startStep >= w.endStep && w.returned) {
			return false
		}
	}
	return true
}

// rollCheck: clauses are tagged by property; faults says whether I/O faults may have been injected
// (then "nothing lost" only covers writes that were not hit by a fault).
func rollCheck(prop string, c rollCfg, o *rollObs, x *zzvrt.Exec) (string, []zzvrt.Violation) {
	key := c.name()
	var v []zzvrt.Violation
	add := func(p, clause, k, detail string) {
		if p == prop || p == "*" {
			v = append(v, zzvrt.Violation{Clause: clause, Key: k, Detail: detail})
		}
	}
	_, env := x.Used()
	faults := env[zzvrt.SeamFault]
	if x.Outcome != "" {
		cl := "no-" + strings.SplitN(x.Outcome, ":", 2)[0]
		add("*", cl, key, x.Outcome)
		return x.Outcome, v
	}
	if o.err != "" {
		if faults > 0 {
			return "start-failed-by-fault", nil
		}
		return o.err, []zzvrt.Violation{{Clause: "setup", Key: key, Detail: o.err}}
	}
	// where did every id land?
	type loc struct {
		file string
		n    int
	}
	where := map[string][]string{}
	var names []string
	var sb strings.Builder
	for _, name := range x.FS.List(rollDir) {
		n := x.FS.Nodes[rollDir+"/"+name]
		if n.Dir {
			continue
		}
		names = append(names, name)
		data := string(n.Data)
		fmt.Fprintf(&sb, "%s=%q;", name, data)
		if !rollNameRe.MatchString(name) {
			add("C13", "file-name", key, fmt.Sprintf("unexpected file %q in the log directory", name))
			continue
		}
		if !strings.HasSuffix(data, "\n") && data != "" {
			add("C13", "torn-line", key, fmt.Sprintf("%s ends with a partial line: %q", name, data))
		}
		for _, line := range strings.Split(strings.TrimSuffix(data, "\n"), "\n") {
			if line != "" {
				where[line] = append(where[line], name)
			}
		}
	}
	// which writes were hit by an injected fault (their bytes may legitimately be missing)?
	faulted := false
	for _, call := range x.FS.Log {
		if strings.Contains(call.Err, "injected") {
			faulted = true
		}
	}
	// D15 classification (see known-findings.txt).
	// (A) closedLate(w): w's bytes went to a descriptor that a rotation had closed, and that rotation
	// belongs to an interval at least two intervals after the file's own: the writer was suspended
	// between loading the file pointer and writing while two interval boundaries were rotated.
	closedLate := func(w *rollWrite) bool {
		for i, call := range x.FS.Log {
			if call.Op != "write" || !strings.Contains(call.Err, "closed") || call.TID != w.tid || call.Step <= w.startStep || call.Step > w.endStep {
				continue
			}
			// the close of that path before the failed write, and what the closing thread opened next
			for j := i - 1; j >= 0; j-- {
				cj := x.FS.Log[j]
				if cj.Op != "close" || cj.Path != call.Path {
					continue
				}
				for _, ck := range x.FS.Log[j+1:] {
					if ck.Op == "open" && ck.TID == cj.TID {
						mp, mq := rollNameRe.FindStringSubmatch(call.Path[len(rollDir)+1:]), rollNameRe.FindStringSubmatch(ck.Path[len(rollDir)+1:])
						if mp == nil || mq == nil {
							return false
						}
						tp, _ := time.ParseInLocation("20060102150405", mp[1], c.loc())
						tq, _ := time.ParseInLocation("20060102150405", mq[1], c.loc())
						return tq.Truncate(c.iv()).Sub(tp.Truncate(c.iv())) >= 2*c.iv()
					}
				}
				return false
			}
		}
		return false
	}
	closedUnder := func(w *rollWrite) bool {
		for _, call := range x.FS.Log {
			if call.Op == "write" && strings.Contains(call.Err, "closed") && call.TID == w.tid && call.Step > w.startStep && call.Step <= w.endStep {
				return true
			}
		}
		return false
	}
	// (B) interleaved: two rotations for two different boundaries (file creations inside two different
	// writers' calls, for different file names) overlap.
	type span struct {
		a, b, tid int
		path      string
	}
	var rots []span
	for _, call := range x.FS.Log {
		if call.Op != "open" || call.Err != "" {
			continue
		}
		for _, w := range o.writes {
			if w.tid == call.TID && call.Step > w.startStep && (call.Step <= w.endStep || !w.returned) {
				e := w.endStep
				if !w.returned {
					e = 1 << 30
				}
				rots = append(rots, span{w.startStep, e, w.tid, call.Path})
			}
		}
	}
	interleaved := false
	for i := range rots {
		for j := range rots {
			// two different boundaries: the files created belong to different intervals (two writers racing
			// for the SAME boundary is the ordinary case the CAS is there for, not the known finding)
			if i != j && rots[i].tid != rots[j].tid && rots[i].path != rots[j].path && rots[i].a <= rots[j].a && rots[j].a <= rots[i].b {
				interleaved = true
			}
		}
	}
	for _, w := range o.writes {
		locs := where[w.id]
		k := key
		if closedLate(w) {
			k += "/file-closed-two-intervals-later"
			w.kf = "/file-closed-two-intervals-later"
		} else if interleaved && closedUnder(w) {
			k += "/rotations-interleaved"
			w.kf = "/rotations-interleaved"
		}
		switch {
		case len(locs) == 0:
			if !faulted || c.openOnly {
				add("C13", "write-lost", k, fmt.Sprintf("write %q is in no file (files=%v; failed creations: %v)", w.id, names, faulted))
				if o.stopped {
					add("C05", "not-flushed", k, fmt.Sprintf("write %q was accepted before Stop and is readable from no file after it (files=%v; failed creations: %v)", w.id, names, faulted))
				}
			}
			if !faulted {
				add("C19", "write-lost", k, fmt.Sprintf("write %q is in no file although no I/O fault was injected", w.id))
			}
		case len(locs) > 1:
			add("C13", "write-duplicated", k, fmt.Sprintf("write %q is in %v", w.id, locs))
		default:
			m := rollNameRe.FindStringSubmatch(locs[0])
			ft, _ := time.ParseInLocation("20060102150405", m[1], c.loc())
			if w.endAt.Before(ft) {
				add("C13", "file-from-the-future", k, fmt.Sprintf("write %q completed at %s but is in %s", w.id, w.endAt.Format("150405"), locs[0]))
			}
			// "issued one at a time": no other write call is in progress at any moment of this one (always so for a single
			// writer; with several writers, the calls made while the others are between calls or done)
			alone := aloneOf(o, w)
			if alone && !faulted && ft.Before(w.startAt.Truncate(c.iv()).Truncate(time.Second)) /* names have one-second resolution */ {
				add("C13", "stale-file", k, fmt.Sprintf("write %q was issued at %s with no other write in progress and landed in %s (an earlier interval)", w.id, w.startAt.Format("150405"), locs[0]))
			}
		}
		if !w.returned {
			add("*", "write-did-not-return", k, fmt.Sprintf("write %q did not return", w.id))
		}
	}
	if c.preExist {
		pre := rollDir + "/" + rollName + "." + c.start().Format("20060102150405")
		if n, ok := x.FS.Nodes[pre]; !ok || !strings.HasPrefix(string(n.Data), "old-content\n") {
			add("C13", "pre-existing-replaced", key, "content of the pre-existing file is gone")
		}
	}
	for _, call := range x.FS.Log {
		if call.Op == "open" && strings.HasPrefix(call.Path, rollDir+"/") {
			const osAppend, osTrunc = 0x400, 0x200
			if call.Flag&osTrunc != 0 || call.Flag&osAppend == 0 {
				add("C13", "open-flags", key, fmt.Sprintf("%s opened with flags %#x (truncating or not in append mode)", call.Path, call.Flag))
			}
		}
	}
	// C05: descriptors
	kfd := key
	if interleaved {
		kfd += "/rotations-interleaved"
	}
	if n := x.FS.OpenCount(rollDir); n != 0 && o.stopped {
		add("C05", "fd-after-stop", kfd, fmt.Sprintf("%d descriptor(s) still open under %s after Stop", n, rollDir))
	}
	for _, n := range o.fdsQ {
		if n > 2 {
			add("C05", "fd-accumulate", kfd, fmt.Sprintf("%d descriptors open with no write in progress", n))
		}
	}
	// C19: after a failed creation the appender keeps writing to the file it has, and retries at
	// the next boundary (checked on the call log)
	if faulted {
		v = append(v, c19Check(prop, key, len(c.writers) == 1, c.iv(), o, x, where)...)
	}
	if c.conform {
		if theConformer == nil {
			theConformer = newConformer()
		}
		initial := map[string]string{}
		if c.preExist {
			initial[rollDir+"/"+rollName+"."+c.start().Format("20060102150405")] = "old-content\n"
		}
		conformCount++
		if d := theConformer.replay(x, initial); d != "" {
			add("*", "vfs-model-diverges-from-os", key, d)
		}
	}
	fmt.Fprintf(&sb, "fds=%v", o.fdsQ)
	return sb.String(), v
}

// c19Check: fault-specific clauses.
func c19Check(prop, key string, single bool, ivl time.Duration, o *rollObs, x *zzvrt.Exec, where map[string][]string) []zzvrt.Violation {
	if prop != "C19" {
		return nil
	}
	var v []zzvrt.Violation
	// a write whose own write call was not failed, and that happened while the appender had a file
	// open, must be in some file
	failedWrite := map[int]bool{} // thread ids with a failed write/short write
	for _, call := range x.FS.Log {
		if call.Op == "write" && call.Err != "" {
			failedWrite[call.TID] = true
		}
	}
	onlyOpenFaults := true
	for _, call := range x.FS.Log {
		if strings.Contains(call.Err, "injected") && call.Op != "open" {
			onlyOpenFaults = false
		}
	}
	if onlyOpenFaults {
		// creation failures only: nothing may be lost, every write is in a file
		for _, w := range o.writes {
			if len(where[w.id]) != 1 {
				v = append(v, zzvrt.Violation{Clause: "lost-after-failed-rotation", Key: key + w.kf,
					Detail: fmt.Sprintf("only file creations failed, yet write %q is in %v", w.id, where[w.id])})
			}
		}
		// retry: after a failed creation in interval iv, a write call that starts in a later interval
		// must attempt a creation again (an open between the failure and the end of that call)
		for _, call := range x.FS.Log {
			if call.Op != "open" || !strings.Contains(call.Err, "injected") {
				continue
			}
			iv := call.At.Truncate(ivl)
			for _, w := range o.writes {
				if w.startStep <= call.Step || !w.startAt.Truncate(ivl).After(iv) {
					continue
				}
				if !single && !aloneOf(o, w) {
					// several writers, and another write was in progress during this one: which of them makes the attempt, and
					// whether a rotation may wait for a write in flight to finish, is the implementation's business; the
					// statement is checked on the calls that had the appender to themselves
					continue
				}
				retried := false
				for _, c2 := range x.FS.Log {
					// one writer: the attempt is part of that very call; several writers: another writer may be
					// the one that rotates (its attempt can come later), so any later attempt counts
					if c2.Op == "open" && c2.Step > call.Step && (c2.Step <= w.endStep || !single) {
						retried = true
					}
				}
				if !retried {
					v = append(v, zzvrt.Violation{Clause: "no-retry-at-next-boundary", Key: key,
						Detail: fmt.Sprintf("creation failed in interval %s; write %q started in a later interval (%s) without a new creation attempt", iv.Format("150405"), w.id, w.startAt.Format("150405"))})
				}
			}
		}
	}
	return v
}

func rollScenario(prop string, c rollCfg, b zzvrt.Bounds) *zzvrt.Scenario {
	var o rollObs
	if c.maxAge == 0 {
		c.maxAge = 24
	}
	return &zzvrt.Scenario{
		Before: func() { resetAll(); o = rollObs{} },
		Body:   func() { c.run(&o) },
		Opts:   zzvrt.RunOpts{Bounds: b, Start: c.start(), TickStep: c.iv(), TickLands: c.lands},
		Check:  func(x *zzvrt.Exec) (string, []zzvrt.Violation) { return rollCheck(prop, c, &o, x) },
	}
}

func init() {
	type bb struct{ p, t, f int }
	reg := func(prop string, c rollCfg, tiers string, q, t bb) {
		register(prop, strings.ToLower(prop)+"/roll/"+c.name(), tiers, func(tier string) *zzvrt.Scenario {
			k := q
			if tier == "thorough" {
				k = t
			}
			b := zzvrt.Bounds{Preempt: k.p, Horizon: 5000}
			b.Env[zzvrt.SeamTick] = k.t
			b.Env[zzvrt.SeamFault] = k.f
			return rollScenario(prop, c, b)
		})
	}
	for _, prop := range []string{"C13", "C05"} {
		reg(prop, rollCfg{writers: [][]string{{"a0", "a1", "a2"}}}, "qt", bb{2, 3, 0}, bb{3, 3, 0})
		reg(prop, rollCfg{writers: [][]string{{"a0", "a1"}}, preExist: true}, "qt", bb{2, 2, 0}, bb{3, 2, 0})
		reg(prop, rollCfg{writers: [][]string{{"a0", "a1"}}, restart: true}, "qt", bb{2, 2, 0}, bb{3, 3, 0})
		reg(prop, rollCfg{writers: [][]string{{"a0", "a1"}, {"b0", "b1"}}}, "qt", bb{2, 2, 0}, bb{3, 3, 0})
		reg(prop, rollCfg{writers: [][]string{{"a0"}, {"b0"}, {"c0"}}}, "t", bb{2, 2, 0}, bb{2, 3, 0})
	}
	// one writer in flight across a boundary while the other rotates, then calls one at a time in the new interval
	reg("C13", rollCfg{writers: [][]string{{"a0", "a1"}, {"b0"}}, tail: []string{"z0", "z1"}, variant: "then-one-at-a-time"}, "qt", bb{2, 2, 0}, bb{3, 2, 0})
	// C13 in a process whose local zone is west / east of UTC (file names are local wall-clock time; whoever reads
	// them back has to read them in the same zone) with a maximum age smaller than the zone's offset: the
	// retention cleanup that follows every rotation leaves the live file and everything just written alone
	for _, z := range []struct {
		name string
		off  int
		age  int32
	}{{"UTC-8", -8 * 3600, 6}, {"UTC-11", -11 * 3600, 5}, {"UTC+5:30", 5*3600 + 1800, 6}} { // (max ages above the 3 hours a scenario spans: nothing expires legitimately)
		zn := time.FixedZone(z.name, z.off)
		reg("C13", rollCfg{writers: [][]string{{"a0", "a1", "a2"}}, zone: zn, maxAge: z.age}, "qt", bb{1, 3, 0}, bb{2, 3, 0})
		reg("C14", rollCfg{writers: [][]string{{"a0", "a1", "a2"}}, zone: zn, maxAge: z.age}, "qt", bb{1, 3, 0}, bb{2, 3, 0})
	}
	// C13 on rotation intervals that are not whole seconds / minutes (1.5 s, 90 s, 2.5 h): the interval grid is
	// the one Truncate(interval) defines, a write just after a boundary of THAT grid goes to a new file
	for _, ivl := range []time.Duration{1500 * time.Millisecond, 2500 * time.Millisecond, 90 * time.Second, 150 * time.Minute} {
		reg("C13", rollCfg{writers: [][]string{{"a0", "a1", "a2", "a3"}}, interval: ivl, lands: []time.Duration{0, time.Millisecond}}, "qt", bb{0, 3, 0}, bb{1, 3, 0})
	}
	// C05 when file creations fail at up to two (thorough three) boundaries in a row: what was accepted is readable after Stop, no descriptor is left
	reg("C05", rollCfg{writers: [][]string{{"a0", "a1", "a2", "a3"}}, openOnly: true, variant: "failed-creations"}, "qt", bb{1, 3, 2}, bb{2, 3, 3})
	// C05 when fsync fails (at a rotation or at Stop): the descriptor is closed all the same
	reg("C05", rollCfg{writers: [][]string{{"a0", "a1", "a2"}}, syncOnly: true}, "qt", bb{1, 2, 2}, bb{2, 3, 2})
	reg("C05", rollCfg{writers: [][]string{{"a0", "a1"}}, restart: true, syncOnly: true}, "qt", bb{1, 2, 2}, bb{2, 2, 2})
	// C13 with the clock landing anywhere in an interval: exactly on the boundary, just after it, in its second half
	positions := []time.Duration{0, time.Millisecond, 45 * time.Minute}
	reg("C13", rollCfg{writers: [][]string{{"a0", "a1", "a2"}}, lands: positions, variant: "tick-positions"}, "qt", bb{1, 3, 0}, bb{2, 3, 0})
	reg("C13", rollCfg{writers: [][]string{{"a0", "a1"}, {"b0", "b1"}}, lands: positions, variant: "tick-positions"}, "qt", bb{1, 2, 0}, bb{2, 3, 0})
	reg("C13", rollCfg{writers: [][]string{{"a0", "a1"}}, restart: true, lands: positions, variant: "tick-positions"}, "qt", bb{1, 2, 0}, bb{2, 3, 0})
	// C13 through Append with events stamped by another clock (frozen 2 h behind, 90 min ahead): placement and
	// names follow the clock that stamps the files
	for _, sk := range []time.Duration{-2 * time.Hour, 90 * time.Minute} {
		reg("C13", rollCfg{writers: [][]string{{"a0", "a1", "a2"}}, skew: sk}, "qt", bb{1, 3, 0}, bb{2, 3, 0})
		reg("C13", rollCfg{writers: [][]string{{"a0", "a1"}, {"b0", "b1"}}, skew: sk}, "qt", bb{1, 2, 0}, bb{2, 2, 0})
	}
	// C13 with failing file creations (and nothing else failing): every write still lands exactly once
	reg("C13", rollCfg{writers: [][]string{{"a0", "a1", "a2", "a3"}}, openOnly: true, variant: "failed-creations"}, "qt", bb{1, 3, 2}, bb{2, 3, 3})
	reg("C13", rollCfg{writers: [][]string{{"a0", "a1"}, {"b0", "b1"}}, openOnly: true, variant: "failed-creations"}, "qt", bb{1, 2, 2}, bb{2, 3, 2})
	// model <-> OS: every execution of these scenarios is replayed on the real filesystem
	for _, prop := range []string{"C13", "C19", "C20"} {
		f := 0
		if prop == "C19" {
			f = 1
		}
		reg(prop, rollCfg{writers: [][]string{{"a0", "a1", "a2"}}, conform: true}, "qt", bb{1, 2, f}, bb{2, 3, f})
		reg(prop, rollCfg{writers: [][]string{{"a0", "a1"}}, preExist: true, restart: true, conform: true}, "qt", bb{1, 2, f}, bb{2, 2, f})
		reg(prop, rollCfg{writers: [][]string{{"a0"}, {"b0", "b1"}}, conform: true}, "qt", bb{1, 2, 0}, bb{2, 2, 0})
	}
	// C19: the same harness with I/O faults as deviations
	reg("C19", rollCfg{writers: [][]string{{"a0", "a1", "a2"}}}, "qt", bb{1, 3, 2}, bb{2, 3, 2})
	reg("C19", rollCfg{writers: [][]string{{"a0", "a1", "a2"}}, variant: "3-faults"}, "t", bb{1, 2, 3}, bb{1, 2, 3})
	reg("C19", rollCfg{writers: [][]string{{"a0", "a1"}, {"b0", "b1"}}}, "qt", bb{1, 2, 2}, bb{2, 2, 2})
	// C19: a long outage - up to 4 (thorough 5) consecutive boundaries at which the creation fails, one writer,
	// short and long intervals, the clock landing exactly on / just after a boundary or in mid-interval: a new
	// creation is attempted at EVERY later boundary, however many attempts have failed before (a back-off that
	// outgrows the interval skips one)
	for _, ivl := range []time.Duration{time.Second, time.Minute, time.Hour} {
		reg("C19", rollCfg{writers: [][]string{{"a0", "a1", "a2", "a3", "a4"}}, openOnly: true, interval: ivl,
			lands: []time.Duration{0, time.Millisecond}, variant: "long-outage"}, "qt", bb{0, 5, 4}, bb{0, 5, 5})
		reg("C19", rollCfg{writers: [][]string{{"a0", "a1", "a2", "a3", "a4", "a5", "a6"}}, openOnly: true, interval: ivl,
			lands: []time.Duration{0, time.Millisecond, ivl / 2}, variant: "long-outage"}, "t", bb{0, 6, 5}, bb{0, 6, 5})
	}
}

var _ = sort.Strings

// ---------------------------------------------------------------------------------------------
// C13 with large payloads (64 KiB + a few bytes, 1 byte, a multi-line block): two writers, an interval
// boundary at any clock read, P <= 1. Every payload is in exactly one file, whole and once, and has been
// handed to the file in ONE write call (a payload split over several calls can be torn by a concurrent
// writer or a crash).
// ---------------------------------------------------------------------------------------------

func init() {
	payload := func(tag string, n int) string {
		return tag + ":" + strings.Repeat(tag[:1], n) + ":" + tag + "\n"
	}
	pl := [][]string{
		{payload("A0", 65536), payload("A1", 0), "A2:line1\nA2:line2\nA2:end\n"},
		{payload("B0", 1), payload("B1", 70000)},
	}
	register("C13", "c13/roll/large-payloads", "qt", func(tier string) *zzvrt.Scenario {
		b := zzvrt.Bounds{Preempt: 1, Horizon: 5000}
		b.Env[zzvrt.SeamTick] = 1
		if tier == "thorough" {
			b.Preempt = 2
			b.Env[zzvrt.SeamTick] = 2
		}
		var errS string
		return &zzvrt.Scenario{
			Before: func() { resetAll(); errS = "" },
			Opts:   zzvrt.RunOpts{Bounds: b, Start: rollStart, TickStep: time.Hour},
			Body: func() {
				x := zzvrt.Cur()
				a := &log.RollingFileAppender{FileDir: rollDir, FileName: rollName, Rotation: log.TimeRotation{Interval: time.Hour}, MaxAge: 24}
				zzvrt.Atomic(func() {
					x.FS.MkdirAll(rollDir)
					if err := a.Start(); err != nil {
						errS = err.Error()
					}
				})
				if errS != "" {
					return
				}
				done := 0
				for wi, ps := range pl {
					ps := ps
					zzvrt.GoNamed(fmt.Sprintf("writer-%d", wi), func() {
						for _, p := range ps {
							a.Write([]byte(p))
						}
						done++
					})
				}
				zzvrt.WaitUntil(func() bool { return done == len(pl) })
				a.Stop()
			},
			Check: func(x *zzvrt.Exec) (string, []zzvrt.Violation) {
				key := "large payloads"
				if x.Outcome != "" {
					return x.Outcome, []zzvrt.Violation{{Clause: "no-" + strings.SplitN(x.Outcome, ":", 2)[0], Key: key, Detail: x.Outcome}}
				}
				if errS != "" {
					return errS, []zzvrt.Violation{{Clause: "setup", Key: key, Detail: errS}}
				}
				var v []zzvrt.Violation
				var files []string
				total := 0
				for _, name := range x.FS.List(rollDir) {
					files = append(files, string(x.FS.Nodes[rollDir+"/"+name].Data))
					total += len(files[len(files)-1])
				}
				want := 0
				for _, ps := range pl {
					for _, p := range ps {
						want += len(p)
						n := 0
						for _, f := range files {
							n += strings.Count(f, p)
						}
						if n != 1 {
							v = append(v, zzvrt.Violation{Clause: "write-lost", Key: key, Detail: fmt.Sprintf("payload %q... (%d bytes) is %d times whole in the files", p[:6], len(p), n)})
						}
						calls := 0
						for _, c := range x.FS.Log {
							if c.Op == "write" && c.Data == p {
								calls++
							}
						}
						if calls != 1 {
							v = append(v, zzvrt.Violation{Clause: "write-split", Key: key, Detail: fmt.Sprintf("payload %q... (%d bytes) was handed to the file in %d whole write calls (want exactly one)", p[:6], len(p), calls)})
						}
					}
				}
				if total != want {
					v = append(v, zzvrt.Violation{Clause: "torn-line", Key: key, Detail: fmt.Sprintf("the files hold %d bytes, the payloads are %d bytes", total, want)})
				}
				return fmt.Sprintf("%d files %d bytes", len(files), total), v
			},
		}
	})
}
