package main

import (
	"context"
	"errors"
	"fmt"
	"strings"
	"time"

	log "github.com/go-spring/log"
	zzvrt "github.com/go-spring/log/zzvrt"
)

// ---------------------------------------------------------------------------------------------
// C19 (second clause) - I/O failures of ANY appender never surface as a panic or a blocked call.
//
// A family over appender kind x life-cycle state of its target x operation, each explored with
// clock boundaries (T <= 2) and failing file creations (F <= 2) where a filesystem is involved:
//   File / RollingFile: never started | Start failed (directory missing) | stopped | stopped twice |
//                       directory removed after Start
//   Console: stream that errors | writes short | panics never (a writer that returns n < len)
// operations: Append (through the layout) and raw Write, three of each, then Stop (twice).
// Oracle: no panic, no deadlock/livelock (= every call returns), and for the states that still have a
// working file nothing written is lost.
// ---------------------------------------------------------------------------------------------

type badWriter struct{ mode string }

func (w badWriter) Write(b []byte) (int, error) {
	switch w.mode {
	case "error":
		return 0, errors.New("stream closed")
	case "short":
		return len(b) / 2, errors.New("short write")
	}
	return len(b), nil
}

type deadCase struct {
	kind  string // File | RollingFile | Console
	state string
}

func deadCases() []deadCase {
	var out []deadCase
	for _, k := range []string{"File", "RollingFile"} {
		for _, s := range []string{"never-started", "start-failed", "stopped", "stopped-twice", "dir-removed", "healthy", "disk-full"} {
			out = append(out, deadCase{k, s})
		}
	}
	for _, s := range []string{"error", "short", "healthy"} {
		out = append(out, deadCase{"Console", s})
	}
	return out
}

func deadScenario(c deadCase, b zzvrt.Bounds) *zzvrt.Scenario {
	desc := c.kind + "/" + c.state
	var startErr error
	return &zzvrt.Scenario{
		Desc:   desc,
		Before: func() { resetAll(); startErr = nil },
		Opts:   zzvrt.RunOpts{Bounds: b, Start: rollStart, TickStep: time.Hour},
		Body: func() {
			x := zzvrt.Cur()
			x.FS.FaultOps = map[string]bool{"open": true}
			layout := &log.TextLayout{BaseLayout: log.BaseLayout{FileLineLength: 48}}
			var a log.Appender
			dir := rollDir
			if c.state == "start-failed" {
				dir = "/missing"
			}
			switch c.kind {
			case "File":
				a = &log.FileAppender{Layout: layout, FileDir: dir, FileName: "dead.log"}
			case "RollingFile":
				a = &log.RollingFileAppender{Layout: layout, FileDir: dir, FileName: "dead.log", Rotation: log.TimeRotation{Interval: time.Hour}, MaxAge: 24}
			case "Console":
				a = &log.ConsoleAppender{Layout: layout}
				log.Stdout = badWriter{c.state}
			}
			zzvrt.Atomic(func() { x.FS.MkdirAll(rollDir) })
			if c.state == "disk-full" {
				x.FS.Unwritable = func(string) bool { return true } // files can be created, nothing can be written
			}
			switch c.state {
			case "never-started":
			case "stopped":
				startErr = a.Start()
				a.Stop()
			case "stopped-twice":
				startErr = a.Start()
				a.Stop()
				a.Stop()
			case "dir-removed":
				startErr = a.Start()
				x.FS.RemoveAll(rollDir)
			default:
				startErr = a.Start()
			}
			for i := 0; i < 3; i++ {
				e := log.GetEvent()
				e.Level, e.Time, e.Tag = log.InfoLevel, fixedT, "_dead"
				e.Fields = []log.Field{log.Int("i", i)}
				a.Append(e)
				a.Write([]byte(fmt.Sprintf("raw-%d\n", i)))
			}
			a.Stop()
			a.Stop()
		},
		Check: func(x *zzvrt.Exec) (string, []zzvrt.Violation) {
			key := desc
			if x.Outcome != "" {
				return x.Outcome, []zzvrt.Violation{{Clause: "io-failure-surfaced-as-" + strings.SplitN(x.Outcome, ":", 2)[0], Key: key,
					Detail: x.Outcome + " " + firstLines(x.Stack, 14)}}
			}
			var v []zzvrt.Violation
			if c.state == "start-failed" && startErr == nil {
				v = append(v, zzvrt.Violation{Clause: "start-on-missing-directory-succeeded", Key: key, Detail: "Start returned nil although the directory does not exist"})
			}
			_, env := x.Used()
			if c.state == "healthy" && c.kind != "Console" && env[zzvrt.SeamFault] == 0 {
				var all strings.Builder
				for _, n := range x.FS.List(rollDir) {
					all.Write(x.FS.Nodes[rollDir+"/"+n].Data)
				}
				for i := 0; i < 3; i++ {
					if !strings.Contains(all.String(), fmt.Sprintf("raw-%d\n", i)) || !strings.Contains(all.String(), fmt.Sprintf("i=%d\n", i)) {
						v = append(v, zzvrt.Violation{Clause: "healthy-appender-lost-data", Key: key, Detail: fmt.Sprintf("item %d missing from %q", i, all.String())})
					}
				}
			}
			return fmt.Sprint(x.FS.List(rollDir), startErr != nil), v
		},
	}
}

func init() {
	registerFamily(Fam{Prop: "C19", Name: "c19/dead-target-appenders", Tiers: "qt",
		Count: func(string) int { return len(deadCases()) },
		Make: func(tier string, i int) *zzvrt.Scenario {
			b := zzvrt.Bounds{Preempt: 1, Horizon: 5000}
			b.Env[zzvrt.SeamTick] = 2
			b.Env[zzvrt.SeamFault] = 2
			if tier == "thorough" {
				b.Env[zzvrt.SeamTick] = 3
				b.Env[zzvrt.SeamFault] = 3
			}
			return deadScenario(deadCases()[i], b)
		}})
}

var _ = context.Background
