package main

import (
	"context"
	"fmt"
	"runtime"
	"strings"

	log "github.com/go-spring/log"
	zzvrt "github.com/go-spring/log/zzvrt"
)

// ---------------------------------------------------------------------------------------------
// C11 (schedules) - the caller lookup under concurrency: two goroutines log from two different
// statements at the same time, in default and in fast mode (whose frame cache is shared state), cold
// and warm cache; every record must carry the location of ITS statement. All interleavings, P <= 2.
// ---------------------------------------------------------------------------------------------

// LRec records id and location of every event (registered as an appender plugin).
type LRec struct {
	log.AppenderBase
}

var lrecStore []string

func (a *LRec) Start() error { return nil }
func (a *LRec) Stop()        {}
func (a *LRec) Append(e *log.Event) {
	lrecStore = append(lrecStore, fmt.Sprintf("%d@%s:%d", e.Fields[0].Num, e.File, e.Line))
}
func (a *LRec) Write(b []byte) {}

func init() { log.RegisterPlugin[LRec]("LRec", log.PluginTypeAppender) }

//go:noinline
func callerHere() (string, int) {
	_, f, l, _ := runtime.Caller(1)
	return f, l
}

func callerSiteA(id int) string {
	f, l := callerHere()
	log.Info(context.Background(), c03Tags[0], log.Int("id", id))
	return fmt.Sprintf("%d@%s:%d", id, f, l+1)
}

func callerSiteB(id int) string {
	f, l := callerHere()
	log.Error(context.Background(), c03Tags[1], log.Int("id", id))
	return fmt.Sprintf("%d@%s:%d", id, f, l+1)
}

func init() {
	for _, fast := range []bool{false, true} {
		for _, warm := range []bool{false, true} {
			fast, warm := fast, warm
			register("C11", fmt.Sprintf("c11/concurrent-sites/fast=%v/warm-cache=%v", fast, warm), "qt", func(tier string) *zzvrt.Scenario {
				b := zzvrt.Bounds{Preempt: 2, Horizon: 5000}
				if tier == "thorough" {
					b.Preempt = 3
				}
				var want []string
				var rerr error
				return &zzvrt.Scenario{
					Before: func() { resetAll(); lrecStore = nil; want = nil; rerr = nil },
					Opts:   zzvrt.RunOpts{Bounds: b},
					Body: func() {
						zzvrt.Atomic(func() {
							rerr = log.Refresh(map[string]string{"appender.l.type": "LRec", "logger.root.type": "Logger", "logger.root.appenderRef.ref": "l",
								"enableCaller": "true", "fastCaller": fmt.Sprint(fast)})
							if rerr == nil && warm {
								want = append(want, callerSiteA(90), callerSiteB(91))
							}
						})
						if rerr != nil {
							return
						}
						done := 0
						zzvrt.GoNamed("site-a", func() {
							want = append(want, callerSiteA(1))
							want = append(want, callerSiteA(2))
							done++
						})
						zzvrt.GoNamed("site-b", func() {
							want = append(want, callerSiteB(11))
							want = append(want, callerSiteB(12))
							done++
						})
						zzvrt.WaitUntil(func() bool { return done == 2 })
						zzvrt.Atomic(log.Destroy)
					},
					Check: func(x *zzvrt.Exec) (string, []zzvrt.Violation) {
						key := fmt.Sprintf("fast=%v warm=%v", fast, warm)
						if x.Outcome != "" {
							return x.Outcome, []zzvrt.Violation{{Clause: "no-" + strings.SplitN(x.Outcome, ":", 2)[0], Key: key, Detail: x.Outcome}}
						}
						if rerr != nil {
							return "err", []zzvrt.Violation{{Clause: "setup", Key: key, Detail: rerr.Error()}}
						}
						var v []zzvrt.Violation
						got := sortedCopy(lrecStore)
						exp := sortedCopy(want)
						if strings.Join(got, "\n") != strings.Join(exp, "\n") {
							v = append(v, zzvrt.Violation{Clause: "wrong-location-under-concurrency", Key: key,
								Detail: fmt.Sprintf("records %v, the calling statements are %v", got, exp)})
						}
						return strings.Join(lrecStore, ","), v
					},
				}
			})
		}
	}
	// two goroutines reaching the SAME call site together (cold and warm cache), with a scheduling point
	// after every publishing atomic / sync.Map operation: a lookup that publishes a cache entry before it
	// has filled it in shows up as an empty or foreign location
	for _, fast := range []bool{false, true} {
		for _, warm := range []bool{false, true} {
			fast, warm := fast, warm
			register("C11", fmt.Sprintf("c11/same-site-together/fast=%v/warm-cache=%v", fast, warm), "qt", func(tier string) *zzvrt.Scenario {
				b := zzvrt.Bounds{Preempt: 2, Horizon: 5000}
				if tier == "thorough" {
					b.Preempt = 3
				}
				var want []string
				var rerr error
				return &zzvrt.Scenario{
					Before: func() { resetAll(); lrecStore = nil; want = nil; rerr = nil },
					Opts:   zzvrt.RunOpts{Bounds: b, PostPublish: true},
					Body: func() {
						zzvrt.Atomic(func() {
							rerr = log.Refresh(map[string]string{"appender.l.type": "LRec", "logger.root.type": "Logger", "logger.root.appenderRef.ref": "l",
								"enableCaller": "true", "fastCaller": fmt.Sprint(fast)})
							if rerr == nil && warm {
								want = append(want, callerSiteA(90))
							}
						})
						if rerr != nil {
							return
						}
						done := 0
						for g := 0; g < 2; g++ {
							g := g
							zzvrt.GoNamed(fmt.Sprintf("g%d", g), func() {
								want = append(want, callerSiteA(10*g+1))
								want = append(want, callerSiteB(10*g+2))
								done++
							})
						}
						zzvrt.WaitUntil(func() bool { return done == 2 })
						zzvrt.Atomic(log.Destroy)
					},
					Check: func(x *zzvrt.Exec) (string, []zzvrt.Violation) {
						key := fmt.Sprintf("same site, fast=%v warm=%v", fast, warm)
						if x.Outcome != "" {
							return x.Outcome, []zzvrt.Violation{{Clause: "no-" + strings.SplitN(x.Outcome, ":", 2)[0], Key: key, Detail: x.Outcome}}
						}
						if rerr != nil {
							return "err", []zzvrt.Violation{{Clause: "setup", Key: key, Detail: rerr.Error()}}
						}
						var v []zzvrt.Violation
						got := sortedCopy(lrecStore)
						exp := sortedCopy(want)
						if strings.Join(got, "\n") != strings.Join(exp, "\n") {
							v = append(v, zzvrt.Violation{Clause: "wrong-location-under-concurrency", Key: key,
								Detail: fmt.Sprintf("records %v, the calling statements are %v", got, exp)})
						}
						return strings.Join(lrecStore, ","), v
					},
				}
			})
		}
	}
}

// ---------------------------------------------------------------------------------------------
// C11 - every PAIR of call sites, cold cache, fast mode: two goroutines make their first call from two
// different statements at the same time (P <= 2, with post-publication points). Whatever the lookup
// caches and however it finds a cached entry (a table indexed by a hash of the program counter, a
// probe sequence), a record carries the location of ITS statement - also for the pairs whose entries
// happen to collide. 64 sites = 2016 pairs (thorough: 192 sites = 18336 pairs); which pairs collide
// depends on the implementation and the build, so this family covers "every pair of THESE sites" and
// nothing more: a cache whose hash spreads regularly spaced program counters well (seeded change C11-12,
// Fibonacci hashing into 4096 slots) has no colliding pair among them - see c11/fast-lookup-cold-pairs below.
// ---------------------------------------------------------------------------------------------

func pairOf(k, n int) (int, int) {
	for i := 0; i < n; i++ {
		if k < n-1-i {
			return i, i + 1 + k
		}
		k -= n - 1 - i
	}
	return 0, 1
}

func init() {
	nSites := func(tier string) int {
		if tier == "thorough" {
			return len(pairSites)
		}
		return 64
	}
	registerFamily(Fam{Prop: "C11", Name: "c11/cold-pairs", Tiers: "qt",
		Count: func(tier string) int { n := nSites(tier); return n * (n - 1) / 2 },
		Make: func(tier string, k int) *zzvrt.Scenario {
			i, j := pairOf(k, nSites(tier))
			b := zzvrt.Bounds{Preempt: 2, Horizon: 5000}
			var want []string
			var rerr error
			return &zzvrt.Scenario{
				Desc:   fmt.Sprintf("sites %d and %d", i, j),
				Before: func() { resetAll(); lrecStore = nil; want = nil; rerr = nil },
				Opts:   zzvrt.RunOpts{Bounds: b},
				Body: func() {
					zzvrt.Atomic(func() {
						rerr = log.Refresh(map[string]string{"appender.l.type": "LRec", "logger.root.type": "Logger", "logger.root.appenderRef.ref": "l",
							"enableCaller": "true", "fastCaller": "true"})
					})
					if rerr != nil {
						return
					}
					done := 0
					zzvrt.GoNamed("site-i", func() { want = append(want, pairSites[i](1)); done++ })
					zzvrt.GoNamed("site-j", func() { want = append(want, pairSites[j](2)); done++ })
					zzvrt.WaitUntil(func() bool { return done == 2 })
					zzvrt.Atomic(log.Destroy)
				},
				Check: func(x *zzvrt.Exec) (string, []zzvrt.Violation) {
					key := fmt.Sprintf("sites %d and %d", i, j)
					if x.Outcome != "" {
						return x.Outcome, []zzvrt.Violation{{Clause: "no-" + strings.SplitN(x.Outcome, ":", 2)[0], Key: key, Detail: x.Outcome}}
					}
					if rerr != nil {
						return "err", []zzvrt.Violation{{Clause: "setup", Key: key, Detail: rerr.Error()}}
					}
					got, exp := sortedCopy(lrecStore), sortedCopy(want)
					if strings.Join(got, "\n") != strings.Join(exp, "\n") {
						return "wrong", []zzvrt.Violation{{Clause: "wrong-location-under-concurrency", Key: key, Detail: fmt.Sprintf("records %v, the calling statements are %v", got, exp)}}
					}
					return "ok", nil
				},
			}
		}})
}

// ---------------------------------------------------------------------------------------------
// C11 - every pair of 384 (thorough 768) call sites of the exported fast lookup itself, cold cache, two
// goroutines, P <= 2 with post-publication points. The sites have irregular code sizes in front of the
// call (scripts/gen_fc_sites.py), so their return addresses are scattered: whatever table a lookup keeps and
// however it hashes into it, some of these 73 536 (294 528) pairs share a slot. Each lookup must report ITS
// statement (checked against runtime.Caller on the next line).
// ---------------------------------------------------------------------------------------------

func init() {
	nSites := func(tier string) int {
		if tier == "thorough" {
			return len(fcSites)
		}
		return 384
	}
	registerFamily(Fam{Prop: "C11", Name: "c11/fast-lookup-cold-pairs", Tiers: "qt",
		Count: func(tier string) int { n := nSites(tier); return n * (n - 1) / 2 },
		Make: func(tier string, k int) *zzvrt.Scenario {
			i, j := pairOf(k, nSites(tier))
			var got [2][4]any
			return &zzvrt.Scenario{
				Desc:   fmt.Sprintf("sites %d and %d", i, j),
				Before: func() { resetAll(); got = [2][4]any{} },
				Opts:   zzvrt.RunOpts{Bounds: zzvrt.Bounds{Preempt: 2, Horizon: 2000}},
				Body: func() {
					done := 0
					for t, s := range []int{i, j} {
						t, s := t, s
						zzvrt.GoNamed("lookup", func() {
							f, l, wf, wl := fcSites[s]()
							got[t] = [4]any{f, l, wf, wl}
							done++
						})
					}
					zzvrt.WaitUntil(func() bool { return done == 2 })
				},
				Check: func(x *zzvrt.Exec) (string, []zzvrt.Violation) {
					key := fmt.Sprintf("sites %d and %d", i, j)
					if x.Outcome != "" {
						return x.Outcome, []zzvrt.Violation{{Clause: "no-" + strings.SplitN(x.Outcome, ":", 2)[0], Key: key, Detail: x.Outcome}}
					}
					for t := range got {
						if got[t][0] != got[t][2] || got[t][1] != got[t][3] {
							return "wrong", []zzvrt.Violation{{Clause: "wrong-location-under-concurrency", Key: key,
								Detail: fmt.Sprintf("FastCaller reported %v:%v, the calling statement is %v:%v (two first lookups from different statements at the same time)", got[t][0], got[t][1], got[t][2], got[t][3])}}
						}
					}
					return "ok", nil
				},
			}
		}})
}
