package main

import (
	"fmt"
	"strings"

	log "github.com/go-spring/log"
	zzvrt "github.com/go-spring/log/zzvrt"
)

// ---------------------------------------------------------------------------------------------
// C06 - explicit enumeration of operation sequences against a reference queue model.
//
// Operations: E (append an event), W (raw write), T (let the appender take exactly one item).
// All sequences up to depth 6 (thorough 7) from initial occupancies 100, 99, 98, 1, 0 for each
// policy. The worker is single-stepped through a token-gated appender; after every operation the
// harness waits for quiescence and checks the discard counter, "did the submitting call return" and
// the number of items in the system against what the policy allows; at the end everything is drained:
// order, duplicates, conservation and the victim of every overflow. The verdict does not depend on how
// many items the worker holds between receiving and delivering (a one-item-worker model is also run;
// whether the implementation matches it step by step is recorded as an observation only).
// ---------------------------------------------------------------------------------------------

type qModel struct {
	cap       int
	policy    log.BufferFullPolicy
	buf       []string
	hold      string // item the worker has received but not yet delivered ("" = none)
	pending   []string
	delivered []string
	discarded int
	returned  map[string]bool
}

func (m *qModel) auto() {
	for {
		if m.hold == "" && len(m.buf) > 0 {
			m.hold = m.buf[0]
			m.buf = m.buf[1:]
		}
		if len(m.pending) > 0 && len(m.buf) < m.cap {
			m.buf = append(m.buf, m.pending[0])
			m.returned[m.pending[0]] = true
			m.pending = m.pending[1:]
			continue
		}
		return
	}
}

func (m *qModel) submit(x string) {
	switch {
	case len(m.buf) < m.cap:
		m.buf = append(m.buf, x)
		m.returned[x] = true
	case m.policy == log.BufferFullPolicyDiscard:
		m.discarded++
		m.returned[x] = true
	case m.policy == log.BufferFullPolicyDiscardOldest:
		m.buf = append(m.buf[1:], x)
		m.discarded++
		m.returned[x] = true
	default:
		m.pending = append(m.pending, x)
	}
	m.auto()
}

func (m *qModel) take() {
	if m.hold != "" {
		m.delivered = append(m.delivered, m.hold)
		m.hold = ""
	}
	m.auto()
}

func (m *qModel) drain() {
	for m.hold != "" || len(m.buf) > 0 || len(m.pending) > 0 {
		m.auto()
		m.take()
	}
}

type dirMember struct {
	policy log.BufferFullPolicy
	k      int
	ops    string // 'E' INFO event, 'F' event of level hi, 'W' raw write, 'T' the appender takes one item
	hi     log.Level
	pre    int // items that have passed through the logger (submitted AND delivered) before the scenario proper starts: whatever position a ring / free list / counter is in by then
}

var dirMembers = map[string][]dirMember{}

func dirList(tier string) []dirMember {
	if l, ok := dirMembers[tier]; ok {
		return l
	}
	depth := 6
	if tier == "thorough" {
		depth = 7
	}
	var seqs []string
	var rec func(s string)
	rec = func(s string) {
		if len(s) > 0 {
			seqs = append(seqs, s)
		}
		if len(s) == depth {
			return
		}
		for _, c := range "EWT" {
			rec(s + string(c))
		}
	}
	rec("")
	// the same with events of other levels (the queue treats every level alike): sequences one shorter
	// that contain at least one 'F', for the lowest and the three highest built-in levels
	var fseqs []string
	var recF func(s string)
	recF = func(s string) {
		if strings.Contains(s, "F") {
			fseqs = append(fseqs, s)
		}
		if len(s) == depth-1 {
			return
		}
		for _, c := range "EFWT" {
			recF(s + string(c))
		}
	}
	recF("")
	var out []dirMember
	for _, pol := range []log.BufferFullPolicy{log.BufferFullPolicyBlock, log.BufferFullPolicyDiscard, log.BufferFullPolicyDiscardOldest} {
		for _, k := range []int{100, 99, 98, 1, 0} {
			for _, s := range seqs {
				out = append(out, dirMember{policy: pol, k: k, ops: s, hi: log.InfoLevel})
			}
			for _, hi := range []log.Level{log.TraceLevel, log.ErrorLevel, log.PanicLevel, log.FatalLevel} {
				for _, s := range fseqs {
					out = append(out, dirMember{policy: pol, k: k, ops: s, hi: hi})
				}
			}
		}
	}
	// a logger with a PAST: 97..100 / 197 / 198 items have gone through before the buffer is filled (a ring whose head
	// sits just before, at, or after the end of its array), every sequence of up to 3 (thorough 4) operations on a full buffer
	for _, pol := range []log.BufferFullPolicy{log.BufferFullPolicyBlock, log.BufferFullPolicyDiscard, log.BufferFullPolicyDiscardOldest} {
		for _, pre := range []int{97, 98, 99, 100, 101, 197, 198} {
			for _, s := range seqs {
				if len(s) <= depth-3 {
					out = append(out, dirMember{policy: pol, k: 100, ops: s, hi: log.InfoLevel, pre: pre})
				}
			}
		}
	}
	dirMembers[tier] = out
	return out
}

func dirScenario(d dirMember) *zzvrt.Scenario {
	// model run; sequences that submit while a Block sender is pending are skipped (two blocked
	// senders are different goroutines, their relative order is not constrained by the property)
	m := &qModel{cap: 100, policy: d.policy, returned: map[string]bool{}}
	for i := 0; i < d.k; i++ {
		m.buf = append(m.buf, fmt.Sprintf("W:p%d", i))
	}
	m.auto()
	type snap struct {
		delivered []string
		discarded int
		returned  map[string]bool
	}
	var snaps []snap
	mk := func() snap {
		r := map[string]bool{}
		for k, v := range m.returned {
			r[k] = v
		}
		return snap{append([]string(nil), m.delivered...), m.discarded, r}
	}
	ids := make([]string, len(d.ops))
	for i, op := range d.ops {
		switch op {
		case 'E', 'F', 'W':
			if len(m.pending) > 0 {
				return nil
			}
			kind := op
			if kind == 'F' {
				kind = 'E'
			}
			ids[i] = fmt.Sprintf("%c:%s", kind, idName(idCode(0, i)))
			m.submit(ids[i])
		case 'T':
			m.take()
		}
		snaps = append(snaps, mk())
	}
	m.drain()
	final := mk()

	var (
		rec      *recAppender
		obsSnaps []snap
		obsFinal snap
		errS     string
	)
	desc := fmt.Sprintf("%s k=%d ops=%s", policyName(d.policy), d.k, d.ops)
	if d.pre > 0 {
		desc += fmt.Sprintf(" after %d delivered items", d.pre)
	}
	if strings.Contains(d.ops, "F") {
		desc += " F=" + d.hi.Name()
	}
	return &zzvrt.Scenario{
		Desc:   desc,
		Before: func() { resetAll(); obsSnaps, obsFinal, errS = nil, snap{}, "" },
		Opts:   zzvrt.RunOpts{Bounds: zzvrt.Bounds{Preempt: 0, Horizon: 20000}},
		Body: func() {
			rec = &recAppender{name: "rec", tokens: 0}
			l := &log.AsyncLogger{
				LoggerBase:       log.LoggerBase{Name: "async", Level: fullRange},
				AppenderRefs:     log.AppenderRefs{AppenderRefs: []*log.AppenderRef{{Appender: rec, Level: fullRange}}},
				BufferSize:       100,
				BufferFullPolicy: d.policy,
			}
			zzvrt.Atomic(func() {
				if err := l.Start(); err != nil {
					errS = err.Error()
				}
			})
			if errS != "" {
				return
			}
			if d.pre > 0 {
				// a past: d.pre items go through while the appender takes everything, 40 at a time
				rec.tokens = -1
				for i := 0; i < d.pre; i++ {
					l.Write([]byte(fmt.Sprintf("q%d", i)))
					if i%40 == 39 {
						zzvrt.WaitQuiescent()
					}
				}
				zzvrt.WaitQuiescent()
				if len(rec.items) != d.pre || l.GetDiscardCounter() != 0 {
					errS = fmt.Sprintf("warm-up: %d of %d items delivered, %d discarded", len(rec.items), d.pre, l.GetDiscardCounter())
					return
				}
				rec.items, rec.tokens = nil, 0
			}
			zzvrt.Atomic(func() {
				for i := 0; i < d.k; i++ {
					l.Write([]byte(fmt.Sprintf("p%d", i)))
				}
			})
			returned := map[string]bool{}
			observe := func() snap {
				r := map[string]bool{}
				for k, v := range returned {
					r[k] = v
				}
				var del []string
				for _, it := range rec.items {
					if i := strings.IndexByte(it, '@'); i >= 0 {
						it = it[:i]
					}
					del = append(del, it)
				}
				return snap{del, int(l.GetDiscardCounter()), r}
			}
			zzvrt.WaitQuiescent()
			for i, op := range d.ops {
				id := ids[i]
				switch op {
				case 'E', 'F':
					lv := log.InfoLevel
					if op == 'F' {
						lv = d.hi
					}
					zzvrt.GoNamed("submit", func() {
						e := log.GetEvent()
						e.Level = lv
						e.Fields = []log.Field{log.Int("id", idCode(0, i))}
						l.Append(e)
						returned[id] = true
					})
				case 'W':
					zzvrt.GoNamed("submit", func() {
						l.Write([]byte(idName(idCode(0, i))))
						returned[id] = true
					})
				case 'T':
					rec.tokens++
				}
				zzvrt.WaitQuiescent()
				rec.tokens = 0 // a token nobody was waiting for does not carry over
				obsSnaps = append(obsSnaps, observe())
			}
			rec.tokens = 1 << 30
			zzvrt.WaitQuiescent()
			l.Stop()
			obsFinal = observe()
		},
		Check: func(x *zzvrt.Exec) (string, []zzvrt.Violation) {
			key := desc
			if x.Outcome != "" {
				return x.Outcome, []zzvrt.Violation{{Clause: "no-" + strings.SplitN(x.Outcome, ":", 2)[0], Key: key, Detail: x.Outcome}}
			}
			if errS != "" {
				return errS, []zzvrt.Violation{{Clause: "setup", Key: key, Detail: errS}}
			}
			var v []zzvrt.Violation
			fail := func(clause, detail string) { v = append(v, zzvrt.Violation{Clause: clause, Key: key, Detail: detail}) }
			// The oracle is written in terms of what the statement fixes, NOT of how many items the worker
			// holds between receiving and delivering them (one in the pinned tree; a worker that drains in
			// batches holds more, and the buffer then has room earlier than a one-item model says). With
			// inflight = items accepted and neither delivered nor discarded: the buffer holds at most
			// `inflight` items, so "inflight < capacity" means there certainly is room, and a sane worker holds
			// at most maxHold items, so "inflight > capacity + maxHold" means a Block call did not wait.
			const capacity, maxHold = 100, 64
			exact := true // does the run also match the one-item-worker model step by step? (recorded, not a verdict)
			all := make([]string, 0, d.k+len(ids))
			for i := 0; i < d.k; i++ {
				all = append(all, fmt.Sprintf("W:p%d", i))
			}
			subAt := map[string]int{}
			for i, id := range ids {
				if id != "" {
					all = append(all, id)
					subAt[id] = i
				}
			}
			prevCtr, prevInflight, submitted := 0, d.k, 0
			droppedOnArrival := map[string]bool{}
			var pendingBlock string
			for i := range d.ops {
				if i >= len(obsSnaps) {
					break
				}
				o := obsSnaps[i]
				step := fmt.Sprintf("after op %d (%c)", i, d.ops[i])
				if i < len(snaps) {
					w := snaps[i]
					if strings.Join(o.delivered, ",") != strings.Join(w.delivered, ",") || o.discarded != w.discarded || len(o.returned) != len(w.returned) {
						exact = false
					}
				}
				bump := o.discarded - prevCtr
				id := ids[i]
				if id == "" { // 'T'
					if bump != 0 {
						fail("queue-model-counter", fmt.Sprintf("%s: the discard counter moved by %d while nothing was submitted", step, bump))
					}
				} else {
					submitted++
					if bump < 0 || bump > 1 {
						fail("queue-model-counter", fmt.Sprintf("%s: the discard counter moved by %d during one submission", step, bump))
					}
					if bump > 0 && (d.policy == log.BufferFullPolicyBlock || prevInflight < capacity) {
						fail("discarded-although-not-full", fmt.Sprintf("%s: %s: the discard counter moved although only %d items were in the system (capacity %d, policy %s)", step, id, prevInflight, capacity, policyName(d.policy)))
					}
					if bump > 0 && d.policy == log.BufferFullPolicyDiscard {
						droppedOnArrival[id] = true
					}
					switch {
					case d.policy != log.BufferFullPolicyBlock:
						if !o.returned[id] {
							fail("call-did-not-return", fmt.Sprintf("%s: the call for %s has not returned (the discard policies never wait)", step, id))
						}
					case !o.returned[id]:
						if prevInflight < capacity {
							fail("call-did-not-return", fmt.Sprintf("%s: Block: the call for %s has not returned although only %d items were in the system (capacity %d)", step, id, prevInflight, capacity))
						}
						pendingBlock = id
					}
				}
				nret := 0
				for rid := range o.returned {
					if _, ok := subAt[rid]; ok {
						nret++
					}
				}
				inflight := d.k + nret - o.discarded - len(o.delivered)
				if d.policy == log.BufferFullPolicyBlock && inflight > capacity+maxHold {
					fail("block-did-not-wait", fmt.Sprintf("%s: Block: %d items accepted and not yet delivered (capacity %d): a call returned without space", step, inflight, capacity))
				}
				if pendingBlock != "" && !o.returned[pendingBlock] && inflight < capacity {
					fail("call-did-not-return", fmt.Sprintf("%s: Block: the call for %s is still waiting although only %d items are in the system", step, pendingBlock, inflight))
				}
				if pendingBlock != "" && o.returned[pendingBlock] {
					pendingBlock = ""
				}
				prevCtr, prevInflight = o.discarded, inflight
			}
			// after Stop: order, duplicates, conservation, victims
			fin := obsFinal
			pos := map[string]int{}
			for i, id := range all {
				pos[id] = i
			}
			last, seenD := -1, map[string]bool{}
			for _, id := range fin.delivered {
				p, ok := pos[id]
				switch {
				case !ok:
					fail("queue-model-delivered", fmt.Sprintf("after Stop: unknown item %s delivered (delivered %v)", id, tail(fin.delivered)))
				case seenD[id]:
					fail("queue-model-delivered", fmt.Sprintf("after Stop: %s delivered twice", id))
				case p < last:
					fail("queue-model-delivered", fmt.Sprintf("after Stop: %s delivered after a younger item of the same producer (delivered %v)", id, tail(fin.delivered)))
				}
				if ok && p > last {
					last = p
				}
				seenD[id] = true
			}
			if len(fin.delivered)+fin.discarded != len(all) {
				fail("queue-model-counter", fmt.Sprintf("after Stop: delivered %d + discarded %d != submitted %d", len(fin.delivered), fin.discarded, len(all)))
			}
			for _, id := range all {
				_, isSub := subAt[id]
				switch d.policy {
				case log.BufferFullPolicyBlock:
					if !seenD[id] {
						fail("queue-model-delivered", fmt.Sprintf("after Stop: Block: %s was never delivered", id))
					}
				case log.BufferFullPolicyDiscard:
					if seenD[id] == droppedOnArrival[id] {
						fail("queue-model-delivered", fmt.Sprintf("after Stop: Discard: %s delivered=%v although the counter moved during its submission=%v (only the arriving item may be dropped)", id, seenD[id], droppedOnArrival[id]))
					}
				default:
					if isSub && !seenD[id] {
						fail("queue-model-delivered", fmt.Sprintf("after Stop: DiscardOldest: the arriving item %s was dropped while older items were buffered", id))
					}
					if !isSub && !seenD[id] && pos[id] >= fin.discarded+maxHold {
						fail("queue-model-delivered", fmt.Sprintf("after Stop: DiscardOldest: %s was dropped although at least %d older items were buffered", id, pos[id]))
					}
				}
			}
			if strings.Join(fin.delivered, ",") != strings.Join(final.delivered, ",") || fin.discarded != final.discarded {
				exact = false
			}
			return fmt.Sprintf("%v|%d|one-item-worker-model=%v", tail(obsFinal.delivered), obsFinal.discarded, exact), v
		},
	}
}

func tail(s []string) []string {
	if len(s) > 12 {
		return append([]string{fmt.Sprintf("...(%d)", len(s)-12)}, s[len(s)-12:]...)
	}
	return s
}

func init() {
	registerFamily(Fam{Prop: "C06", Name: "c06/directed-op-sequences", Tiers: "qt",
		Count: func(tier string) int { return len(dirList(tier)) },
		Make:  func(tier string, i int) *zzvrt.Scenario { return dirScenario(dirList(tier)[i]) }})
}
