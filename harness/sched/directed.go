package main

import (
	"fmt"
	"strings"

	log "github.com/go-spring/log"
	zzvrt "github.com/go-spring/log/zzvrt"
)

// ---------------------------------------------------------------------------------------------
// C06 - explicit enumeration of operation sequences against a reference queue model.
//
// Operations: E (append an event), W (raw write), T (let the worker deliver exactly one item).
// All sequences up to depth 6 (thorough 7) from initial occupancies 100, 99, 98, 1, 0 for each
// policy. The worker is single-stepped through a token-gated appender; after every operation the
// harness waits for quiescence and compares delivered sequence, discard counter and "did the
// submitting call return" with the model; at the end everything is drained and compared again.
// ---------------------------------------------------------------------------------------------

type qModel struct {
	cap       int
	policy    log.BufferFullPolicy
	buf       []string
	hold      string // item the worker has received but not yet delivered ("" = none)
	pending   []string
	delivered []string
	discarded int
	returned  map[string]bool
}

func (m *qModel) auto() {
	for {
		if m.hold == "" && len(m.buf) > 0 {
			m.hold = m.buf[0]
			m.buf = m.buf[1:]
		}
		if len(m.pending) > 0 && len(m.buf) < m.cap {
			m.buf = append(m.buf, m.pending[0])
			m.returned[m.pending[0]] = true
			m.pending = m.pending[1:]
			continue
		}
		return
	}
}

func (m *qModel) submit(x string) {
	switch {
	case len(m.buf) < m.cap:
		m.buf = append(m.buf, x)
		m.returned[x] = true
	case m.policy == log.BufferFullPolicyDiscard:
		m.discarded++
		m.returned[x] = true
	case m.policy == log.BufferFullPolicyDiscardOldest:
		m.buf = append(m.buf[1:], x)
		m.discarded++
		m.returned[x] = true
	default:
		m.pending = append(m.pending, x)
	}
	m.auto()
}

func (m *qModel) take() {
	if m.hold != "" {
		m.delivered = append(m.delivered, m.hold)
		m.hold = ""
	}
	m.auto()
}

func (m *qModel) drain() {
	for m.hold != "" || len(m.buf) > 0 || len(m.pending) > 0 {
		m.auto()
		m.take()
	}
}

type dirMember struct {
	policy log.BufferFullPolicy
	k      int
	ops    string // 'E' INFO event, 'F' event of level hi, 'W' raw write, 'T' the appender takes one item
	hi     log.Level
}

var dirMembers = map[string][]dirMember{}

func dirList(tier string) []dirMember {
	if l, ok := dirMembers[tier]; ok {
		return l
	}
	depth := 6
	if tier == "thorough" {
		depth = 7
	}
	var seqs []string
	var rec func(s string)
	rec = func(s string) {
		if len(s) > 0 {
			seqs = append(seqs, s)
		}
		if len(s) == depth {
			return
		}
		for _, c := range "EWT" {
			rec(s + string(c))
		}
	}
	rec("")
	// the same with events of other levels (the queue treats every level alike): sequences one shorter
	// that contain at least one 'F', for the lowest and the three highest built-in levels
	var fseqs []string
	var recF func(s string)
	recF = func(s string) {
		if strings.Contains(s, "F") {
			fseqs = append(fseqs, s)
		}
		if len(s) == depth-1 {
			return
		}
		for _, c := range "EFWT" {
			recF(s + string(c))
		}
	}
	recF("")
	var out []dirMember
	for _, pol := range []log.BufferFullPolicy{log.BufferFullPolicyBlock, log.BufferFullPolicyDiscard, log.BufferFullPolicyDiscardOldest} {
		for _, k := range []int{100, 99, 98, 1, 0} {
			for _, s := range seqs {
				out = append(out, dirMember{pol, k, s, log.InfoLevel})
			}
			for _, hi := range []log.Level{log.TraceLevel, log.ErrorLevel, log.PanicLevel, log.FatalLevel} {
				for _, s := range fseqs {
					out = append(out, dirMember{pol, k, s, hi})
				}
			}
		}
	}
	dirMembers[tier] = out
	return out
}

func dirScenario(d dirMember) *zzvrt.Scenario {
	// model run; sequences that submit while a Block sender is pending are skipped (two blocked
	// senders are different goroutines, their relative order is not constrained by the property)
	m := &qModel{cap: 100, policy: d.policy, returned: map[string]bool{}}
	for i := 0; i < d.k; i++ {
		m.buf = append(m.buf, fmt.Sprintf("W:p%d", i))
	}
	m.auto()
	type snap struct {
		delivered []string
		discarded int
		returned  map[string]bool
	}
	var snaps []snap
	mk := func() snap {
		r := map[string]bool{}
		for k, v := range m.returned {
			r[k] = v
		}
		return snap{append([]string(nil), m.delivered...), m.discarded, r}
	}
	ids := make([]string, len(d.ops))
	for i, op := range d.ops {
		switch op {
		case 'E', 'F', 'W':
			if len(m.pending) > 0 {
				return nil
			}
			kind := op
			if kind == 'F' {
				kind = 'E'
			}
			ids[i] = fmt.Sprintf("%c:%s", kind, idName(idCode(0, i)))
			m.submit(ids[i])
		case 'T':
			m.take()
		}
		snaps = append(snaps, mk())
	}
	m.drain()
	final := mk()

	var (
		rec      *recAppender
		obsSnaps []snap
		obsFinal snap
		errS     string
	)
	desc := fmt.Sprintf("%s k=%d ops=%s", policyName(d.policy), d.k, d.ops)
	if strings.Contains(d.ops, "F") {
		desc += " F=" + d.hi.Name()
	}
	return &zzvrt.Scenario{
		Desc:   desc,
		Before: func() { resetAll(); obsSnaps, obsFinal, errS = nil, snap{}, "" },
		Opts:   zzvrt.RunOpts{Bounds: zzvrt.Bounds{Preempt: 0, Horizon: 20000}},
		Body: func() {
			rec = &recAppender{name: "rec", tokens: 0}
			l := &log.AsyncLogger{
				LoggerBase:       log.LoggerBase{Name: "async", Level: fullRange},
				AppenderRefs:     log.AppenderRefs{AppenderRefs: []*log.AppenderRef{{Appender: rec, Level: fullRange}}},
				BufferSize:       100,
				BufferFullPolicy: d.policy,
			}
			zzvrt.Atomic(func() {
				if err := l.Start(); err != nil {
					errS = err.Error()
					return
				}
				for i := 0; i < d.k; i++ {
					l.Write([]byte(fmt.Sprintf("p%d", i)))
				}
			})
			if errS != "" {
				return
			}
			returned := map[string]bool{}
			observe := func() snap {
				r := map[string]bool{}
				for k, v := range returned {
					r[k] = v
				}
				var del []string
				for _, it := range rec.items {
					if i := strings.IndexByte(it, '@'); i >= 0 {
						it = it[:i]
					}
					del = append(del, it)
				}
				return snap{del, int(l.GetDiscardCounter()), r}
			}
			zzvrt.WaitQuiescent()
			for i, op := range d.ops {
				id := ids[i]
				switch op {
				case 'E', 'F':
					lv := log.InfoLevel
					if op == 'F' {
						lv = d.hi
					}
					zzvrt.GoNamed("submit", func() {
						e := log.GetEvent()
						e.Level = lv
						e.Fields = []log.Field{log.Int("id", idCode(0, i))}
						l.Append(e)
						returned[id] = true
					})
				case 'W':
					zzvrt.GoNamed("submit", func() {
						l.Write([]byte(idName(idCode(0, i))))
						returned[id] = true
					})
				case 'T':
					rec.tokens++
				}
				zzvrt.WaitQuiescent()
				rec.tokens = 0 // a token nobody was waiting for does not carry over
				obsSnaps = append(obsSnaps, observe())
			}
			rec.tokens = 1 << 30
			zzvrt.WaitQuiescent()
			l.Stop()
			obsFinal = observe()
		},
		Check: func(x *zzvrt.Exec) (string, []zzvrt.Violation) {
			key := desc
			if x.Outcome != "" {
				return x.Outcome, []zzvrt.Violation{{Clause: "no-" + strings.SplitN(x.Outcome, ":", 2)[0], Key: key, Detail: x.Outcome}}
			}
			if errS != "" {
				return errS, []zzvrt.Violation{{Clause: "setup", Key: key, Detail: errS}}
			}
			var v []zzvrt.Violation
			cmp := func(step string, got, want snap) {
				if strings.Join(got.delivered, ",") != strings.Join(want.delivered, ",") {
					v = append(v, zzvrt.Violation{Clause: "queue-model-delivered", Key: key, Detail: fmt.Sprintf("%s: delivered %v, model %v", step, tail(got.delivered), tail(want.delivered))})
				}
				if got.discarded != want.discarded {
					v = append(v, zzvrt.Violation{Clause: "queue-model-counter", Key: key, Detail: fmt.Sprintf("%s: discard counter %d, model %d", step, got.discarded, want.discarded)})
				}
				for id, r := range want.returned {
					if r && !got.returned[id] {
						v = append(v, zzvrt.Violation{Clause: "call-did-not-return", Key: key, Detail: fmt.Sprintf("%s: submitting call for %s has not returned (model: returns)", step, id)})
					}
				}
				for id := range got.returned {
					if !want.returned[id] {
						v = append(v, zzvrt.Violation{Clause: "call-returned-early", Key: key, Detail: fmt.Sprintf("%s: call for %s returned although the model says it blocks", step, id)})
					}
				}
			}
			for i := range snaps {
				if i < len(obsSnaps) {
					cmp(fmt.Sprintf("after op %d (%c)", i, d.ops[i]), obsSnaps[i], snaps[i])
				}
			}
			cmp("after Stop", obsFinal, final)
			return fmt.Sprintf("%v|%d", tail(obsFinal.delivered), obsFinal.discarded), v
		},
	}
}

func tail(s []string) []string {
	if len(s) > 12 {
		return append([]string{fmt.Sprintf("...(%d)", len(s)-12)}, s[len(s)-12:]...)
	}
	return s
}

func init() {
	registerFamily(Fam{Prop: "C06", Name: "c06/directed-op-sequences", Tiers: "qt",
		Count: func(tier string) int { return len(dirList(tier)) },
		Make:  func(tier string, i int) *zzvrt.Scenario { return dirScenario(dirList(tier)[i]) }})
}
