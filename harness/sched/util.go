package main

import (
	log "github.com/go-spring/log"
	"github.com/go-spring/log/zzvrt/vos"
)

// resetAll restores the package-level state of the library and of the shims before an execution.
func resetAll() {
	log.VerifResetGlobals() // generated: everything reachable from the package-level variables back to its state before the first execution (deep, in place)
	vos.StderrBuf = vos.StderrBuf[:0]
	vos.StdoutBuf = vos.StdoutBuf[:0]
}
