package main

import (
	log "github.com/go-spring/log"
	"github.com/go-spring/log/zzvrt/vos"
)

// resetAll restores the package-level state of the library and of the shims before an execution.
func resetAll() {
	log.VerifResetGlobals() // generated: every package-level variable back to its value before the first execution
	log.VerifReset()
	vos.StderrBuf = vos.StderrBuf[:0]
	vos.StdoutBuf = vos.StdoutBuf[:0]
}
