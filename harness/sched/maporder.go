package main

import (
	"context"
	"fmt"
	"strings"

	log "github.com/go-spring/log"
	zzvrt "github.com/go-spring/log/zzvrt"
)

// ---------------------------------------------------------------------------------------------
// C02 / C15 - independence from map iteration order.
//
// Refresh iterates several Go maps (the configuration map, appenders, loggers, handles, tags,
// properties). In the instrumented build every `for range m` over a map goes through
// zzvrt.MapOrder: ascending keys by default, and under the explorer (seam "maporder") any key may be
// moved to the front of the remaining ones. This family runs routing configurations under EVERY
// single deviation (thorough: every pair of deviations) of every map iteration inside Refresh,
// logging and Destroy, and requires the same verdict as the reference router: error-ness and the
// serving logger of every tag do not depend on the iteration order.
// ---------------------------------------------------------------------------------------------

// SRec is a recording appender registered as a plugin of the instrumented library.
type SRec struct {
	log.AppenderBase
}

var srecStore = map[string][]string{}

// srecLocated: some recorded event carried a source location (observed behaviour of enableCaller)
var srecLocated bool

func (a *SRec) Start() error { return nil }
func (a *SRec) Stop()        {}
func (a *SRec) Append(e *log.Event) {
	id := "?"
	if len(e.Fields) > 0 {
		id = fmt.Sprint(e.Fields[0].Num)
	}
	srecStore[a.Name] = append(srecStore[a.Name], id)
	if e.File != "" || e.Line != 0 {
		srecLocated = true
	}
}
func (a *SRec) Write(b []byte) { srecStore[a.Name] = append(srecStore[a.Name], "W:"+string(b)) }

var moTagNames = []string{"_a_b", "_a_b_c", "_a_b_c_d", "_a_c", "_ab_c", "a_b", "a_b_c", "abc"}
var moTags []*log.Tag

func init() {
	log.RegisterPlugin[SRec]("SRec", log.PluginTypeAppender)
	for _, n := range moTagNames {
		moTags = append(moTags, log.RegisterTag(n))
	}
}

type moCase struct {
	loggers []string
	root    string
}

func moRoute(c moCase) (map[string]string, bool) {
	owner := map[string]string{}
	for i, attr := range c.loggers {
		name := fmt.Sprintf("l%d", i)
		n := 0
		for _, p := range strings.Split(attr, ",") {
			p = strings.TrimSpace(p)
			if p == "" {
				continue
			}
			if strings.Contains(p, "*") && !strings.HasSuffix(p, "_*") {
				return nil, false
			}
			if o, ok := owner[p]; ok && o != name {
				return nil, false
			}
			owner[p] = name
			n++
		}
		if n == 0 {
			return nil, false
		}
	}
	if c.root == "tags" {
		return nil, false
	}
	def := "console"
	if c.root == "plain" {
		def = "root"
	}
	out := map[string]string{}
	for _, tag := range moTagNames {
		serve := def
		if o, ok := owner[tag]; ok {
			serve = o
		} else {
			for i := len(tag) - 1; i > 0; i-- {
				if tag[i] == '_' {
					if o, ok := owner[tag[:i]+"_*"]; ok {
						serve = o
						break
					}
				}
			}
		}
		out[tag] = serve
	}
	return out, true
}

var moCases []moCase

func moList() []moCase {
	if moCases != nil {
		return moCases
	}
	pats := []string{"_a_b", "_a_*", "_a_b_*", "_a_b_c_*", "a_*", "abc", "_a*", "_a_b,_a_c", "_a_*, a_b", ""}
	for _, a := range pats {
		for _, b := range pats {
			for _, r := range []string{"none", "plain", "tags"} {
				if r == "tags" && a != "_a_b" {
					continue
				}
				moCases = append(moCases, moCase{[]string{a, b}, r})
			}
		}
	}
	for _, a := range pats[:6] {
		for _, b := range pats[:6] {
			for _, c := range pats[:6] {
				moCases = append(moCases, moCase{[]string{a, b, c}, "plain"})
			}
		}
	}
	return moCases
}

func moScenario(prop string, c moCase, b zzvrt.Bounds) *zzvrt.Scenario {
	conf := map[string]string{"appender.rroot.type": "SRec", "bufferCap": "4KB", "enableCaller": "false"}
	for i, tags := range c.loggers {
		n := fmt.Sprintf("l%d", i)
		conf["appender.r"+n+".type"] = "SRec"
		conf["logger."+n+".type"] = "Logger"
		conf["logger."+n+".appenderRef.ref"] = "r" + n
		if tags != "" {
			conf["logger."+n+".tags"] = tags
		}
	}
	if c.root != "none" {
		conf["logger.root.type"] = "Logger"
		conf["logger.root.appenderRef.ref"] = "rroot"
		if c.root == "tags" {
			conf["logger.root.tags"] = "_a_*"
		}
	}
	want, ok := moRoute(c)
	desc := fmt.Sprintf("loggers=%q root=%s", c.loggers, c.root)
	var (
		rerr    error
		console *slowSink
		enable  bool
	)
	return &zzvrt.Scenario{
		Desc: desc,
		Before: func() {
			resetAll()
			for k := range srecStore {
				delete(srecStore, k)
			}
			rerr = nil
			srecLocated = false
		},
		Opts: zzvrt.RunOpts{Bounds: b},
		Body: func() {
			console = &slowSink{}
			log.Stdout = console
			rerr = log.Refresh(conf)
			if rerr == nil {
				for i, t := range moTags {
					log.Info(context.Background(), t, log.Int("id", i))
				}
			}
			// observed, not read from private state: did any recorded event carry a source location?
			enable = srecLocated
			log.Destroy()
		},
		Check: func(x *zzvrt.Exec) (string, []zzvrt.Violation) {
			key := desc
			if x.Outcome != "" {
				return x.Outcome, []zzvrt.Violation{{Clause: "no-" + strings.SplitN(x.Outcome, ":", 2)[0], Key: key, Detail: x.Outcome}}
			}
			var v []zzvrt.Violation
			if ok != (rerr == nil) {
				v = append(v, zzvrt.Violation{Clause: "config-validity-depends-on-order", Key: key, Detail: fmt.Sprintf("Refresh err=%v, routing rules say valid=%v", rerr, ok)})
				return fmt.Sprint(rerr == nil), v
			}
			if !ok {
				return "rejected", nil
			}
			if prop == "C15" && enable {
				v = append(v, zzvrt.Violation{Clause: "property-not-applied", Key: key, Detail: "enableCaller=false was not applied under this iteration order"})
			}
			served := map[string][]string{}
			for app, ids := range srecStore {
				for _, id := range ids {
					var i int
					fmt.Sscanf(id, "%d", &i)
					served[moTagNames[i]] = append(served[moTagNames[i]], strings.TrimPrefix(app, "r"))
				}
			}
			for _, w := range console.writes {
				if j := strings.Index(w, "id="); j >= 0 {
					var i int
					fmt.Sscanf(w[j+3:], "%d", &i)
					served[moTagNames[i]] = append(served[moTagNames[i]], "console")
				}
			}
			var sb strings.Builder
			for _, tag := range moTagNames {
				got := served[tag]
				fmt.Fprintf(&sb, "%s->%v ", tag, got)
				if len(got) != 1 || got[0] != want[tag] {
					v = append(v, zzvrt.Violation{Clause: "tag-served-by", Key: key, Detail: fmt.Sprintf("tag %s served by %v, want exactly [%s]", tag, got, want[tag])})
				}
			}
			return sb.String(), v
		},
	}
}

func init() {
	for _, prop := range []string{"C02", "C15"} {
		prop := prop
		registerFamily(Fam{Prop: prop, Name: strings.ToLower(prop) + "/map-iteration-order", Tiers: "qt",
			Count: func(tier string) int {
				if prop == "C15" {
					return 40
				}
				return len(moList())
			},
			Make: func(tier string, i int) *zzvrt.Scenario {
				b := zzvrt.Bounds{Preempt: 0, Horizon: 50000}
				b.Env[zzvrt.SeamMapOrder] = 1
				if tier == "thorough" && i%7 == 0 {
					b.Env[zzvrt.SeamMapOrder] = 2
				}
				l := moList()
				if prop == "C15" {
					i = i * (len(l) / 40)
				}
				return moScenario(prop, l[i], b)
			}})
	}
}
