package main

import (
	"context"
	"fmt"
	"regexp"
	"sort"
	"strings"
	"time"

	log "github.com/go-spring/log"
	zzvrt "github.com/go-spring/log/zzvrt"
)

// ---------------------------------------------------------------------------------------------
// C14 - retention cleanup deletes only this appender's own expired files.
//
// A family of directory populations: every set of <= 3 (thorough 4) entries from a name alphabet
// (own rotated files, prefix-sharing foreign files, near-miss timestamps, directories) x 4 ages
// around the cut-off x max ages. The cleanup is triggered the way production triggers it: the
// clock crosses a boundary and a write rotates; the spawned cleanup goroutine runs under the
// scheduler, racing one further write (P <= 1). Oracle: exact survivor set.
// ---------------------------------------------------------------------------------------------

type retEntry struct {
	name string // %s = appender file name
	dir  bool
}

var retAlphabet = []retEntry{
	{"%s.20250530100000", false},
	{"%s.20250531235959", false},
	{"%s.wf.20250530100000", false},
	{"%s.audit.20250530100000", false},
	{"%s.bak", false},
	{"%s.1.gz", false},
	{"%s.2025053010000", false},    // 13 digits
	{"%s.202505301000000", false},  // 15 digits
	{"%s.2025053010000x", false},   // 14 characters, one letter
	{"%s.20250530100000.1", false}, // own timestamp followed by a fraction-like suffix
	{"%s.20250530100000,5", false},
	{"%s.20250530100000.gz", false},
	{"%s", false}, // bare name
	{"other.log.20250530100000", false},
	{"%s.20250529100000", true}, // directory that looks like an own file
	{"archive", true},
}

// ages relative to the cut-off (negative = older than the cut-off)
var retAges = []time.Duration{-time.Hour, -time.Nanosecond, 0, time.Hour}

type retItem struct {
	entry int
	age   int
}

type retPop struct {
	items    []retItem
	maxAge   int32
	fileName string
	// skew != 0: the writes are Append calls of events whose OWN timestamp is ahead of (behind) the clock by skew
	// (a TimeNow hook on another clock, a replayed event): the cut-off is still "now - max age" on the
	// clock that stamps the files, not on the event
	skew time.Duration
}

var (
	retPops  = map[string][]retPop{}
	retTick  = time.Date(2025, 6, 1, 11, 0, 0, int(time.Millisecond), time.UTC)
	retStart = time.Date(2025, 6, 1, 10, 20, 0, 0, time.UTC)
)

func retPopulations(tier string) []retPop {
	if p, ok := retPops[tier]; ok {
		return p
	}
	var out []retPop
	maxN := 3
	if tier == "thorough" {
		maxN = 4
	}
	n := len(retAlphabet)
	var rec func(start int, cur []retItem)
	emit := func(items []retItem) {
		cp := append([]retItem(nil), items...)
		ages := []int32{24}
		switch {
		case len(items) <= 2 || tier == "thorough" && len(items) == 3:
			ages = []int32{1, 24, 168, 720}
		case len(items) == 3:
			ages = []int32{1, 720}
		}
		for _, ma := range ages {
			out = append(out, retPop{items: cp, maxAge: ma, fileName: "app.log"})
		}
		if len(items) <= 2 {
			out = append(out, retPop{items: cp, maxAge: 24, fileName: "app.log.wf"})
		}
	}
	rec = func(start int, cur []retItem) {
		if len(cur) > 0 {
			emit(cur)
		}
		if len(cur) == maxN {
			return
		}
		for e := start; e < n; e++ {
			for a := range retAges {
				rec(e+1, append(cur, retItem{e, a}))
			}
		}
	}
	rec(0, nil)
	retPops[tier] = out
	return out
}

func (p retPop) desc() string {
	var sb strings.Builder
	fmt.Fprintf(&sb, "appender=%s maxAge=%dh:", p.fileName, p.maxAge)
	if p.skew != 0 {
		fmt.Fprintf(&sb, " [Append, event time = clock%+v]", p.skew)
	}
	for _, it := range p.items {
		fmt.Fprintf(&sb, " %s@cutoff%+v", strings.Replace(retAlphabet[it.entry].name, "%s", p.fileName, 1), retAges[it.age])
	}
	return sb.String()
}

func retScenario(p retPop, b zzvrt.Bounds) *zzvrt.Scenario {
	cutoff := retTick.Add(-time.Duration(p.maxAge) * time.Hour)
	own := regexp.MustCompile(`^` + regexp.QuoteMeta(p.fileName) + `\.\d{14}$`)
	type ent struct {
		name  string
		dir   bool
		mtime time.Time
	}
	var ents []ent
	for _, it := range p.items {
		e := retAlphabet[it.entry]
		name := strings.Replace(e.name, "%s", p.fileName, 1)
		ents = append(ents, ent{name, e.dir, cutoff.Add(retAges[it.age])})
	}
	var errS string
	return &zzvrt.Scenario{
		Desc:   p.desc(),
		Before: func() { resetAll(); errS = "" },
		Opts:   zzvrt.RunOpts{Bounds: b, Start: retStart, TickStep: time.Hour},
		Body: func() {
			x := zzvrt.Cur()
			a := &log.RollingFileAppender{FileDir: rollDir, FileName: p.fileName, Rotation: log.TimeRotation{Interval: time.Hour}, MaxAge: p.maxAge}
			if p.skew != 0 {
				a.Layout = &log.TextLayout{BaseLayout: log.BaseLayout{FileLineLength: 48}}
			}
			write := func(id string) {
				if p.skew == 0 {
					a.Write([]byte(id + "\n"))
					return
				}
				a.Append(&log.Event{Level: log.InfoLevel, Time: x.Now.Add(p.skew), Tag: "_t", Fields: []log.Field{log.Msg(id)}})
			}
			zzvrt.Atomic(func() {
				x.FS.MkdirAll(rollDir)
				for _, e := range ents {
					if e.dir {
						x.FS.MkdirAll(rollDir + "/" + e.name)
						x.FS.Nodes[rollDir+"/"+e.name].MTime = e.mtime
						x.FS.Put(rollDir+"/"+e.name+"/inner.20250101000000", []byte("x"), e.mtime)
					} else {
						x.FS.Put(rollDir+"/"+e.name, []byte("keep\n"), e.mtime)
					}
				}
				if err := a.Start(); err != nil {
					errS = err.Error()
				}
				x.Now = retTick // the clock has crossed the boundary; the next write rotates
			})
			if errS != "" {
				return
			}
			write("a0") // rotates, spawns the cleanup
			write("a1") // races with the cleanup
			zzvrt.WaitQuiescent()
			a.Stop()
		},
		Check: func(x *zzvrt.Exec) (string, []zzvrt.Violation) {
			key := p.desc()
			if x.Outcome != "" {
				return x.Outcome, []zzvrt.Violation{{Clause: "no-" + strings.SplitN(x.Outcome, ":", 2)[0], Key: key, Detail: x.Outcome}}
			}
			if errS != "" {
				return errS, []zzvrt.Violation{{Clause: "setup", Key: key, Detail: errS}}
			}
			var v []zzvrt.Violation
			left := map[string]bool{}
			for _, n := range x.FS.List(rollDir) {
				left[n] = true
			}
			for _, e := range ents {
				expectDeleted := !e.dir && own.MatchString(e.name) && e.mtime.Before(cutoff)
				switch {
				case expectDeleted && left[e.name]:
					v = append(v, zzvrt.Violation{Clause: "expired-own-file-kept", Key: fmt.Sprintf("%s name=%s age=cutoff%+v", p.fileName, e.name, e.mtime.Sub(cutoff)),
						Detail: fmt.Sprintf("%s (mtime %s, cut-off %s) should have been deleted [%s]", e.name, e.mtime.Format(time.RFC3339Nano), cutoff.Format(time.RFC3339Nano), key)})
				case !expectDeleted && !left[e.name]:
					// judged at the moment of the removal (a cleanup that runs a little after its rotation - a timer, a
					// queue - sees a later "now"): the file was own-named and older than the maximum age THEN
					if !e.dir && own.MatchString(e.name) {
						late := false
						for _, c := range x.FS.Log {
							if c.Op == "remove" && c.Err == "" && c.Path == rollDir+"/"+e.name && e.mtime.Before(c.At.Add(-time.Duration(p.maxAge)*time.Hour)) {
								late = true
							}
						}
						if late {
							break
						}
					}
					v = append(v, zzvrt.Violation{Clause: "foreign-or-young-deleted", Key: fmt.Sprintf("%s name=%s age=cutoff%+v", p.fileName, e.name, e.mtime.Sub(cutoff)),
						Detail: fmt.Sprintf("%s (dir=%v, mtime %s, cut-off %s) must survive but was deleted [%s]", e.name, e.dir, e.mtime.Format(time.RFC3339Nano), cutoff.Format(time.RFC3339Nano), key)})
				}
				if e.dir && left[e.name] {
					if _, ok := x.FS.Nodes[rollDir+"/"+e.name+"/inner.20250101000000"]; !ok {
						v = append(v, zzvrt.Violation{Clause: "directory-content-deleted", Key: p.fileName + " name=" + e.name, Detail: "content of sub-directory " + e.name + " was removed"})
					}
				}
			}
			// the appender's own live files
			for _, ts := range []time.Time{retStart, retTick} {
				n := p.fileName + "." + ts.Format("20060102150405")
				if !left[n] {
					v = append(v, zzvrt.Violation{Clause: "live-file-deleted", Key: p.fileName + " name=" + n, Detail: "file " + n + " written in this run was deleted"})
				}
			}
			var names []string
			for n := range left {
				names = append(names, n)
			}
			sort.Strings(names)
			return strings.Join(names, ","), v
		},
	}
}

func init() {
	registerFamily(Fam{Prop: "C14", Name: "c14/populations", Tiers: "qt",
		Count: func(tier string) int { return len(retPopulations(tier)) },
		Make: func(tier string, i int) *zzvrt.Scenario {
			b := zzvrt.Bounds{Preempt: 1, Horizon: 5000}
			return retScenario(retPopulations(tier)[i], b)
		}})
	// every third population once more with Append calls whose event time runs ahead of (behind) the clock
	registerFamily(Fam{Prop: "C14", Name: "c14/populations-append-skewed", Tiers: "qt",
		Count: func(tier string) int { return len(retPopulations(tier)) / 3 },
		Make: func(tier string, i int) *zzvrt.Scenario {
			p := retPopulations(tier)[3*i]
			p.skew = []time.Duration{90 * time.Minute, 36 * time.Hour, -3 * time.Hour}[i%3]
			return retScenario(p, zzvrt.Bounds{Preempt: 1, Horizon: 5000})
		}})
}

// ---------------------------------------------------------------------------------------------
// C14, clause "never deletes the file currently being written", with histories and faults: the
// appender has been quiet for longer than maxAge (its live file is older than the cut-off), the clock
// then crosses boundaries, file creations may fail (F <= 2) at any of them, and the cleanup goroutine
// races the following writes. Whatever happens, the file the appender is writing to stays in the
// directory and every written line is readable from a file that is still linked there.
// ---------------------------------------------------------------------------------------------

func liveFileScenario(maxAge int32, quietHours int, b zzvrt.Bounds) *zzvrt.Scenario {
	desc := fmt.Sprintf("maxAge=%dh quiet=%dh", maxAge, quietHours)
	var errS string
	var ids []string
	at := map[string]time.Time{}
	return &zzvrt.Scenario{
		Desc:   desc,
		Before: func() { resetAll(); errS = ""; ids = nil; at = map[string]time.Time{} },
		Opts:   zzvrt.RunOpts{Bounds: b, Start: retStart, TickStep: time.Hour},
		Body: func() {
			x := zzvrt.Cur()
			x.FS.FaultOps = map[string]bool{"open": true}
			a := &log.RollingFileAppender{FileDir: rollDir, FileName: "app.log", Rotation: log.TimeRotation{Interval: time.Hour}, MaxAge: maxAge}
			zzvrt.Atomic(func() {
				x.FS.MkdirAll(rollDir)
				if err := a.Start(); err != nil {
					errS = err.Error()
				}
			})
			if errS != "" {
				return
			}
			a.Write([]byte("l0\n"))
			ids = append(ids, "l0")
			// the appender stays quiet (every goroutine it started has finished); the clock moves on
			zzvrt.WaitQuiescent()
			x.Now = x.Now.Add(time.Duration(quietHours) * time.Hour)
			for i := 1; i <= 3; i++ {
				id := fmt.Sprintf("l%d", i)
				a.Write([]byte(id + "\n"))
				ids = append(ids, id)
				at[id] = x.Now
			}
			zzvrt.WaitQuiescent()
			// do not Stop: look at the directory as it is while the appender is live
		},
		Check: func(x *zzvrt.Exec) (string, []zzvrt.Violation) {
			key := desc
			if x.Outcome != "" {
				return x.Outcome, []zzvrt.Violation{{Clause: "no-" + strings.SplitN(x.Outcome, ":", 2)[0], Key: key, Detail: x.Outcome}}
			}
			if errS != "" {
				return errS, nil // Start itself failed by an injected fault
			}
			var v []zzvrt.Violation
			// the file currently being written (the descriptor opened last) must be linked in the directory;
			// the previous file, kept open only for its deferred close, may expire
			var cur *zzvrt.File
			for fl := range x.FS.Open {
				if cur == nil || fl.ID > cur.ID {
					cur = fl
				}
			}
			if cur != nil {
				if _, ok := x.FS.Nodes[cur.Path]; !ok {
					v = append(v, zzvrt.Violation{Clause: "live-file-deleted", Key: key, Detail: fmt.Sprintf("%s is the file currently being written but was removed from the directory", cur.Path)})
				}
			}
			var all strings.Builder
			names := x.FS.List(rollDir)
			for _, n := range names {
				all.Write(x.FS.Nodes[rollDir+"/"+n].Data)
			}
			// l0 sits in the first file, which may legitimately expire once it is no longer written to; so may a later
			// line when the clock has moved on by more than the maximum age since it was written (two ticks of one hour
			// in the thorough tier against a maximum age of one hour) and its file is no longer the one being written
			for _, id := range ids[1:] {
				wrote := at[id]
				for _, c := range x.FS.Log { // the moment the bytes reached the file (the clock may have moved before the call returned)
					if c.Op == "write" && c.Err == "" && c.Data == id+"\n" {
						wrote = c.At
					}
				}
				if x.Now.Sub(wrote) > time.Duration(maxAge)*time.Hour {
					continue
				}
				if !strings.Contains(all.String(), id+"\n") {
					v = append(v, zzvrt.Violation{Clause: "written-line-unreachable", Key: key, Detail: fmt.Sprintf("line %s is in no file of the directory (files %v)", id, names)})
				}
			}
			return fmt.Sprint(names), v
		},
	}
}

func init() {
	type lf struct {
		maxAge int32
		quiet  int
	}
	cases := []lf{{1, 3}, {1, 1}, {24, 30}, {24, 2}, {168, 200}, {720, 800}}
	// (also for C19: a creation that fails while EXPIRED own files sit in the directory - whatever the appender does about
	// them then, the log call returns)
	registerFamily(Fam{Prop: "C19", Name: "c19/failed-creation-among-expired-files", Tiers: "qt", Early: true,
		Count: func(string) int { return len(cases) },
		Make: func(tier string, i int) *zzvrt.Scenario {
			b := zzvrt.Bounds{Preempt: 1, Horizon: 5000}
			b.Env[zzvrt.SeamFault] = 2
			b.Env[zzvrt.SeamTick] = 1
			return liveFileScenario(cases[i].maxAge, cases[i].quiet, b)
		}})
	registerFamily(Fam{Prop: "C14", Name: "c14/live-file-with-failed-creations", Tiers: "qt",
		Count: func(string) int { return len(cases) },
		Make: func(tier string, i int) *zzvrt.Scenario {
			b := zzvrt.Bounds{Preempt: 1, Horizon: 5000}
			b.Env[zzvrt.SeamFault] = 2
			b.Env[zzvrt.SeamTick] = 1
			if tier == "thorough" {
				b.Preempt = 2
				b.Env[zzvrt.SeamTick] = 2
			}
			return liveFileScenario(cases[i].maxAge, cases[i].quiet, b)
		}})
}

// ---------------------------------------------------------------------------------------------
// C14 over a history of cleanups on ONE appender instance: between writes the clock may advance in
// half-interval steps (landing just after the step or a quarter interval later) - only while no
// cleanup goroutine is in flight: a goroutine that is delayed for longer than a whole max age before
// it reads the clock is not a schedule the property is about (it would make the cleanup of the 11:00
// rotation judge files by the clock of 12:15) - and one writer keeps writing, racing the cleanups
// (P <= 1), so that files
// are created, written to again later in their interval, rotated away and aged over up to 4 (thorough
// 5) clock steps and several cleanups. Oracle, on every removal in the filesystem log: the entry is an
// own rotated file, is not the file being written, and the modification time it had THEN is older
// than the maximum age; at the end: every own file older than (time of the last rotation - max age)
// is gone and every line written within the last max age is still readable.
// ---------------------------------------------------------------------------------------------

func cleanupHistoryScenario(maxAge int32, writes int, b zzvrt.Bounds) *zzvrt.Scenario {
	desc := fmt.Sprintf("maxAge=%dh writes=%d", maxAge, writes)
	start := time.Date(2025, 6, 1, 10, 50, 0, 0, time.UTC)
	own := regexp.MustCompile(`^app\.log\.\d{14}$`)
	type wr struct {
		id string
		at time.Time
	}
	var errS string
	var ws []wr
	return &zzvrt.Scenario{
		Desc:   desc,
		Before: func() { resetAll(); errS = ""; ws = nil },
		Opts:   zzvrt.RunOpts{Bounds: b, Start: start},
		Body: func() {
			x := zzvrt.Cur()
			a := &log.RollingFileAppender{FileDir: rollDir, FileName: "app.log", Rotation: log.TimeRotation{Interval: time.Hour}, MaxAge: maxAge}
			zzvrt.Atomic(func() {
				x.FS.MkdirAll(rollDir)
				if err := a.Start(); err != nil {
					errS = err.Error()
				}
			})
			if errS != "" {
				return
			}
			for i := 0; i < writes; i++ {
				if k := zzvrt.Choose(zzvrt.SeamClock, 3); k > 0 {
					zzvrt.WaitQuiescent()
					x.Now = x.Now.Truncate(30 * time.Minute).Add(30 * time.Minute).Add([]time.Duration{time.Millisecond, 15 * time.Minute}[k-1])
				}
				id := fmt.Sprintf("h%d", i)
				a.Write([]byte(id + "\n"))
				ws = append(ws, wr{id, x.Now})
			}
			zzvrt.WaitQuiescent()
			// do not Stop: look at the directory as it is while the appender is live
		},
		Check: func(x *zzvrt.Exec) (string, []zzvrt.Violation) {
			key := desc
			if x.Outcome != "" {
				return x.Outcome, []zzvrt.Violation{{Clause: "no-" + strings.SplitN(x.Outcome, ":", 2)[0], Key: key, Detail: x.Outcome}}
			}
			if errS != "" {
				return errS, []zzvrt.Violation{{Clause: "setup", Key: key, Detail: errS}}
			}
			var v []zzvrt.Violation
			age := time.Duration(maxAge) * time.Hour
			var lastCreate time.Time
			livePath := ""
			for _, c := range x.FS.Log {
				switch c.Op {
				case "open":
					if c.Err == "" && c.Flag&0x40 != 0 { // O_CREATE
						lastCreate, livePath = c.At, c.Path
					}
				case "remove", "removeall":
					name := strings.TrimPrefix(c.Path, rollDir+"/")
					switch {
					case c.Err != "":
					case !own.MatchString(name):
						v = append(v, zzvrt.Violation{Clause: "foreign-or-young-deleted", Key: key, Detail: fmt.Sprintf("%s removed %s, which is not a rotated file of the appender", c.Op, c.Path)})
					case c.Path == livePath:
						v = append(v, zzvrt.Violation{Clause: "live-file-deleted", Key: key, Detail: fmt.Sprintf("%s is the file currently being written but was removed at %s", c.Path, c.At.Format("15:04:05.000"))})
					case !c.MTime.Before(c.At.Add(-age)):
						v = append(v, zzvrt.Violation{Clause: "foreign-or-young-deleted", Key: key,
							Detail: fmt.Sprintf("%s, last modified %s, was removed at %s: younger than the maximum age of %dh", c.Path, c.MTime.Format("15:04:05.000"), c.At.Format("15:04:05.000"), maxAge)})
					}
				}
			}
			names := x.FS.List(rollDir)
			var all strings.Builder
			for _, n := range names {
				node := x.FS.Nodes[rollDir+"/"+n]
				all.Write(node.Data)
				if own.MatchString(n) && rollDir+"/"+n != livePath && node.MTime.Before(lastCreate.Add(-age)) {
					v = append(v, zzvrt.Violation{Clause: "expired-own-file-kept", Key: key,
						Detail: fmt.Sprintf("%s, last modified %s, is still there after the cleanup of the rotation at %s (max age %dh)", n, node.MTime.Format("15:04:05.000"), lastCreate.Format("15:04:05.000"), maxAge)})
				}
			}
			for _, w := range ws {
				if !w.at.Before(x.Now.Add(-age)) && !strings.Contains(all.String(), w.id+"\n") {
					v = append(v, zzvrt.Violation{Clause: "written-line-unreachable", Key: key, Detail: fmt.Sprintf("line %s written at %s (now %s, max age %dh) is in no file of the directory (files %v)", w.id, w.at.Format("15:04:05.000"), x.Now.Format("15:04:05.000"), maxAge, names)})
				}
			}
			return fmt.Sprint(names), v
		},
	}
}

func init() {
	for _, ma := range []int32{1, 2} {
		ma := ma
		register("C14", fmt.Sprintf("c14/cleanup-histories/maxAge=%dh", ma), "qt", func(tier string) *zzvrt.Scenario {
			b := zzvrt.Bounds{Preempt: 1, Horizon: 8000}
			b.Env[zzvrt.SeamClock] = 4
			writes := 5
			if tier == "thorough" {
				b.Env[zzvrt.SeamClock] = 5
				writes = 6
			}
			return cleanupHistoryScenario(ma, writes, b)
		})
	}
}

// ---------------------------------------------------------------------------------------------
// C14 through the rolling-file LOGGER (the kind that owns its appenders): every population of <= 2
// entries x max ages 1 / 24 h, with separate=false (one appender: files named app.log.wf.<ts> belong to
// somebody else) and separate=true with an INFO and an ERROR event (two appenders, each cleaning up after
// its own rotation: app.log.<ts> and app.log.wf.<ts> are both own patterns then).
// ---------------------------------------------------------------------------------------------

func retLoggerScenario(p retPop, separate bool, b zzvrt.Bounds) *zzvrt.Scenario {
	cutoff := retTick.Add(-time.Duration(p.maxAge) * time.Hour)
	ownMain := regexp.MustCompile(`^app\.log\.\d{14}$`)
	ownWf := regexp.MustCompile(`^app\.log\.wf\.\d{14}$`)
	type ent struct {
		name  string
		dir   bool
		mtime time.Time
	}
	var ents []ent
	for _, it := range p.items {
		e := retAlphabet[it.entry]
		ents = append(ents, ent{strings.Replace(e.name, "%s", "app.log", 1), e.dir, cutoff.Add(retAges[it.age])})
	}
	var errS string
	desc := fmt.Sprintf("RollingFile logger separate=%v %s", separate, p.desc())
	return &zzvrt.Scenario{
		Desc:   desc,
		Before: func() { resetAll(); errS = "" },
		Opts:   zzvrt.RunOpts{Bounds: b, Start: retStart, TickStep: time.Hour},
		Body: func() {
			x := zzvrt.Cur()
			zzvrt.Atomic(func() {
				log.Stdout = &slowSink{}
				x.FS.MkdirAll(rollDir)
				for _, e := range ents {
					if e.dir {
						x.FS.MkdirAll(rollDir + "/" + e.name)
						x.FS.Nodes[rollDir+"/"+e.name].MTime = e.mtime
					} else {
						x.FS.Put(rollDir+"/"+e.name, []byte("keep\n"), e.mtime)
					}
				}
				if err := log.Refresh(map[string]string{"appender.unused.type": "Discard",
					"logger.root.type": "RollingFile", "logger.root.fileDir": rollDir, "logger.root.fileName": "app.log", "logger.root.rotation": "h",
					"logger.root.maxAge": fmt.Sprint(p.maxAge), "logger.root.separate": fmt.Sprint(separate)}); err != nil {
					errS = err.Error()
				}
				x.Now = retTick // the clock has crossed the boundary; the next events rotate
			})
			if errS != "" {
				return
			}
			ctx := context.Background()
			log.Info(ctx, c03Tags[0], log.Msg("i0"))
			log.Error(ctx, c03Tags[1], log.Msg("e0"))
			log.Info(ctx, c03Tags[0], log.Msg("i1"))
			zzvrt.WaitQuiescent()
			log.Destroy()
		},
		Check: func(x *zzvrt.Exec) (string, []zzvrt.Violation) {
			key := desc
			if x.Outcome != "" {
				return x.Outcome, []zzvrt.Violation{{Clause: "no-" + strings.SplitN(x.Outcome, ":", 2)[0], Key: key, Detail: x.Outcome}}
			}
			if errS != "" {
				return errS, []zzvrt.Violation{{Clause: "setup", Key: key, Detail: errS}}
			}
			var v []zzvrt.Violation
			left := map[string]bool{}
			for _, n := range x.FS.List(rollDir) {
				left[n] = true
			}
			for _, e := range ents {
				own := ownMain.MatchString(e.name) || (separate && ownWf.MatchString(e.name))
				expectDeleted := !e.dir && own && e.mtime.Before(cutoff)
				switch {
				case expectDeleted && left[e.name]:
					v = append(v, zzvrt.Violation{Clause: "expired-own-file-kept", Key: fmt.Sprintf("logger separate=%v name=%s age=cutoff%+v", separate, e.name, e.mtime.Sub(cutoff)),
						Detail: fmt.Sprintf("%s should have been deleted [%s]", e.name, key)})
				case !expectDeleted && !left[e.name]:
					// judged at the moment of the removal, as in retScenario (a cleanup may run a little after its rotation)
					if !e.dir && own {
						late := false
						for _, c := range x.FS.Log {
							if c.Op == "remove" && c.Err == "" && c.Path == rollDir+"/"+e.name && e.mtime.Before(c.At.Add(-time.Duration(p.maxAge)*time.Hour)) {
								late = true
							}
						}
						if late {
							break
						}
					}
					v = append(v, zzvrt.Violation{Clause: "foreign-or-young-deleted", Key: fmt.Sprintf("logger separate=%v name=%s age=cutoff%+v", separate, e.name, e.mtime.Sub(cutoff)),
						Detail: fmt.Sprintf("%s (dir=%v, mtime %s, cut-off %s) must survive but was deleted [%s]", e.name, e.dir, e.mtime.Format(time.RFC3339Nano), cutoff.Format(time.RFC3339Nano), key)})
				}
			}
			var names []string
			for n := range left {
				names = append(names, n)
			}
			sort.Strings(names)
			return strings.Join(names, ","), v
		},
	}
}

func init() {
	pops := func(tier string) []retPop {
		var out []retPop
		for _, p := range retPopulations(tier) {
			if p.fileName == "app.log" && len(p.items) <= 2 && (p.maxAge == 1 || p.maxAge == 24) {
				out = append(out, p)
			}
		}
		return out
	}
	registerFamily(Fam{Prop: "C14", Name: "c14/rolling-logger-populations", Tiers: "qt",
		Count: func(tier string) int { return 2 * len(pops(tier)) },
		Make: func(tier string, i int) *zzvrt.Scenario {
			return retLoggerScenario(pops(tier)[i/2], i%2 == 1, zzvrt.Bounds{Preempt: 1, Horizon: 8000})
		}})
}

// ---------------------------------------------------------------------------------------------
// C14 / C13 - "keep for ever": maximum ages whose length in seconds or nanoseconds is near or beyond
// what 32 / 64 bits hold (596523 h * 3600 s < 2^31 <= 596524 h * 3600 s; 2562047 h < 2^63 ns <=
// 2562048 h), up to the largest int32. Own files modified 1 hour, 1 year, 69 years and 250 years ago.
// Oracle (exact integer arithmetic in seconds): whatever is YOUNGER than the maximum age survives, and
// so do the files written in this run; what is older may or may not go (nobody waits 300 years).
// ---------------------------------------------------------------------------------------------

var foreverAges = []int32{596523, 596524, 1000000, 1193047, 2562047, 2562048, 3000000, 5124095, 5124096, 2147483647}

func foreverScenario(prop string, maxAge int32, b zzvrt.Bounds) *zzvrt.Scenario {
	olds := []int64{3600, 365 * 86400, 69 * 365 * 86400, 250 * 365 * 86400} // seconds before the tick
	var errS string
	desc := fmt.Sprintf("maxAge=%dh", maxAge)
	return &zzvrt.Scenario{
		Desc:   desc,
		Before: func() { resetAll(); errS = "" },
		Opts:   zzvrt.RunOpts{Bounds: b, Start: retStart, TickStep: time.Hour},
		Body: func() {
			x := zzvrt.Cur()
			a := &log.RollingFileAppender{FileDir: rollDir, FileName: "app.log", Rotation: log.TimeRotation{Interval: time.Hour}, MaxAge: maxAge}
			zzvrt.Atomic(func() {
				x.FS.MkdirAll(rollDir)
				for i, o := range olds {
					x.FS.Put(fmt.Sprintf("%s/app.log.2000010100000%d", rollDir, i), []byte("keep\n"), time.Unix(retTick.Unix()-o, 0))
				}
				if err := a.Start(); err != nil {
					errS = err.Error()
				}
				x.Now = retTick
			})
			if errS != "" {
				return
			}
			a.Write([]byte("a0\n")) // rotates, spawns the cleanup
			a.Write([]byte("a1\n"))
			zzvrt.WaitQuiescent()
			a.Stop()
		},
		Check: func(x *zzvrt.Exec) (string, []zzvrt.Violation) {
			if x.Outcome != "" {
				return x.Outcome, []zzvrt.Violation{{Clause: "no-" + strings.SplitN(x.Outcome, ":", 2)[0], Key: desc, Detail: x.Outcome}}
			}
			if errS != "" {
				return errS, []zzvrt.Violation{{Clause: "setup", Key: desc, Detail: errS}}
			}
			var v []zzvrt.Violation
			left := map[string]bool{}
			for _, n := range x.FS.List(rollDir) {
				left[n] = true
			}
			for i, o := range olds {
				n := fmt.Sprintf("app.log.2000010100000%d", i)
				if o < int64(maxAge)*3600 && !left[n] {
					cl, d := "foreign-or-young-deleted", fmt.Sprintf("%s was last modified %d hours ago, the maximum age is %d hours: it was deleted", n, o/3600, maxAge)
					if prop == "C13" {
						cl = "write-lost"
					}
					v = append(v, zzvrt.Violation{Clause: cl, Key: desc, Detail: d})
				}
			}
			var all strings.Builder
			for _, ts := range []time.Time{retStart, retTick} {
				n := "app.log." + ts.Format("20060102150405")
				if !left[n] {
					v = append(v, zzvrt.Violation{Clause: "live-file-deleted", Key: desc, Detail: "file " + n + " written in this run was deleted (maximum age " + fmt.Sprint(maxAge) + " hours)"})
				} else {
					all.Write(x.FS.Nodes[rollDir+"/"+n].Data)
				}
			}
			for _, id := range []string{"a0\n", "a1\n"} {
				if prop == "C13" && !strings.Contains(all.String(), id) {
					v = append(v, zzvrt.Violation{Clause: "write-lost", Key: desc, Detail: fmt.Sprintf("write %q is in no file of the directory", id)})
				}
			}
			var names []string
			for n := range left {
				names = append(names, n)
			}
			sort.Strings(names)
			return strings.Join(names, ","), v
		},
	}
}

func init() {
	for _, prop := range []string{"C14", "C13"} {
		prop := prop
		registerFamily(Fam{Prop: prop, Name: strings.ToLower(prop) + "/keep-for-ever", Tiers: "qt",
			Count: func(string) int { return len(foreverAges) },
			Make: func(tier string, i int) *zzvrt.Scenario {
				return foreverScenario(prop, foreverAges[i], zzvrt.Bounds{Preempt: 1, Horizon: 5000})
			}})
	}
}

// ---------------------------------------------------------------------------------------------
// C14 - a RELATIVE log directory and a process that changes its working directory (a daemon's
// chdir("/")) between Start and a rotation. Two directories hold a file of the same own name: an
// expired one where the appender was started, a young one under the new working directory. Whatever
// the appender takes "the log directory" to be afterwards, a cleanup only ever removes a file that is
// own-named AND older than the maximum age - judged by the file it actually removes.
// ---------------------------------------------------------------------------------------------

func init() {
	for _, when := range []string{"chdir-after-start", "chdir-after-first-rotation", "no-chdir"} {
		when := when
		register("C14", "c14/relative-directory/"+when, "qt", func(tier string) *zzvrt.Scenario {
			b := zzvrt.Bounds{Preempt: 1, Horizon: 5000}
			var errS string
			mt := map[string]time.Time{}
			return &zzvrt.Scenario{
				Before: func() { resetAll(); errS = ""; mt = map[string]time.Time{} },
				Opts:   zzvrt.RunOpts{Bounds: b, Start: retStart, TickStep: time.Hour},
				Body: func() {
					x := zzvrt.Cur()
					a := &log.RollingFileAppender{FileDir: "logs", FileName: "app.log", Rotation: log.TimeRotation{Interval: time.Hour}, MaxAge: 24}
					zzvrt.Atomic(func() {
						for _, d := range []string{"/A/logs", "/B/logs"} {
							x.FS.MkdirAll(d)
						}
						put := func(p string, t time.Time) { x.FS.Put(p, []byte("keep\n"), t); mt[p] = t }
						put("/A/logs/app.log.20250530100000", retTick.Add(-48*time.Hour))   // expired where the appender starts
						put("/B/logs/app.log.20250530100000", retTick.Add(-time.Minute))    // same name, young, elsewhere
						put("/B/logs/app.log.20250529100000", retTick.Add(-72*time.Hour))   // expired, elsewhere
						put("/B/logs/other.log.20250530100000", retTick.Add(-72*time.Hour)) // not an own name
						x.FS.Cwd = "/A"
						if err := a.Start(); err != nil {
							errS = err.Error()
						}
					})
					if errS != "" {
						return
					}
					if when == "chdir-after-start" {
						x.FS.Chdir("/B")
					}
					x.Now = retTick
					a.Write([]byte("a0\n")) // rotates, spawns the cleanup
					zzvrt.WaitQuiescent()
					if when == "chdir-after-first-rotation" {
						x.FS.Chdir("/B")
					}
					x.Now = retTick.Add(time.Hour)
					a.Write([]byte("a1\n")) // rotates again
					zzvrt.WaitQuiescent()
					a.Stop()
				},
				Check: func(x *zzvrt.Exec) (string, []zzvrt.Violation) {
					key := when
					if x.Outcome != "" {
						return x.Outcome, []zzvrt.Violation{{Clause: "no-" + strings.SplitN(x.Outcome, ":", 2)[0], Key: key, Detail: x.Outcome}}
					}
					if errS != "" {
						return errS, []zzvrt.Violation{{Clause: "setup", Key: key, Detail: errS}}
					}
					var v []zzvrt.Violation
					var removed []string
					own := regexp.MustCompile(`/app\.log\.\d{14}$`)
					for _, c := range x.FS.Log {
						if c.Op != "remove" || c.Err != "" {
							continue
						}
						removed = append(removed, c.Path)
						t, known := mt[c.Path]
						switch {
						case !own.MatchString(c.Path):
							v = append(v, zzvrt.Violation{Clause: "foreign-or-young-deleted", Key: key, Detail: c.Path + " is not a name this appender produces and was removed"})
						case !known:
							v = append(v, zzvrt.Violation{Clause: "live-file-deleted", Key: key, Detail: c.Path + " was written in this run and was removed"})
						case !t.Before(c.At.Add(-24 * time.Hour)):
							v = append(v, zzvrt.Violation{Clause: "foreign-or-young-deleted", Key: key, Detail: fmt.Sprintf("%s, last modified %s, was removed at %s: younger than the maximum age of 24h", c.Path, t.Format("01-02 15:04"), c.At.Format("01-02 15:04"))})
						}
					}
					if when == "no-chdir" {
						if _, ok := x.FS.Nodes["/A/logs/app.log.20250530100000"]; ok {
							v = append(v, zzvrt.Violation{Clause: "expired-own-file-kept", Key: key, Detail: "/A/logs/app.log.20250530100000 (48 h old, max age 24 h) is still there after two rotations"})
						}
					}
					sort.Strings(removed)
					return strings.Join(removed, ","), v
				},
			}
		})
	}
}

// ---------------------------------------------------------------------------------------------
// C14 - two rolling appenders share a directory and differ in their maximum age (1 h and 24 h). Both
// rotate at the same boundary, in either order. Each appender's limit applies to ITS files: a file of
// the 24 h appender that is 2 h old survives, one of the 1 h appender that is 2 h old goes.
// ---------------------------------------------------------------------------------------------

func init() {
	for _, order := range []string{"short-first", "long-first"} {
		order := order
		register("C14", "c14/two-appenders-one-directory/"+order, "qt", func(tier string) *zzvrt.Scenario {
			b := zzvrt.Bounds{Preempt: 2, Horizon: 5000}
			var errS string
			return &zzvrt.Scenario{
				Before: func() { resetAll(); errS = "" },
				Opts:   zzvrt.RunOpts{Bounds: b, Start: retStart, TickStep: time.Hour},
				Body: func() {
					x := zzvrt.Cur()
					short := &log.RollingFileAppender{FileDir: rollDir, FileName: "short.log", Rotation: log.TimeRotation{Interval: time.Hour}, MaxAge: 1}
					long := &log.RollingFileAppender{FileDir: rollDir, FileName: "long.log", Rotation: log.TimeRotation{Interval: time.Hour}, MaxAge: 24}
					zzvrt.Atomic(func() {
						x.FS.MkdirAll(rollDir)
						x.FS.Put(rollDir+"/short.log.20250601080000", []byte("keep\n"), retTick.Add(-2*time.Hour))
						x.FS.Put(rollDir+"/long.log.20250601080000", []byte("keep\n"), retTick.Add(-2*time.Hour))
						x.FS.Put(rollDir+"/long.log.20250529080000", []byte("keep\n"), retTick.Add(-50*time.Hour))
						for _, a := range []*log.RollingFileAppender{short, long} {
							if err := a.Start(); err != nil {
								errS = err.Error()
							}
						}
						x.Now = retTick
					})
					if errS != "" {
						return
					}
					as := []*log.RollingFileAppender{short, long}
					if order == "long-first" {
						as = []*log.RollingFileAppender{long, short}
					}
					for _, a := range as {
						a.Write([]byte("w\n")) // rotates, spawns / schedules its cleanup
					}
					zzvrt.WaitQuiescent()
					short.Stop()
					long.Stop()
				},
				Check: func(x *zzvrt.Exec) (string, []zzvrt.Violation) {
					key := order
					if x.Outcome != "" {
						return x.Outcome, []zzvrt.Violation{{Clause: "no-" + strings.SplitN(x.Outcome, ":", 2)[0], Key: key, Detail: x.Outcome}}
					}
					if errS != "" {
						return errS, []zzvrt.Violation{{Clause: "setup", Key: key, Detail: errS}}
					}
					var v []zzvrt.Violation
					names := x.FS.List(rollDir)
					has := map[string]bool{}
					for _, n := range names {
						has[n] = true
					}
					if !has["long.log.20250601080000"] {
						v = append(v, zzvrt.Violation{Clause: "foreign-or-young-deleted", Key: key, Detail: "long.log.20250601080000 is 2 h old, its appender keeps files for 24 h: it was deleted (another appender's limit applied?)"})
					}
					if has["short.log.20250601080000"] {
						v = append(v, zzvrt.Violation{Clause: "expired-own-file-kept", Key: key, Detail: "short.log.20250601080000 is 2 h old, its appender keeps files for 1 h: it is still there"})
					}
					if has["long.log.20250529080000"] {
						v = append(v, zzvrt.Violation{Clause: "expired-own-file-kept", Key: key, Detail: "long.log.20250529080000 is 50 h old, its appender keeps files for 24 h: it is still there"})
					}
					return strings.Join(names, ","), v
				},
			}
		})
	}
}
