package main

import (
	"context"
	"fmt"
	"sort"
	"strings"
	"time"

	log "github.com/go-spring/log"
	zzvrt "github.com/go-spring/log/zzvrt"
)

// ---------------------------------------------------------------------------------------------
// Every logger kind reachable through Refresh, on the in-memory filesystem (C05b, C01d, and the
// "every registered logger type can be instantiated" clause of C15): configure the root logger as
// the kind under test, log events below / inside the logger's range plus one raw write through
// the named handle, Destroy (twice). All interleavings with an asynchronous worker (P <= 2).
// Oracles: nothing panics or blocks; when Destroy returns every accepted item is readable from the
// target; no descriptor stays open; (C01) each event is in exactly the file its level selects.
// ---------------------------------------------------------------------------------------------

var rootHandle = log.GetLogger("root")

type kindCfg struct {
	name   string
	conf   map[string]string
	target string // "console" | "files" | "none"
	// expected file per level name for the rolling "separate" kinds ("" = any file)
	fileFor map[string]string
	discard bool // items may be discarded by policy (then only no-duplicate / whole-line is checked)
}

func kindConfigs() []kindCfg {
	base := func(m map[string]string) map[string]string {
		m["appender.unused.type"] = "Console"
		m["logger.root.level"] = "INFO"
		return m
	}
	roll := func(separate, async bool, policy string, layout bool) kindCfg {
		m := base(map[string]string{
			"logger.root.type": "RollingFile", "logger.root.fileDir": "/logs", "logger.root.fileName": "app.log",
			"logger.root.rotation": "h", "logger.root.separate": fmt.Sprint(separate), "logger.root.async": fmt.Sprint(async),
			"logger.root.maxAge": "24",
		})
		name := "RollingFile"
		if separate {
			name += "+separate"
		}
		if async {
			m["logger.root.bufferSize"] = "100"
			m["logger.root.bufferFullPolicy"] = policy
			name += "+async" + policy
		}
		if layout {
			m["logger.root.layout.type"] = "JSONLayout"
			name += "+layout"
		}
		k := kindCfg{name: name, conf: m, target: "files"}
		if separate {
			k.fileFor = map[string]string{"INFO": "app.log.", "ERROR": "app.log.wf.", "WARN": "app.log.wf."}
		}
		return k
	}
	return []kindCfg{
		{name: "Logger->File", target: "files", conf: base(map[string]string{
			"appender.f.type": "File", "appender.f.fileDir": "/logs", "appender.f.fileName": "app.log",
			"logger.root.type": "Logger", "logger.root.appenderRef.ref": "f"})},
		{name: "Logger+layout->File", target: "files", conf: base(map[string]string{
			"appender.f.type": "File", "appender.f.fileDir": "/logs", "appender.f.fileName": "app.log",
			"logger.root.type": "Logger", "logger.root.layout.type": "JSONLayout", "logger.root.appenderRef.ref": "f"})},
		{name: "AsyncLogger(Block)->File", target: "files", conf: base(map[string]string{
			"appender.f.type": "File", "appender.f.fileDir": "/logs", "appender.f.fileName": "app.log",
			"logger.root.type": "AsyncLogger", "logger.root.bufferSize": "100", "logger.root.bufferFullPolicy": "Block", "logger.root.appenderRef.ref": "f"})},
		{name: "AsyncLogger(Discard)+layout->Rolling", target: "files", conf: base(map[string]string{
			"appender.f.type": "RollingFile", "appender.f.fileDir": "/logs", "appender.f.fileName": "app.log", "appender.f.rotation": "h", "appender.f.maxAge": "24",
			"logger.root.type": "AsyncLogger", "logger.root.bufferSize": "100", "logger.root.layout.type": "TextLayout", "logger.root.appenderRef.ref": "f"})},
		{name: "Console", target: "console", conf: base(map[string]string{"logger.root.type": "Console"})},
		{name: "File", target: "files", conf: base(map[string]string{"logger.root.type": "File", "logger.root.fileDir": "/logs", "logger.root.fileName": "app.log"})},
		{name: "Discard", target: "none", conf: base(map[string]string{"logger.root.type": "Discard"})},
		roll(false, false, "", false),
		roll(true, false, "", false),
		roll(false, false, "", true),
		roll(false, true, "Block", false),
		roll(true, true, "Block", false),
		roll(false, true, "Discard", false),
		roll(false, true, "DiscardOldest", true),
	}
}

type kindObs struct {
	err       string
	console   []string
	destroyed bool
}

type kindEvent struct {
	level   string
	payload string
}

var kindEvents = []kindEvent{{"DEBUG", "kd-below"}, {"INFO", "ki-info"}, {"ERROR", "ke-error"}, {"INFO", "ki-second"}}

func kindEmit(ev kindEvent) {
	ctx := context.Background()
	switch ev.level {
	case "DEBUG":
		log.Debugf(ctx, c03Tags[0], "%s", ev.payload)
	case "INFO":
		log.Info(ctx, c03Tags[0], log.String("k", ev.payload))
	case "ERROR":
		log.Errorf(ctx, c03Tags[1], "%s", ev.payload)
	}
}

const kindRaw = "RAW-BYTES-1\n"

func kindScenario(prop string, k kindCfg, b zzvrt.Bounds) *zzvrt.Scenario {
	var o kindObs
	return &zzvrt.Scenario{
		Desc:   k.name,
		Before: func() { resetAll(); o = kindObs{} },
		Opts:   zzvrt.RunOpts{Bounds: b},
		Body: func() {
			x := zzvrt.Cur()
			sink := &slowSink{}
			zzvrt.Atomic(func() {
				log.TimeNow = func(context.Context) time.Time { return fixedT }
				log.Stdout = sink
				x.FS.MkdirAll("/logs")
				if err := log.Refresh(k.conf); err != nil {
					o.err = "refresh: " + err.Error()
				}
			})
			if o.err != "" {
				return
			}
			for i, ev := range kindEvents {
				kindEmit(ev)
				if i == 1 {
					rootHandle.Write([]byte(kindRaw))
				}
			}
			log.Destroy()
			o.destroyed = true
			o.console = append([]string(nil), sink.writes...)
			log.Destroy() // idempotent
		},
		Check: func(x *zzvrt.Exec) (string, []zzvrt.Violation) {
			key := k.name
			var v []zzvrt.Violation
			add := func(p, clause, detail string) {
				if p == prop || p == "*" {
					v = append(v, zzvrt.Violation{Clause: clause, Key: key, Detail: detail})
				}
			}
			if x.Outcome != "" {
				add("*", "no-"+strings.SplitN(x.Outcome, ":", 2)[0], x.Outcome+" "+firstLines(x.Stack, 12))
				return x.Outcome, v
			}
			if o.err != "" {
				add("*", "kind-not-instantiable", o.err)
				return o.err, v
			}
			files := map[string]string{}
			var names []string
			for _, n := range x.FS.List("/logs") {
				files[n] = string(x.FS.Nodes["/logs/"+n].Data)
				names = append(names, n)
			}
			sort.Strings(names)
			all := strings.Join(o.console, "")
			if k.target == "files" {
				all = ""
				for _, n := range names {
					all += files[n]
				}
			}
			count := func(s string) int { return strings.Count(all, s) }
			for _, ev := range kindEvents {
				n := count(ev.payload)
				switch {
				case k.target == "none":
				case ev.level == "DEBUG":
					if n != 0 {
						add("C01", "below-level-delivered", fmt.Sprintf("event %q below the logger's level reached the target", ev.payload))
					}
				case n == 0 && !k.discard:
					add("C05", "not-flushed", fmt.Sprintf("event %q (%s) accepted before Destroy is not in the target after Destroy returned (target=%q)", ev.payload, ev.level, all))
					add("C01", "enabled-not-delivered", fmt.Sprintf("event %q (%s) never reached the target (target=%q)", ev.payload, ev.level, all))
				case n > 1:
					add("C01", "delivered-twice", fmt.Sprintf("event %q is %d times in the target", ev.payload, n))
				}
				if pfx := k.fileFor[ev.level]; pfx != "" && n == 1 {
					for _, fn := range names {
						if strings.Contains(files[fn], ev.payload) {
							isWf := strings.HasPrefix(fn, "app.log.wf.")
							if (pfx == "app.log.wf.") != isWf {
								add("C01", "wrong-file", fmt.Sprintf("%s event %q is in %s", ev.level, ev.payload, fn))
							}
						}
					}
				}
			}
			if k.target != "none" {
				if n := count(kindRaw); n == 0 {
					add("C05", "raw-not-flushed", fmt.Sprintf("raw write accepted before Destroy is not in the target (target=%q)", all))
					add("C12", "raw-missing", fmt.Sprintf("raw write through the named handle never reached the target (target=%q)", all))
				} else if k.fileFor == nil && n > 1 {
					add("C12", "raw-twice", fmt.Sprintf("raw write is %d times in the target", n))
				} else if k.fileFor != nil {
					// separate: the raw bytes go to every appender of the logger (both files), once each
					for _, fn := range names {
						if c := strings.Count(files[fn], kindRaw); c != 1 {
							add("C12", "raw-per-appender", fmt.Sprintf("file %s holds the raw write %d times (want once per appender)", fn, c))
						}
					}
				}
			}
			for _, l := range strings.SplitAfter(all, "\n") {
				if l != "" && !strings.HasSuffix(l, "\n") {
					add("C05", "partial-line", fmt.Sprintf("target ends with a partial line %q", l))
				}
			}
			if n := x.FS.OpenCount("/logs"); n != 0 {
				add("C05", "fd-after-destroy", fmt.Sprintf("%d descriptor(s) still open under /logs after Destroy", n))
			}
			return fmt.Sprintf("%q|%v", all, names), v
		},
	}
}

func firstLines(s string, n int) string {
	ls := strings.Split(s, "\n")
	if len(ls) > n {
		ls = ls[:n]
	}
	return strings.Join(ls, " | ")
}

func init() {
	for _, prop := range []string{"C05", "C01", "C12", "C15"} {
		prop := prop
		registerFamily(Fam{Prop: prop, Name: strings.ToLower(prop) + "/logger-kinds", Tiers: "qt",
			Count: func(string) int { return len(kindConfigs()) },
			Make: func(tier string, i int) *zzvrt.Scenario {
				b := zzvrt.Bounds{Preempt: 2, Horizon: 20000}
				if tier == "thorough" {
					b.Preempt = 3
				}
				k := kindConfigs()[i]
				k.discard = strings.Contains(k.name, "Discard")
				return kindScenario(prop, k, b)
			}})
	}
}
