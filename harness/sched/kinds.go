package main

import (
	"context"
	"fmt"
	"sort"
	"strings"
	"time"

	log "github.com/go-spring/log"
	zzvrt "github.com/go-spring/log/zzvrt"
)

// ---------------------------------------------------------------------------------------------
// Every logger kind reachable through Refresh, on the in-memory filesystem (C05b, C01d, and the
// "every registered logger type can be instantiated" clause of C15): configure the root logger as
// the kind under test, log events below / inside the logger's range plus one raw write through
// the named handle, Destroy (twice). All interleavings with an asynchronous worker (P <= 2).
// Oracles: nothing panics or blocks; when Destroy returns every accepted item is readable from the
// target; no descriptor stays open; (C01) each event is in exactly the file its level selects.
// ---------------------------------------------------------------------------------------------

var rootHandle = log.GetLogger("root")

type kindCfg struct {
	name   string
	conf   map[string]string
	target string // "console" | "files" | "none"
	// expected file per level name for the rolling "separate" kinds ("" = any file)
	fileFor map[string]string
	discard bool // items may be discarded by policy (then only no-duplicate / whole-line is checked)
	shared  bool // two loggers share one appender: Destroy's stop order is explored (map-order seam)
}

func kindConfigs() []kindCfg {
	base := func(m map[string]string) map[string]string {
		m["appender.unused.type"] = "Console"
		m["logger.root.level"] = "INFO"
		return m
	}
	roll := func(separate, async bool, policy string, layout bool) kindCfg {
		m := base(map[string]string{
			"logger.root.type": "RollingFile", "logger.root.fileDir": "/logs", "logger.root.fileName": "app.log",
			"logger.root.rotation": "h", "logger.root.separate": fmt.Sprint(separate), "logger.root.async": fmt.Sprint(async),
			"logger.root.maxAge": "24",
		})
		name := "RollingFile"
		if separate {
			name += "+separate"
		}
		if async {
			m["logger.root.bufferSize"] = "100"
			m["logger.root.bufferFullPolicy"] = policy
			name += "+async" + policy
		}
		if layout {
			m["logger.root.layout.type"] = "JSONLayout"
			name += "+layout"
		}
		k := kindCfg{name: name, conf: m, target: "files"}
		if separate {
			k.fileFor = map[string]string{"INFO": "app.log.", "ERROR": "app.log.wf.", "WARN": "app.log.wf."}
		}
		return k
	}
	return []kindCfg{
		{name: "Logger->File", target: "files", conf: base(map[string]string{
			"appender.f.type": "File", "appender.f.fileDir": "/logs", "appender.f.fileName": "app.log",
			"logger.root.type": "Logger", "logger.root.appenderRef.ref": "f"})},
		{name: "Logger+layout->File", target: "files", conf: base(map[string]string{
			"appender.f.type": "File", "appender.f.fileDir": "/logs", "appender.f.fileName": "app.log",
			"logger.root.type": "Logger", "logger.root.layout.type": "JSONLayout", "logger.root.appenderRef.ref": "f"})},
		{name: "AsyncLogger(Block)->File", target: "files", conf: base(map[string]string{
			"appender.f.type": "File", "appender.f.fileDir": "/logs", "appender.f.fileName": "app.log",
			"logger.root.type": "AsyncLogger", "logger.root.bufferSize": "100", "logger.root.bufferFullPolicy": "Block", "logger.root.appenderRef.ref": "f"})},
		{name: "AsyncLogger(Discard)+layout->Rolling", target: "files", conf: base(map[string]string{
			"appender.f.type": "RollingFile", "appender.f.fileDir": "/logs", "appender.f.fileName": "app.log", "appender.f.rotation": "h", "appender.f.maxAge": "24",
			"logger.root.type": "AsyncLogger", "logger.root.bufferSize": "100", "logger.root.layout.type": "TextLayout", "logger.root.appenderRef.ref": "f"})},
		{name: "Console", target: "console", conf: base(map[string]string{"logger.root.type": "Console"})},
		{name: "File", target: "files", conf: base(map[string]string{"logger.root.type": "File", "logger.root.fileDir": "/logs", "logger.root.fileName": "app.log"})},
		{name: "Discard", target: "none", conf: base(map[string]string{"logger.root.type": "Discard"})},
		roll(false, false, "", false),
		roll(true, false, "", false),
		roll(false, false, "", true),
		roll(false, true, "Block", false),
		roll(true, true, "Block", false),
		roll(false, true, "Discard", false),
		roll(false, true, "DiscardOldest", true),
		// one appender shared by two loggers (appenders belong to the configuration, not to a logger): whatever the
		// order in which Destroy stops the loggers (map-order seam), the asynchronous one still flushes into it
		{name: "shared File: Logger + AsyncLogger(Block)", target: "files", shared: true, conf: base(map[string]string{
			"appender.f.type": "File", "appender.f.fileDir": "/logs", "appender.f.fileName": "app.log",
			"logger.root.type": "Logger", "logger.root.appenderRef.ref": "f",
			"logger.biz.type": "AsyncLogger", "logger.biz.level": "INFO", "logger.biz.tags": "_c03_b", "logger.biz.bufferSize": "100", "logger.biz.bufferFullPolicy": "Block", "logger.biz.appenderRef.ref": "f"})},
		{name: "shared Rolling: AsyncLogger(Block) + AsyncLogger(Block)", target: "files", shared: true, conf: base(map[string]string{
			"appender.f.type": "RollingFile", "appender.f.fileDir": "/logs", "appender.f.fileName": "app.log", "appender.f.rotation": "h", "appender.f.maxAge": "24",
			"logger.root.type": "AsyncLogger", "logger.root.bufferSize": "100", "logger.root.bufferFullPolicy": "Block", "logger.root.appenderRef.ref": "f",
			"logger.zed.type": "AsyncLogger", "logger.zed.level": "INFO", "logger.zed.tags": "_c03_b", "logger.zed.bufferSize": "100", "logger.zed.bufferFullPolicy": "Block", "logger.zed.appenderRef.ref": "f"})},
		{name: "shared Console: AsyncLogger(Block) + Logger", target: "console", shared: true, conf: base(map[string]string{
			"appender.c.type":  "Console",
			"logger.root.type": "AsyncLogger", "logger.root.bufferSize": "100", "logger.root.bufferFullPolicy": "Block", "logger.root.appenderRef.ref": "c",
			"logger.zed.type": "Logger", "logger.zed.level": "INFO", "logger.zed.tags": "_c03_b", "logger.zed.appenderRef.ref": "c"})},
	}
}

type kindObs struct {
	err       string
	console   []string
	destroyed bool
}

type kindEvent struct {
	level   string
	payload string
}

var kindEvents = []kindEvent{{"DEBUG", "kd-below"}, {"INFO", "ki-info"}, {"ERROR", "ke-error"}, {"INFO", "ki-second"}}

func kindEmit(ev kindEvent) {
	ctx := context.Background()
	switch ev.level {
	case "DEBUG":
		log.Debugf(ctx, c03Tags[0], "%s", ev.payload)
	case "INFO":
		log.Info(ctx, c03Tags[0], log.String("k", ev.payload))
	case "ERROR":
		log.Errorf(ctx, c03Tags[1], "%s", ev.payload)
	}
}

const kindRaw = "RAW-BYTES-1\n"

func kindScenario(prop string, k kindCfg, b zzvrt.Bounds) *zzvrt.Scenario {
	var o kindObs
	return &zzvrt.Scenario{
		Desc:   k.name,
		Before: func() { resetAll(); o = kindObs{} },
		Opts:   zzvrt.RunOpts{Bounds: b},
		Body: func() {
			x := zzvrt.Cur()
			sink := &slowSink{}
			zzvrt.Atomic(func() {
				log.TimeNow = func(context.Context) time.Time { return fixedT }
				log.Stdout = sink
				x.FS.MkdirAll("/logs")
				if err := log.Refresh(k.conf); err != nil {
					o.err = "refresh: " + err.Error()
				}
			})
			if o.err != "" {
				return
			}
			for i, ev := range kindEvents {
				kindEmit(ev)
				if i == 1 {
					rootHandle.Write([]byte(kindRaw))
				}
			}
			log.Destroy()
			o.destroyed = true
			o.console = append([]string(nil), sink.writes...)
			log.Destroy() // idempotent
		},
		Check: func(x *zzvrt.Exec) (string, []zzvrt.Violation) {
			key := k.name
			var v []zzvrt.Violation
			add := func(p, clause, detail string) {
				if p == prop || p == "*" {
					v = append(v, zzvrt.Violation{Clause: clause, Key: key, Detail: detail})
				}
			}
			if x.Outcome != "" {
				add("*", "no-"+strings.SplitN(x.Outcome, ":", 2)[0], x.Outcome+" "+firstLines(x.Stack, 12))
				return x.Outcome, v
			}
			if o.err != "" {
				add("*", "kind-not-instantiable", o.err)
				return o.err, v
			}
			files := map[string]string{}
			var names []string
			for _, n := range x.FS.List("/logs") {
				files[n] = string(x.FS.Nodes["/logs/"+n].Data)
				names = append(names, n)
			}
			sort.Strings(names)
			all := strings.Join(o.console, "")
			if k.target == "files" {
				all = ""
				for _, n := range names {
					all += files[n]
				}
			}
			count := func(s string) int { return strings.Count(all, s) }
			for _, ev := range kindEvents {
				n := count(ev.payload)
				switch {
				case k.target == "none":
				case ev.level == "DEBUG":
					if n != 0 {
						add("C01", "below-level-delivered", fmt.Sprintf("event %q below the logger's level reached the target", ev.payload))
					}
				case n == 0 && !k.discard:
					add("C05", "not-flushed", fmt.Sprintf("event %q (%s) accepted before Destroy is not in the target after Destroy returned (target=%q)", ev.payload, ev.level, all))
					add("C01", "enabled-not-delivered", fmt.Sprintf("event %q (%s) never reached the target (target=%q)", ev.payload, ev.level, all))
				case n > 1:
					add("C01", "delivered-twice", fmt.Sprintf("event %q is %d times in the target", ev.payload, n))
				}
				if pfx := k.fileFor[ev.level]; pfx != "" && n == 1 {
					for _, fn := range names {
						if strings.Contains(files[fn], ev.payload) {
							isWf := strings.HasPrefix(fn, "app.log.wf.")
							if (pfx == "app.log.wf.") != isWf {
								add("C01", "wrong-file", fmt.Sprintf("%s event %q is in %s", ev.level, ev.payload, fn))
							}
						}
					}
				}
			}
			if k.target != "none" {
				if n := count(kindRaw); n == 0 {
					add("C05", "raw-not-flushed", fmt.Sprintf("raw write accepted before Destroy is not in the target (target=%q)", all))
					add("C12", "raw-missing", fmt.Sprintf("raw write through the named handle never reached the target (target=%q)", all))
				} else if k.fileFor == nil && n > 1 {
					add("C12", "raw-twice", fmt.Sprintf("raw write is %d times in the target", n))
				} else if k.fileFor != nil {
					// separate: the raw bytes go to every appender of the logger (both files), once each
					for _, fn := range names {
						if c := strings.Count(files[fn], kindRaw); c != 1 {
							add("C12", "raw-per-appender", fmt.Sprintf("file %s holds the raw write %d times (want once per appender)", fn, c))
						}
					}
				}
			}
			// C06: everything here was submitted by ONE goroutine (event, event, raw write, event, event): in every
			// file, and on the console, what is present appears in submission order - events and raw writes alike
			order := []string{kindEvents[1].payload, kindRaw, kindEvents[2].payload, kindEvents[3].payload}
			targets := map[string]string{"console": strings.Join(o.console, "")}
			if k.target == "files" {
				targets = files
			}
			if k.shared {
				targets = nil // two loggers behind one sink: the statement orders the items of ONE logger
			}
			for tn, content := range targets {
				last, lastItem := -1, ""
				for _, it := range order {
					if i := strings.Index(content, it); i >= 0 {
						if i < last {
							add("C06", "producer-order", fmt.Sprintf("%s: %q is ahead of %q, which the same goroutine submitted earlier (content=%q)", tn, strings.TrimSpace(it), strings.TrimSpace(lastItem), content))
						}
						last, lastItem = i, it
					}
				}
			}
			for _, l := range strings.SplitAfter(all, "\n") {
				if l != "" && !strings.HasSuffix(l, "\n") {
					add("C05", "partial-line", fmt.Sprintf("target ends with a partial line %q", l))
				}
			}
			if n := x.FS.OpenCount("/logs"); n != 0 {
				add("C05", "fd-after-destroy", fmt.Sprintf("%d descriptor(s) still open under /logs after Destroy", n))
			}
			return fmt.Sprintf("%q|%v", all, names), v
		},
	}
}

func firstLines(s string, n int) string {
	ls := strings.Split(s, "\n")
	if len(ls) > n {
		ls = ls[:n]
	}
	return strings.Join(ls, " | ")
}

func init() {
	for _, prop := range []string{"C05", "C01", "C12", "C15", "C06"} {
		prop := prop
		registerFamily(Fam{Prop: prop, Name: strings.ToLower(prop) + "/logger-kinds", Tiers: "qt",
			Count: func(string) int { return len(kindConfigs()) },
			Make: func(tier string, i int) *zzvrt.Scenario {
				b := zzvrt.Bounds{Preempt: 2, Horizon: 20000}
				if tier == "thorough" {
					b.Preempt = 3
				}
				k := kindConfigs()[i]
				k.discard = strings.Contains(k.name, "Discard")
				if k.shared {
					b.Env[zzvrt.SeamMapOrder] = 1
					b.Preempt-- // quick 1, thorough 2: the stop order is the dimension that matters here
				}
				return kindScenario(prop, k, b)
			}})
	}
}

// ---------------------------------------------------------------------------------------------
// C05 after a Refresh that FAILED half-way: file creations fail (F <= 1, thorough 2) at any point of
// Refresh, for every logger kind that touches files. Whatever Refresh managed to build or start,
// the Destroy that follows returns (no blocked call, no panic), a second Refresh of the same
// configuration is then possible, and what is logged through it is readable after its Destroy.
// ---------------------------------------------------------------------------------------------

type failedStartObs struct {
	err1, err2 string
	logged     bool
	done       bool
}

func failedStartScenario(k kindCfg, b zzvrt.Bounds) *zzvrt.Scenario {
	var o failedStartObs
	return &zzvrt.Scenario{
		Desc:   k.name,
		Before: func() { resetAll(); o = failedStartObs{} },
		Opts:   zzvrt.RunOpts{Bounds: b},
		Body: func() {
			x := zzvrt.Cur()
			x.FS.FaultOps = map[string]bool{"open": true}
			sink := &slowSink{}
			zzvrt.Atomic(func() {
				log.TimeNow = func(context.Context) time.Time { return fixedT }
				log.Stdout = sink
				x.FS.MkdirAll("/logs")
			})
			if err := log.Refresh(k.conf); err != nil {
				o.err1 = err.Error()
			}
			log.Destroy()
			if o.err1 != "" {
				if err := log.Refresh(k.conf); err != nil {
					o.err2 = err.Error()
				} else {
					kindEmit(kindEvents[1])
					o.logged = true
				}
				log.Destroy()
			}
			o.done = true
		},
		Check: func(x *zzvrt.Exec) (string, []zzvrt.Violation) {
			key := k.name
			if x.Outcome != "" {
				return x.Outcome, []zzvrt.Violation{{Clause: "no-" + strings.SplitN(x.Outcome, ":", 2)[0], Key: key,
					Detail: fmt.Sprintf("first Refresh: %q; %s %s", trunc(o.err1, 120), x.Outcome, firstLines(x.Stack, 12))}}
			}
			var v []zzvrt.Violation
			_, env := x.Used()
			if o.err2 != "" && env[zzvrt.SeamFault] < 2 {
				v = append(v, zzvrt.Violation{Clause: "no-recovery-after-failed-refresh", Key: key, Detail: fmt.Sprintf("after a failed Refresh (%s) and Destroy, the same configuration is rejected without any further fault: %s", trunc(o.err1, 120), trunc(o.err2, 200))})
			}
			if o.logged && k.target == "files" {
				all := ""
				for _, n := range x.FS.List("/logs") {
					all += string(x.FS.Nodes["/logs/"+n].Data)
				}
				if !strings.Contains(all, kindEvents[1].payload) {
					v = append(v, zzvrt.Violation{Clause: "not-flushed", Key: key, Detail: fmt.Sprintf("event logged after the second Refresh is not in the target after Destroy (target=%q)", all)})
				}
			}
			return fmt.Sprintf("%v|%v|%v", o.err1 != "", o.err2 != "", o.logged), v
		},
	}
}

func trunc(s string, n int) string {
	if len(s) > n {
		return s[:n] + "..."
	}
	return s
}

func failedStartConfigs() []kindCfg {
	var out []kindCfg
	for _, k := range kindConfigs() {
		if k.target == "files" {
			out = append(out, k)
		}
	}
	// an asynchronous logger next to a second logger and two file appenders
	out = append(out, kindCfg{name: "AsyncLogger+Logger->File,Rolling", target: "files", conf: map[string]string{
		"appender.f.type": "File", "appender.f.fileDir": "/logs", "appender.f.fileName": "app.log",
		"appender.r.type": "RollingFile", "appender.r.fileDir": "/logs", "appender.r.fileName": "roll.log", "appender.r.rotation": "h", "appender.r.maxAge": "24",
		"logger.root.type": "AsyncLogger", "logger.root.bufferSize": "100", "logger.root.appenderRef.ref": "f",
		"logger.biz.type": "Logger", "logger.biz.tags": "_c03_b", "logger.biz.appenderRef.ref": "r"}})
	return out
}

func init() {
	registerFamily(Fam{Prop: "C05", Name: "c05/destroy-after-failed-refresh", Tiers: "qt",
		Count: func(string) int { return len(failedStartConfigs()) },
		Make: func(tier string, i int) *zzvrt.Scenario {
			b := zzvrt.Bounds{Preempt: 1, Horizon: 20000}
			b.Env[zzvrt.SeamFault] = 1
			if tier == "thorough" {
				b.Preempt = 2
				b.Env[zzvrt.SeamFault] = 2
			}
			return failedStartScenario(failedStartConfigs()[i], b)
		}})
}

// ---------------------------------------------------------------------------------------------
// C01 on the rolling-file logger with a separate .wf file, for every shape of the logger's own range
// (lower bound below / at / above WARN, bounded and unbounded), synchronous and asynchronous: an event
// is in exactly one file, once, iff the logger's range contains its level - the .wf file for WARN and
// above, the normal file below - and in no file otherwise.
// ---------------------------------------------------------------------------------------------

var sepLevels = []string{"", "TRACE", "INFO", "WARN", "ERROR", "FATAL", "DEBUG~ERROR", "WARN~PANIC", "ERROR~FATAL", "INFO~WARN", "TRACE~INFO"}

var sepEvents = []struct {
	name string
	code int
	emit func(ctx context.Context, id string)
}{
	{"TRACE", 100, func(ctx context.Context, id string) { log.Tracef(ctx, c03Tags[0], "%s", id) }},
	{"DEBUG", 200, func(ctx context.Context, id string) { log.Debugf(ctx, c03Tags[0], "%s", id) }},
	{"INFO", 300, func(ctx context.Context, id string) { log.Infof(ctx, c03Tags[0], "%s", id) }},
	{"WARN", 400, func(ctx context.Context, id string) { log.Warnf(ctx, c03Tags[1], "%s", id) }},
	{"ERROR", 500, func(ctx context.Context, id string) { log.Errorf(ctx, c03Tags[1], "%s", id) }},
	{"PANIC", 600, func(ctx context.Context, id string) { log.Panicf(ctx, c03Tags[2], "%s", id) }},
	{"FATAL", 700, func(ctx context.Context, id string) { log.Fatalf(ctx, c03Tags[2], "%s", id) }},
}

var sepCodes = map[string]int{"": 0, "TRACE": 100, "DEBUG": 200, "INFO": 300, "WARN": 400, "ERROR": 500, "PANIC": 600, "FATAL": 700, "MAX": 999}

func sepScenario(level string, separate, async bool, b zzvrt.Bounds) *zzvrt.Scenario {
	var rerr string
	done := false
	conf := map[string]string{
		"appender.unused.type": "Console",
		"logger.root.type":     "RollingFile", "logger.root.fileDir": "/logs", "logger.root.fileName": "app.log",
		"logger.root.rotation": "h", "logger.root.separate": fmt.Sprint(separate), "logger.root.async": fmt.Sprint(async), "logger.root.maxAge": "24",
	}
	if level != "" {
		conf["logger.root.level"] = level
	}
	if async {
		conf["logger.root.bufferSize"], conf["logger.root.bufferFullPolicy"] = "100", "Block"
	}
	lo, hi := level, "MAX"
	if i := strings.Index(level, "~"); i >= 0 {
		lo, hi = level[:i], level[i+1:]
	}
	min, max := sepCodes[lo], sepCodes[hi]
	return &zzvrt.Scenario{
		Before: func() { resetAll(); rerr, done = "", false },
		Opts:   zzvrt.RunOpts{Bounds: b},
		Body: func() {
			x := zzvrt.Cur()
			zzvrt.Atomic(func() {
				log.TimeNow = func(context.Context) time.Time { return fixedT }
				log.Stdout = &slowSink{}
				x.FS.MkdirAll("/logs")
				if err := log.Refresh(conf); err != nil {
					rerr = err.Error()
				}
			})
			if rerr != "" {
				return
			}
			for _, ev := range sepEvents {
				ev.emit(context.Background(), "sep-"+ev.name+"-id")
			}
			log.Destroy()
			done = true
		},
		Check: func(x *zzvrt.Exec) (string, []zzvrt.Violation) {
			key := fmt.Sprintf("RollingFile level=%q separate=%v async=%v", level, separate, async)
			if x.Outcome != "" {
				return x.Outcome, []zzvrt.Violation{{Clause: "no-" + strings.SplitN(x.Outcome, ":", 2)[0], Key: key, Detail: x.Outcome + " " + firstLines(x.Stack, 10)}}
			}
			if rerr != "" {
				return rerr, []zzvrt.Violation{{Clause: "kind-not-instantiable", Key: key, Detail: rerr}}
			}
			var v []zzvrt.Violation
			var normal, wf string
			for _, n := range x.FS.List("/logs") {
				if strings.HasPrefix(n, "app.log.wf.") {
					wf += string(x.FS.Nodes["/logs/"+n].Data)
				} else {
					normal += string(x.FS.Nodes["/logs/"+n].Data)
				}
			}
			for _, ev := range sepEvents {
				id := "sep-" + ev.name + "-id"
				wantN, wantW := 0, 0
				if ev.code >= min && ev.code < max {
					if separate && ev.code >= 400 {
						wantW = 1
					} else {
						wantN = 1
					}
				}
				if gn, gw := strings.Count(normal, id), strings.Count(wf, id); gn != wantN || gw != wantW {
					v = append(v, zzvrt.Violation{Clause: "rolling-logger-routing", Key: key,
						Detail: fmt.Sprintf("%s event: %d time(s) in the normal file, %d time(s) in the .wf file; want %d / %d (logger range [%d,%d))", ev.name, gn, gw, wantN, wantW, min, max)})
				}
			}
			return fmt.Sprintf("%v|%q|%q", done, normal, wf), v
		},
	}
}

func init() {
	type sc struct {
		level           string
		separate, async bool
	}
	var all []sc
	for _, l := range sepLevels {
		for _, sep := range []bool{true, false} {
			for _, as := range []bool{false, true} {
				all = append(all, sc{l, sep, as})
			}
		}
	}
	registerFamily(Fam{Prop: "C01", Name: "c01/rolling-logger-levels", Tiers: "qt",
		Count: func(string) int { return len(all) },
		Make: func(tier string, i int) *zzvrt.Scenario {
			b := zzvrt.Bounds{Preempt: 1, Horizon: 20000}
			if tier == "thorough" {
				b.Preempt = 2
			}
			return sepScenario(all[i].level, all[i].separate, all[i].async, b)
		}})
}

// ---------------------------------------------------------------------------------------------
// The overflow policies through every asynchronous logger kind that Refresh can build (C06: the
// statement is about "an asynchronous logger", not about one Go type; C04: Block delivers everything).
// The disk is stalled (write gate closed), 100 raw lines fill the buffer, then a producer submits three
// more items (raw, event, raw) while the worker may take at most one item and wait for the disk:
//   Block          nothing is dropped: once the disk is back everything (103 items) is in the files;
//   Discard        the calls return although the disk is stalled; no buffered line is ever dropped;
//   DiscardOldest  the calls return; the three arriving items are all kept, at most 3 lines go, each the oldest
//                  still buffered at that moment (so all of them near the front).
// ---------------------------------------------------------------------------------------------

type overflowKind struct {
	name string
	conf map[string]string
}

func overflowKinds() []overflowKind {
	var out []overflowKind
	for _, pol := range []string{"Block", "Discard", "DiscardOldest"} {
		out = append(out,
			overflowKind{"RollingFile+async" + pol, map[string]string{
				"logger.root.type": "RollingFile", "logger.root.fileDir": "/logs", "logger.root.fileName": "app.log", "logger.root.rotation": "h",
				"logger.root.async": "true", "logger.root.bufferSize": "100", "logger.root.bufferFullPolicy": pol, "logger.root.maxAge": "24", "logger.root.level": "INFO"}},
			overflowKind{"RollingFile+separate+async" + pol, map[string]string{
				"logger.root.type": "RollingFile", "logger.root.fileDir": "/logs", "logger.root.fileName": "app.log", "logger.root.rotation": "h", "logger.root.separate": "true",
				"logger.root.async": "true", "logger.root.bufferSize": "100", "logger.root.bufferFullPolicy": pol, "logger.root.maxAge": "24", "logger.root.level": "INFO"}},
			overflowKind{"AsyncLogger(" + pol + ")->File", map[string]string{
				"appender.f.type": "File", "appender.f.fileDir": "/logs", "appender.f.fileName": "app.log",
				"logger.root.type": "AsyncLogger", "logger.root.bufferSize": "100", "logger.root.bufferFullPolicy": pol, "logger.root.appenderRef.ref": "f", "logger.root.level": "INFO"}},
		)
	}
	for _, k := range out {
		k.conf["appender.unused.type"] = "Console" // a configuration needs an appenders section
	}
	return out
}

func overflowScenario(prop string, k overflowKind, b zzvrt.Bounds) *zzvrt.Scenario {
	var errS string
	var returned int
	var blockedWhileStalled bool
	return &zzvrt.Scenario{
		Desc:   k.name,
		Before: func() { resetAll(); errS, returned, blockedWhileStalled = "", 0, false },
		Opts:   zzvrt.RunOpts{Bounds: b},
		Body: func() {
			x := zzvrt.Cur()
			open := false
			zzvrt.Atomic(func() {
				log.TimeNow = func(context.Context) time.Time { return fixedT }
				log.Stdout = &slowSink{}
				x.FS.MkdirAll("/logs")
				x.FS.WriteGate = func(string) bool { return open }
				if err := log.Refresh(k.conf); err != nil {
					errS = "refresh: " + err.Error()
					return
				}
				for i := 0; i < 100; i++ {
					rootHandle.Write([]byte(fmt.Sprintf("p%03d\n", i)))
				}
			})
			if errS != "" {
				return
			}
			zzvrt.GoNamed("producer", func() {
				rootHandle.Write([]byte("a-raw-1\n"))
				returned++
				log.Info(context.Background(), c03Tags[0], log.String("k", "a-event-2"))
				returned++
				rootHandle.Write([]byte("a-raw-3\n"))
				returned++
			})
			zzvrt.WaitQuiescent() // the producer is through, or waits for space; the worker waits for the disk
			blockedWhileStalled = returned < 3
			// explored so far: the three arrivals against the worker and the stalled disk. The rest - the disk is back, the
			// backlog of 100 lines drains, a waiting producer finishes - runs under the default schedule only
			zzvrt.Settle()
			open = true
			zzvrt.WaitUntil(func() bool { return returned == 3 })
			log.Destroy()
		},
		Check: func(x *zzvrt.Exec) (string, []zzvrt.Violation) {
			key := k.name
			var v []zzvrt.Violation
			add := func(p, clause, detail string) {
				if p == prop || p == "*" {
					v = append(v, zzvrt.Violation{Clause: clause, Key: key, Detail: detail})
				}
			}
			if x.Outcome != "" {
				add("*", "no-"+strings.SplitN(x.Outcome, ":", 2)[0], x.Outcome+" "+firstLines(x.Stack, 12))
				return x.Outcome, v
			}
			if errS != "" {
				add("*", "kind-not-instantiable", errS)
				return errS, v
			}
			pol := "Block"
			if strings.Contains(k.name, "DiscardOldest") {
				pol = "DiscardOldest"
			} else if strings.Contains(k.name, "Discard") {
				pol = "Discard"
			}
			var sb strings.Builder
			for _, n := range x.FS.List("/logs") {
				content := string(x.FS.Nodes["/logs/"+n].Data)
				wf := strings.HasPrefix(n, "app.log.wf.")
				lines := strings.Split(strings.TrimSuffix(content, "\n"), "\n")
				pos := map[string]int{}
				for i, l := range lines {
					id := l
					if j := strings.Index(l, "k=a-event-2"); j >= 0 {
						id = "a-event-2"
					}
					if _, dup := pos[id]; dup {
						add("C04", "delivered-twice", fmt.Sprintf("%s holds %q twice", n, id))
					}
					pos[id] = i
				}
				missingP := 0
				firstP, lastP := -1, -1
				for i := 0; i < 100; i++ {
					id := fmt.Sprintf("p%03d", i)
					if _, ok := pos[id]; !ok {
						missingP++
						if firstP < 0 {
							firstP = i
						}
						lastP = i
					}
				}
				arrivals := []string{"a-raw-1", "a-event-2", "a-raw-3"}
				if wf {
					arrivals = []string{"a-raw-1", "a-raw-3"} // the INFO event belongs to the other file
				}
				missingA := 0
				for _, id := range arrivals {
					if _, ok := pos[id]; !ok {
						missingA++
					}
				}
				fmt.Fprintf(&sb, "%s:-%dp-%da;", n, missingP, missingA)
				switch pol {
				case "Block":
					if missingP+missingA > 0 {
						add("C06", "block-dropped", fmt.Sprintf("Block policy: %s lacks %d buffered and %d arriving item(s) after the disk came back and Destroy returned", n, missingP, missingA))
						add("C04", "block-lost", fmt.Sprintf("Block policy: %s lacks %d buffered and %d arriving item(s)", n, missingP, missingA))
					}
				case "Discard":
					if missingP > 0 {
						add("C06", "discard-dropped-buffered-item", fmt.Sprintf("Discard policy: %s lacks %d of the 100 lines that were already buffered (only arriving items may be dropped)", n, missingP))
					}
				case "DiscardOldest":
					if missingA > 0 {
						add("C06", "discardoldest-dropped-arriving-item", fmt.Sprintf("DiscardOldest policy: %s lacks %d arriving item(s) although 100 older lines were buffered", n, missingA))
					}
					// what goes is, each time, the oldest line still BUFFERED: the front of the queue is removed in order, by the
					// worker (one line, or a batch - how many it holds while the disk is stalled is its own business; the
					// directed sequences bound it by 64) or by an eviction. So at most three lines are missing and they sit
					// among the first 3 + 64
					if missingP > 3 || lastP >= 3+64 {
						add("C06", "discardoldest-dropped-not-oldest", fmt.Sprintf("DiscardOldest policy: %s lacks %d buffered lines between p%03d and p%03d (three arrivals evict at most three lines, each the oldest still buffered)", n, missingP, firstP, lastP))
					}
				}
				// per-producer order of what is present (prefill and arrivals each came from one goroutine)
				last := -1
				for i := 0; i < 100; i++ {
					if j, ok := pos[fmt.Sprintf("p%03d", i)]; ok {
						if j < last {
							add("C06", "producer-order", fmt.Sprintf("%s: p%03d is ahead of an earlier line", n, i))
						}
						last = j
					}
				}
				last = -1
				for _, id := range arrivals {
					if j, ok := pos[id]; ok {
						if j < last {
							add("C06", "producer-order", fmt.Sprintf("%s: %s is ahead of an item the same goroutine submitted earlier", n, id))
						}
						last = j
					}
				}
			}
			if pol != "Block" && blockedWhileStalled {
				add("C06", "discard-policy-waited", fmt.Sprintf("%s policy: a log call had not returned while the disk was stalled (returned %d of 3)", pol, returned))
			}
			// (whether a Block call had to wait depends on how many items the worker holds outside the buffer - one, or a
			// batch; that is not the statement's business. What it says is checked above: nothing is dropped.)
			fmt.Fprintf(&sb, "blocked=%v", blockedWhileStalled)
			return sb.String(), v
		},
	}
}

func init() {
	for _, prop := range []string{"C06", "C04"} {
		prop := prop
		registerFamily(Fam{Prop: prop, Name: strings.ToLower(prop) + "/overflow-through-refresh", Tiers: "qt",
			Count: func(string) int { return len(overflowKinds()) },
			Make: func(tier string, i int) *zzvrt.Scenario {
				b := zzvrt.Bounds{Preempt: 2, Horizon: 20000}
				if tier == "thorough" {
					b.Preempt = 3
				}
				return overflowScenario(prop, overflowKinds()[i], b)
			}})
	}
}
