package main

import (
	"context"
	"fmt"
	"strings"
	"time"

	log "github.com/go-spring/log"
	zzvrt "github.com/go-spring/log/zzvrt"
	"github.com/go-spring/log/zzvrt/vtime"
)

// ---------------------------------------------------------------------------------------------
// C10 (schedules) - the hook results appear in the record of THEIR call, also for an asynchronous
// logger that has overflowed before: the buffer is filled behind a parked worker, one more event
// arrives (dropped by Discard / evicting the oldest under DiscardOldest), the backlog drains, and then
// two goroutines log one event each while the worker is parked again (both calls in flight together).
// Every delivered record must be self-consistent: its time, context string and context field all
// carry the id of the call that logged it; no record is blank; the hooks ran once per accepted call.
// All interleavings of the two late calls with the worker, P <= 2.
// ---------------------------------------------------------------------------------------------

// HRec records what the hooks put into each event (registered as an appender plugin); a gate can park
// the worker inside the appender.
type HRec struct {
	log.AppenderBase
}

var (
	hrecItems  []string
	hrecTokens int // < 0: open
)

func (a *HRec) Start() error { return nil }
func (a *HRec) Stop()        {}
func (a *HRec) Append(e *log.Event) {
	if hrecTokens >= 0 {
		zzvrt.WaitUntil(func() bool { return hrecTokens != 0 })
		if hrecTokens > 0 {
			hrecTokens--
		}
	}
	id, cf := int64(-1), int64(-1)
	if len(e.Fields) > 0 {
		id = int64(e.Fields[0].Num)
	}
	if len(e.CtxFields) > 0 {
		cf = int64(e.CtxFields[0].Num)
	}
	hrecItems = append(hrecItems, fmt.Sprintf("id=%d|cs=%s|cf=%d|ms=%d|lv=%s", id, e.CtxString, cf, e.Time.Sub(fixedT).Milliseconds(), e.Level.Name()))
}
func (a *HRec) Write(b []byte) {}

type hookIDKey struct{}

func init() {
	log.RegisterPlugin[HRec]("HRec", log.PluginTypeAppender)
	for _, pol := range []string{"Discard", "DiscardOldest", "Block"} {
		pol := pol
		register("C10", "c10/async-after-overflow/"+pol, "qt", func(tier string) *zzvrt.Scenario {
			b := zzvrt.Bounds{Preempt: 2, Horizon: 20000}
			if tier == "thorough" {
				b.Preempt = 3
			}
			var rerr error
			var nTime, nStr, nFld, nGen map[int]int
			var submitted []int
			// the calls that overflow the buffer (101, 102: whichever is the last of the filling loop) and one of the late calls go through Debug / Trace
			lazyIDs := map[int]bool{101: true, 102: true, 501: true}
			return &zzvrt.Scenario{
				Before: func() {
					resetAll()
					hrecItems, hrecTokens, rerr, submitted = nil, 0, nil, nil
					nTime, nStr, nFld, nGen = map[int]int{}, map[int]int{}, map[int]int{}, map[int]int{}
				},
				Opts: zzvrt.RunOpts{Bounds: b},
				Body: func() {
					idOf := func(ctx context.Context) int { v, _ := ctx.Value(hookIDKey{}).(int); return v }
					logOne := func(id int) {
						ctx := context.WithValue(context.Background(), hookIDKey{}, id)
						if lazyIDs[id] {
							// a lazy entry point at an enabled level: the generator runs exactly once, whatever the buffer looks like
							gen := func() []log.Field { nGen[id]++; return []log.Field{log.Int("id", id)} }
							if id%2 == 0 {
								log.Debug(ctx, c03Tags[0], gen)
							} else {
								log.Trace(ctx, c03Tags[0], gen)
							}
							return
						}
						log.Warn(ctx, c03Tags[0], log.Int("id", id))
					}
					zzvrt.Atomic(func() {
						log.TimeNow = func(ctx context.Context) time.Time {
							nTime[idOf(ctx)]++
							return fixedT.Add(time.Duration(idOf(ctx)) * time.Millisecond)
						}
						log.StringFromContext = func(ctx context.Context) string { nStr[idOf(ctx)]++; return fmt.Sprintf("cs-%d", idOf(ctx)) }
						log.FieldsFromContext = func(ctx context.Context) []log.Field {
							nFld[idOf(ctx)]++
							return []log.Field{log.Int("cf", idOf(ctx))}
						}
						rerr = log.Refresh(map[string]string{"appender.h.type": "HRec", "logger.root.type": "AsyncLogger", "logger.root.bufferSize": "100",
							"logger.root.bufferFullPolicy": pol, "logger.root.appenderRef.ref": "h"})
					})
					if rerr != nil {
						return
					}
					// history: the worker parks on the first event, 100 more fill the buffer, one more overflows
					// (Block: the buffer is filled exactly, nothing may wait)
					n := 102
					if pol == "Block" {
						n = 101
					}
					for id := 1; id <= n; id++ {
						logOne(id)
						submitted = append(submitted, id)
						if id == 1 {
							zzvrt.WaitQuiescent() // the worker has taken event 1 and sits in the appender
						}
					}
					hrecTokens = -1
					zzvrt.WaitQuiescent() // backlog drained
					hrecTokens = 0        // park the worker again on whatever comes first
					done := 0
					for g := 0; g < 2; g++ {
						id := 500 + g
						zzvrt.GoNamed(fmt.Sprintf("late-%d", g), func() {
							logOne(id)
							done++
						})
						submitted = append(submitted, id)
					}
					zzvrt.WaitUntil(func() bool { return done == 2 })
					hrecTokens = -1
					zzvrt.WaitQuiescent()
					log.Destroy()
				},
				Check: func(x *zzvrt.Exec) (string, []zzvrt.Violation) {
					key := "AsyncLogger " + pol + " after an overflow"
					if x.Outcome != "" {
						return x.Outcome, []zzvrt.Violation{{Clause: "no-" + strings.SplitN(x.Outcome, ":", 2)[0], Key: key, Detail: x.Outcome + " " + firstLines(x.Stack, 8)}}
					}
					if rerr != nil {
						return "err", []zzvrt.Violation{{Clause: "setup", Key: key, Detail: rerr.Error()}}
					}
					var v []zzvrt.Violation
					fail := func(clause, d string) { v = append(v, zzvrt.Violation{Clause: clause, Key: key, Detail: d}) }
					seen := map[int]int{}
					for _, it := range hrecItems {
						var id, cf, ms int
						var cs, lv string
						ps := strings.Split(it, "|")
						fmt.Sscanf(ps[0], "id=%d", &id)
						cs = strings.TrimPrefix(ps[1], "cs=")
						fmt.Sscanf(ps[2], "cf=%d", &cf)
						fmt.Sscanf(ps[3], "ms=%d", &ms)
						lv = strings.TrimPrefix(ps[4], "lv=")
						seen[id]++
						wantLv := "WARN"
						if lazyIDs[id] {
							wantLv = map[bool]string{true: "DEBUG", false: "TRACE"}[id%2 == 0]
						}
						if cs != fmt.Sprintf("cs-%d", id) || cf != id || ms != id || lv != wantLv {
							fail("record-not-from-its-call", fmt.Sprintf("record %q: time / context string / context field / level are not those the hooks returned for call %d", it, id))
						}
					}
					for _, id := range submitted {
						if nTime[id] != 1 || nStr[id] != 1 || nFld[id] != 1 {
							fail("hook-call-count", fmt.Sprintf("call %d: TimeNow x%d, StringFromContext x%d, FieldsFromContext x%d (want once each)", id, nTime[id], nStr[id], nFld[id]))
						}
						if seen[id] > 1 {
							fail("record-twice", fmt.Sprintf("call %d has %d records", id, seen[id]))
						}
						if lazyIDs[id] && nGen[id] != 1 {
							fail("lazy-generator-count", fmt.Sprintf("call %d (Debug/Trace at an enabled level): the lazy generator was invoked %d times", id, nGen[id]))
						}
					}
					for _, id := range []int{500, 501} {
						if pol != "Discard" && seen[id] != 1 { // nothing is full any more: both late events are delivered
							fail("emission", fmt.Sprintf("late call %d has %d records", id, seen[id]))
						}
					}
					if pol == "Discard" && (seen[500] != 1 || seen[501] != 1) {
						fail("emission", fmt.Sprintf("late calls 500/501 have %d/%d records (the buffer was empty)", seen[500], seen[501]))
					}
					return strings.Join(hrecItems[max(0, len(hrecItems)-3):], ","), v
				},
			}
		})
	}
}

// ---------------------------------------------------------------------------------------------
// C10 - "the wall clock if unset" through the lifecycle, for every registered top-level property:
// no time hook is set; the virtual clock is moved by 90 minutes before every probe. A record must carry
// the clock's reading at its call (tolerance 1 s: the layouts print milliseconds, a coarser cached clock
// would still be "the wall clock") - while a configuration that sets the property is live, after Destroy
// (built-in logger), under a second configuration that does not mention the property, after the second
// Destroy. The properties are discovered from the tree under test (whatever RegisterProperty has seen),
// each with the values "true", "false", "1" (a value the setter rejects ends the scenario at Refresh).
// ---------------------------------------------------------------------------------------------

type clockSink struct{ lines []string }

func (s *clockSink) Write(b []byte) (int, error) {
	s.lines = append(s.lines, string(b))
	return len(b), nil
}

func wallClockCases() [][2]string {
	out := [][2]string{{"", ""}}
	for _, p := range log.VerifPropertyNames() {
		for _, v := range []string{"true", "false", "1"} {
			out = append(out, [2]string{p, v})
		}
	}
	return out
}

func init() {
	registerFamily(Fam{Prop: "C10", Name: "c10/wall-clock-through-the-lifecycle", Tiers: "qt",
		Count: func(string) int { return len(wallClockCases()) },
		Make: func(tier string, i int) *zzvrt.Scenario {
			pc := wallClockCases()[i]
			b := zzvrt.Bounds{Preempt: 1, Horizon: 20000}
			if tier == "thorough" {
				b.Preempt = 2
			}
			var rerr string
			var probes []string // "label|want-ms|got"
			sink := &clockSink{}
			return &zzvrt.Scenario{
				Desc:   fmt.Sprintf("property %s=%s", pc[0], pc[1]),
				Before: func() { resetAll(); hrecItems, hrecTokens, rerr, probes = nil, -1, "", nil; sink.lines = nil },
				Opts:   zzvrt.RunOpts{Bounds: b},
				Body: func() {
					x := zzvrt.Cur()
					conf := func(withProp bool) map[string]string {
						m := map[string]string{"appender.h.type": "HRec", "logger.root.type": "Logger", "logger.root.appenderRef.ref": "h"}
						if withProp && pc[0] != "" {
							m[pc[0]] = pc[1]
						}
						return m
					}
					refresh := func(withProp bool) bool {
						var err error
						zzvrt.Atomic(func() {
							log.TimeNow = nil
							log.Stdout = sink
						})
						if err = log.Refresh(conf(withProp)); err != nil {
							rerr = err.Error()
							return false
						}
						return true
					}
					probe := func(label string, builtin bool) {
						vtime.Sleep(90 * time.Minute)
						zzvrt.WaitQuiescent() // whatever the library runs in the background has seen the new time
						want := x.Now
						n, m := len(hrecItems), len(sink.lines)
						log.Warn(context.Background(), c03Tags[0], log.Int("id", 7))
						got := "nothing recorded"
						if builtin {
							if len(sink.lines) > m {
								got = "line:" + sink.lines[m]
							}
						} else if len(hrecItems) > n {
							got = hrecItems[n]
						}
						probes = append(probes, fmt.Sprintf("%s|%d|%s", label, want.Sub(fixedT).Milliseconds(), got))
					}
					if !refresh(true) {
						return
					}
					probe("first configuration live", false)
					log.Destroy()
					probe("after Destroy (built-in logger)", true)
					rerr = ""
					if !refresh(false) {
						rerr = "second Refresh (property not mentioned): " + rerr
						return
					}
					probe("second configuration live", false)
					log.Destroy()
					probe("after the second Destroy (built-in logger)", true)
				},
				Check: func(x *zzvrt.Exec) (string, []zzvrt.Violation) {
					key := fmt.Sprintf("property %s=%s", pc[0], pc[1])
					if x.Outcome != "" {
						return x.Outcome, []zzvrt.Violation{{Clause: "no-" + strings.SplitN(x.Outcome, ":", 2)[0], Key: key, Detail: x.Outcome + " " + firstLines(x.Stack, 8)}}
					}
					if rerr != "" {
						if strings.HasPrefix(rerr, "second Refresh") {
							return "err", []zzvrt.Violation{{Clause: "valid-config-rejected", Key: key, Detail: rerr}}
						}
						return "value-rejected", nil // the setter does not take this value: nothing to probe
					}
					var v []zzvrt.Violation
					for _, p := range probes {
						ps := strings.SplitN(p, "|", 3)
						var want int64
						fmt.Sscanf(ps[1], "%d", &want)
						gotMs, ok := int64(0), false
						if strings.HasPrefix(ps[2], "line:") {
							// "[WARN][2025-06-01T11:30:00.000][file:line] tag||id=7"
							if j := strings.Index(ps[2], "]["); j >= 0 && len(ps[2]) >= j+2+23 {
								stamp := ps[2][j+2 : j+2+23]
								for _, loc := range []*time.Location{time.UTC, time.Local} {
									if t, err := time.ParseInLocation("2006-01-02T15:04:05.000", stamp, loc); err == nil {
										if d := t.Sub(fixedT).Milliseconds() - want; d >= -1000 && d <= 1000 {
											gotMs, ok = t.Sub(fixedT).Milliseconds(), true
										} else if !ok {
											gotMs = t.Sub(fixedT).Milliseconds()
										}
									}
								}
							}
						} else if j := strings.Index(ps[2], "|ms="); j >= 0 {
							fmt.Sscanf(ps[2][j+4:], "%d", &gotMs)
							d := gotMs - want
							ok = d >= -1000 && d <= 1000
						}
						if !ok {
							v = append(v, zzvrt.Violation{Clause: "record-time", Key: key, Detail: fmt.Sprintf("%s: no time hook is set; the clock read %s at the call, the record carries %s (%s)", ps[0],
								fixedT.Add(time.Duration(want)*time.Millisecond).Format("15:04:05.000"), fixedT.Add(time.Duration(gotMs)*time.Millisecond).Format("2006-01-02T15:04:05.000"), strings.TrimSpace(ps[2]))})
						}
					}
					return strings.Join(probes, ";"), v
				},
			}
		}})
}
