package main

import (
	"fmt"
	"strings"

	log "github.com/go-spring/log"
	zzvrt "github.com/go-spring/log/zzvrt"
)

// ---------------------------------------------------------------------------------------------
// Shared harness for the asynchronous logger (C04, C05, C06, C12): the real AsyncLogger with the
// minimum buffer (100), a recording appender whose delivery can be gated (a "slow appender" is a
// scheduling fact, not a sleep), producers that submit events / disabled events / raw writes.
// ---------------------------------------------------------------------------------------------

var fullRange = log.LevelRange{MinLevel: log.NoneLevel, MaxLevel: log.MaxLevel}

// recAppender records what reaches it. tokens >= 0 gates delivery: each delivery consumes a token
// and the worker is disabled while there is none (tokens < 0: not gated).
type recAppender struct {
	name   string
	items  []string
	tokens int
	slow   bool // yield between reading and recording (the appender consumes bytes slowly)
}

func (a *recAppender) Start() error    { return nil }
func (a *recAppender) Stop()           {}
func (a *recAppender) GetName() string { return a.name }
func (a *recAppender) take(filler bool) {
	if a.tokens >= 0 {
		zzvrt.WaitUntil(func() bool { return a.tokens > 0 })
		a.tokens--
	} else if !filler {
		// delivery of a real item is a scheduling point ("worker is mid-append"); the inert
		// prefill items are consumed atomically with their receive
		zzvrt.Yield()
	}
}
func (a *recAppender) Append(e *log.Event) {
	a.take(false)
	id := "?"
	if len(e.Fields) > 0 {
		id = idName(int(e.Fields[0].Num))
	}
	a.items = append(a.items, "E:"+id+"@"+e.Level.Name())
}
func (a *recAppender) Write(b []byte) {
	a.take(len(b) > 0 && b[0] == 'p')
	if a.slow {
		h := len(b) / 2
		s := string(b[:h])
		zzvrt.Yield()
		a.items = append(a.items, "W:"+s+string(b[h:]))
		return
	}
	a.items = append(a.items, "W:"+string(b))
}

// ids: producer p (0..), sequence s -> p*100+s ; names "a0", "b1", ...
func idCode(p, s int) int { return p*100 + s }
func idName(c int) string { return fmt.Sprintf("%c%d", 'a'+c/100, c%100) }

type asyncOp byte // 'E' enabled event, 'D' event below the logger's level, 'W' raw write, 'Z' raw write of zero length (nil / empty / buf[:0])

type asyncCfg struct {
	policy    log.BufferFullPolicy
	prefill   int      // raw writes enqueued before the producers start (worker has not run yet)
	gate      string   // "" free worker | "closed" worker parked in the appender until producers are done | "tokensN" the worker may deliver N items while the producers run (more cannot change what the producers observe when they submit < N items) | "helper" a helper thread opens the gate at an explored moment
	producers []string // one string of ops per producer
	layout    bool     // logger-level layout (events are formatted by the worker and written)
	reuse     bool     // raw writers overwrite their buffer after every call (C12)
	nAppender int      // appenders referenced by the logger (default 1)
	refLevel  string   // level setting of the appender references
	refLevels []string // per-appender level settings (C01: events at WARN ('E') and ERROR ('F') are routed by level); overrides refLevel
	stopTwice bool
	stopRace  bool // Stop is called while the worker is still draining (C05); otherwise the harness first lets the worker drain
	restart   bool // after Stop the SAME logger object is started again, takes three more items and is stopped again
}

type asyncObs struct {
	apps      []*recAppender
	submitted map[string]bool // enabled ids submitted (incl. prefill)
	disabled  map[string]bool
	perProd   [][]string
	counter   int64
	stopped   bool
	returned  map[string]bool
	atStop    [][3]int64           // per Stop call, at the moment it returned: items accepted so far (submitted + empty writes), items appender 0 holds, discard counter
	levels    map[string]log.Level // level every event was submitted at
	ranges    []log.LevelRange     // range of every appender reference
	err       string
	bufAfter  int
	empty     int // zero-length raw writes submitted
}

func policyName(p log.BufferFullPolicy) string {
	switch p {
	case log.BufferFullPolicyBlock:
		return "Block"
	case log.BufferFullPolicyDiscard:
		return "Discard"
	default:
		return "DiscardOldest"
	}
}

func (c asyncCfg) name() string {
	g := c.gate
	if g == "" {
		g = "free"
	}
	s := fmt.Sprintf("%s/k%d/%s/%s", policyName(c.policy), c.prefill, g, strings.Join(c.producers, "+"))
	if c.layout {
		s += "/layout"
	}
	if c.reuse {
		s += "/reuse"
	}
	if c.nAppender > 1 {
		s += fmt.Sprintf("/%dapp", c.nAppender)
	}
	if c.refLevel != "" {
		s += "/ref=" + c.refLevel
	}
	if len(c.refLevels) > 0 {
		s += "/refs=" + strings.Join(c.refLevels, "|")
	}
	if c.stopRace && len(c.producers) > 0 && !c.stopTwice {
		s += "/stop-races-drain"
	}
	if c.restart {
		s += "/restart"
	}
	return s
}

func (c asyncCfg) run(o *asyncObs) {
	na := c.nAppender
	if len(c.refLevels) > 0 {
		na = len(c.refLevels)
	}
	if na == 0 {
		na = 1
	}
	o.levels = map[string]log.Level{}
	var refs []*log.AppenderRef
	for i := 0; i < na; i++ {
		a := &recAppender{name: fmt.Sprintf("rec%d", i), tokens: -1}
		if c.gate != "" {
			a.tokens = 0
			fmt.Sscanf(c.gate, "tokens%d", &a.tokens)
		}
		a.slow = c.reuse
		o.apps = append(o.apps, a)
		lr := fullRange
		rl := c.refLevel
		if len(c.refLevels) > 0 {
			rl = c.refLevels[i]
		}
		if rl != "" {
			var err error
			if lr, err = log.ParseLevelRange(rl); err != nil {
				o.err = err.Error()
				return
			}
		}
		refs = append(refs, &log.AppenderRef{Appender: a, Level: lr})
		o.ranges = append(o.ranges, lr)
	}
	l := &log.AsyncLogger{
		LoggerBase:       log.LoggerBase{Name: "async", Level: log.LevelRange{MinLevel: log.InfoLevel, MaxLevel: log.MaxLevel}},
		AppenderRefs:     log.AppenderRefs{AppenderRefs: refs},
		BufferSize:       100,
		BufferFullPolicy: c.policy,
	}
	if c.layout {
		l.Layout = &log.TextLayout{BaseLayout: log.BaseLayout{FileLineLength: 48}}
	}
	o.submitted = map[string]bool{}
	o.disabled = map[string]bool{}
	o.returned = map[string]bool{}
	o.perProd = make([][]string, len(c.producers))
	zzvrt.Atomic(func() {
		if err := l.Start(); err != nil {
			o.err = err.Error()
			return
		}
		for i := 0; i < c.prefill; i++ {
			id := fmt.Sprintf("p%d", i)
			l.Write([]byte(id))
			o.submitted["W:"+id] = true
		}
	})
	if o.err != "" {
		return
	}
	done := 0
	for p, ops := range c.producers {
		p, ops := p, ops
		zzvrt.GoNamed(fmt.Sprintf("producer-%c", 'a'+p), func() {
			buf := make([]byte, 0, 8)
			for s, op := range ops {
				id := idName(idCode(p, s))
				switch asyncOp(op) {
				case 'E', 'D', 'F', 'N':
					e := log.GetEvent()
					e.Level = log.WarnLevel
					if op == 'F' {
						e.Level = log.ErrorLevel
					}
					if op == 'N' {
						// a level the application registers AFTER the logger was started (code inside the logger's range)
						e.Level = log.RegisterLevel(int32(450+p), fmt.Sprintf("late%d", p))
					}
					o.levels[id] = e.Level
					if op == 'D' {
						e.Level = log.DebugLevel
						o.disabled[id] = true
					} else {
						o.submitted["E:"+id] = true
						o.perProd[p] = append(o.perProd[p], "E:"+id)
					}
					e.Tag = "_t"
					e.Fields = []log.Field{log.Int("id", idCode(p, s))}
					l.Append(e)
				case 'Z':
					// an empty payload is a payload: it is forwarded (or discarded by policy and counted) like any
					// other and must not be taken for anything else by the worker
					o.empty++
					switch o.empty % 3 {
					case 0:
						l.Write(nil)
					case 1:
						l.Write([]byte{})
					default:
						l.Write(buf[:0])
					}
				case 'W':
					buf = append(buf[:0], id...)
					o.submitted["W:"+id] = true
					o.perProd[p] = append(o.perProd[p], "W:"+id)
					l.Write(buf)
					if c.reuse {
						for i := range buf {
							buf[i] = '#'
						}
					}
				}
				o.returned[id] = true
			}
			done++
		})
	}
	if c.gate == "helper" {
		zzvrt.GoNamed("helper", func() {
			for _, a := range o.apps {
				a.tokens = 1 << 30
			}
		})
	}
	gated := c.gate == "closed" || strings.HasPrefix(c.gate, "tokens")
	if c.policy == log.BufferFullPolicyBlock && gated {
		// a Block producer may legitimately wait for the appender: go on once every producer is
		// finished or blocked
		zzvrt.WaitQuiescent()
	} else {
		zzvrt.WaitUntil(func() bool { return done == len(c.producers) })
	}
	if gated {
		// let the worker free a few slots (more than the producers can use), wait for the producers,
		// then open the gate for good: the rest of the drain has no concurrency left to explore
		nops := 2
		for _, p := range c.producers {
			nops += len(p)
		}
		for _, a := range o.apps {
			a.tokens = nops
		}
		zzvrt.WaitQuiescent()
		for _, a := range o.apps {
			a.tokens = 1 << 30
		}
		zzvrt.WaitUntil(func() bool { return done == len(c.producers) })
	}
	if !c.stopRace {
		zzvrt.WaitQuiescent()
	}
	l.Stop()
	o.atStop = append(o.atStop, [3]int64{int64(len(o.submitted) + o.empty), int64(len(o.apps[0].items)), l.GetDiscardCounter()})
	if c.stopTwice {
		for _, a := range o.apps {
			a.Stop()
			a.Stop()
		}
	}
	if c.restart {
		// a second life of the same object: whatever the first Stop left behind must not leak into it
		if err := l.Start(); err != nil {
			o.err = "restart: " + err.Error()
			return
		}
		var second []string
		for s, op := range "EWE" {
			id := idName(idCode(25, s)) // producer 'z'
			if op == 'E' {
				e := log.GetEvent()
				e.Level = log.WarnLevel
				e.Tag = "_t"
				e.Fields = []log.Field{log.Int("id", idCode(25, s))}
				o.submitted["E:"+id] = true
				second = append(second, "E:"+id)
				l.Append(e)
			} else {
				o.submitted["W:"+id] = true
				second = append(second, "W:"+id)
				l.Write([]byte(id))
			}
			o.returned[id] = true
		}
		o.perProd = append(o.perProd, second)
		if !c.stopRace {
			zzvrt.WaitQuiescent()
		}
		l.Stop()
		o.atStop = append(o.atStop, [3]int64{int64(len(o.submitted) + o.empty), int64(len(o.apps[0].items)), l.GetDiscardCounter()})
	}
	o.stopped = true
	o.counter = l.GetDiscardCounter()
}

// asyncCheck is the oracle; clauses are tagged with the property they belong to and filtered by
// the property the scenario was registered for.
func asyncCheck(prop string, c asyncCfg, o *asyncObs, x *zzvrt.Exec) (string, []zzvrt.Violation) {
	key := c.name()
	var v []zzvrt.Violation
	add := func(p, clause, detail string) {
		if p == prop || p == "*" {
			v = append(v, zzvrt.Violation{Clause: clause, Key: key, Detail: detail})
		}
	}
	if x.Outcome != "" {
		cl := strings.SplitN(x.Outcome, ":", 2)[0]
		// deadlock/livelock/panic: Stop or a log call did not return / crashed
		for _, p := range []string{"C04", "C05", "C06", "C12", "C01"} {
			add(p, "no-"+cl, x.Outcome)
		}
		return x.Outcome, v
	}
	if o.err != "" {
		return o.err, []zzvrt.Violation{{Clause: "setup", Key: key, Detail: o.err}}
	}
	var sb strings.Builder
	for ai, a := range o.apps {
		fmt.Fprintf(&sb, "%d:%s;", ai, strings.Join(a.items, ","))
		seen := map[string]int{}
		var delivered []string
		nEmpty := 0
		for _, it := range a.items {
			if it == "W:" {
				nEmpty++
				continue
			}
			id := it
			if i := strings.IndexByte(it, '@'); i >= 0 {
				id = it[:i]
			}
			if c.layout && strings.HasPrefix(it, "W:[") {
				// formatted event: recover the id from "...id=<code>\n"
				if j := strings.LastIndex(it, "id="); j >= 0 {
					var code int
					fmt.Sscanf(it[j+3:], "%d", &code)
					id = "E:" + idName(code)
				}
			}
			seen[id]++
			delivered = append(delivered, id)
		}
		// C01: an event reaches exactly the references whose range contains the level it was logged at
		for _, it := range a.items {
			if c.layout && strings.HasPrefix(it, "W:[") {
				// formatted by the logger-level layout: "[LEVEL][time][file:line] tag||id=<code>"
				if j, k := strings.LastIndex(it, "id="), strings.IndexByte(it, ']'); j >= 0 && k > 3 {
					var code int
					fmt.Sscanf(it[j+3:], "%d", &code)
					it = "E:" + idName(code) + "@" + it[3:k]
				}
			}
			if i := strings.IndexByte(it, '@'); i >= 0 && strings.HasPrefix(it, "E:") {
				id, lv := it[2:i], it[i+1:]
				if want, ok := o.levels[id]; ok && want.Name() != lv {
					add("C01", "level-changed", fmt.Sprintf("appender %d: event %s logged at %s arrived as %s", ai, id, want.Name(), lv))
				} else if ok && !o.ranges[ai].Enable(want) {
					add("C01", "delivered-outside-range", fmt.Sprintf("appender %d (range %v) received event %s of level %s", ai, o.ranges[ai], id, lv))
				}
			}
		}
		if len(c.refLevels) > 0 && c.policy == log.BufferFullPolicyBlock {
			for id, lv := range o.levels {
				if o.submitted["E:"+id] && o.ranges[ai].Enable(lv) && seen["E:"+id] != 1 {
					add("C01", "not-delivered-once", fmt.Sprintf("appender %d (range %v): event %s of level %s delivered %d times (Block policy: nothing is discarded)", ai, o.ranges[ai], id, lv.Name(), seen["E:"+id]))
				}
			}
		}
		for id, n := range seen {
			if n > 1 {
				add("C04", "delivered-twice", fmt.Sprintf("appender %d: %s delivered %d times", ai, id, n))
				add("C12", "write-twice", fmt.Sprintf("appender %d: %s delivered %d times", ai, id, n))
			}
			if !o.submitted[id] {
				if o.disabled[strings.TrimPrefix(id, "E:")] {
					add("C04", "disabled-delivered", fmt.Sprintf("appender %d: event %s below the logger's level was delivered", ai, id))
				} else if strings.HasPrefix(id, "W:") {
					add("C12", "write-altered", fmt.Sprintf("appender %d received %q which no writer wrote (bytes changed after the call returned?)", ai, id))
					add("C04", "unknown-item", fmt.Sprintf("appender %d received unknown item %q", ai, id))
				} else {
					add("C04", "unknown-item", fmt.Sprintf("appender %d received unknown item %q", ai, id))
				}
			}
		}
		if c.refLevel == "" || c.refLevel == "INFO" {
			// conservation (the reference accepts everything that is submitted: events are at WARN)
			if int64(len(seen)+nEmpty)+o.counter != int64(len(o.submitted)+o.empty) {
				add("C04", "conservation", fmt.Sprintf("appender %d: delivered %d (+%d empty writes) + discarded %d != submitted %d (+%d empty writes) (delivered=%v)", ai, len(seen), nEmpty, o.counter, len(o.submitted), o.empty, delivered))
			}
			if nEmpty > o.empty || (c.policy == log.BufferFullPolicyBlock && nEmpty != o.empty) {
				add("C04", "empty-write-count", fmt.Sprintf("appender %d received %d zero-length writes, %d were submitted", ai, nEmpty, o.empty))
				add("C12", "write-missing", fmt.Sprintf("appender %d received %d zero-length writes, %d were submitted", ai, nEmpty, o.empty))
			}
			if c.policy == log.BufferFullPolicyBlock {
				if o.counter != 0 {
					add("C04", "block-counter", fmt.Sprintf("Block policy but discard counter = %d", o.counter))
				}
				for id := range o.submitted {
					if seen[id] == 0 {
						add("C04", "block-lost", fmt.Sprintf("Block policy: %s never delivered to appender %d", id, ai))
					}
				}
			}
			// C05: everything accepted (not discarded) is at the appender when Stop returns
			if int64(len(o.submitted)+o.empty)-o.counter > int64(len(seen)+nEmpty) {
				add("C05", "stop-flush", fmt.Sprintf("after Stop returned appender %d has %d items, %d were accepted", ai, len(seen)+nEmpty, int64(len(o.submitted)+o.empty)-o.counter))
			}
		}
		// C06: which item an overflow drops. Discard never drops a buffered item, so every prefill
		// item is delivered; DiscardOldest keeps the arriving item: while older prefill items are still
		// buffered (large prefill, few submissions) no producer item can be the oldest, so every
		// producer item is delivered.
		if c.refLevel == "" && !c.layout {
			switch c.policy {
			case log.BufferFullPolicyDiscard:
				for i := 0; i < c.prefill; i++ {
					if id := fmt.Sprintf("W:p%d", i); seen[id] == 0 {
						add("C06", "discard-dropped-buffered-item", fmt.Sprintf("Discard policy: buffered item %s was dropped (only arriving items may be)", id))
						break
					}
				}
			case log.BufferFullPolicyDiscardOldest:
				// only where the worker is gated: with a free worker the prefill can drain completely while
				// a producer sits between "buffer is full" and "remove the oldest", and the oldest item it
				// then removes may legitimately be another producer's (it IS the oldest buffered item)
				if c.prefill >= 50 && (c.gate == "closed" || strings.HasPrefix(c.gate, "tokens")) {
					for id := range o.submitted {
						if !strings.HasPrefix(id, "W:p") && seen[id] == 0 {
							add("C06", "discardoldest-dropped-arriving-item", fmt.Sprintf("DiscardOldest policy: arriving item %s was dropped while older items were still buffered (delivered=%v)", id, tail12(delivered)))
						}
					}
				}
			}
		}
		// C06/C12: per-producer order
		pos := map[string]int{}
		for i, id := range delivered {
			pos[id] = i
		}
		// the items queued before the producers started came from one goroutine too (in the order p0, p1, ...)
		perProd := o.perProd
		if c.prefill > 0 {
			var pre []string
			for i := 0; i < c.prefill; i++ {
				pre = append(pre, fmt.Sprintf("W:p%d", i))
			}
			perProd = append(append([][]string(nil), o.perProd...), pre)
		}
		for p, subs := range perProd {
			last := -1
			for _, id := range subs {
				if i, ok := pos[id]; ok {
					if i < last {
						add("C06", "producer-order", fmt.Sprintf("appender %d: producer %c's item %s delivered before an earlier one (delivered=%v)", ai, 'a'+p, id, delivered))
						add("C12", "write-order", fmt.Sprintf("appender %d: producer %c's item %s delivered before an earlier one (delivered=%v)", ai, 'a'+p, id, delivered))
					}
					last = i
				}
			}
		}
		// C12: raw writes reach every appender of the logger, whatever the reference's level
		if c.policy == log.BufferFullPolicyBlock || c.prefill+4 < 100 {
			for id := range o.submitted {
				if strings.HasPrefix(id, "W:") && seen[id] == 0 && o.counter == 0 {
					add("C12", "write-missing", fmt.Sprintf("raw write %s never reached appender %d (ref level %q)", id, ai, c.refLevel))
				}
			}
		}
	}
	// C05: AT THE MOMENT a Stop returned (not merely by the time everything has come to rest), what had been accepted
	// until then and not discarded was at the appender - in every life of the logger object
	if (c.refLevel == "" || c.refLevel == "INFO") && len(c.refLevels) == 0 {
		for k, st := range o.atStop {
			if st[0]-st[2] > st[1] {
				add("C05", "stop-flush", fmt.Sprintf("Stop #%d returned while appender 0 held %d of the %d items accepted until then (%d discarded)", k+1, st[1], st[0]-st[2], st[2]))
			}
		}
	}
	fmt.Fprintf(&sb, "ctr=%d", o.counter)
	// C06: the two discard policies never wait for the appender: checked by the gate=closed scenarios
	// (a producer that waited would be a deadlock outcome above).
	return sb.String(), v
}

func asyncScenario(prop string, c asyncCfg, b zzvrt.Bounds) *zzvrt.Scenario {
	var o asyncObs
	return &zzvrt.Scenario{
		Before: func() { resetAll(); o = asyncObs{} },
		Body:   func() { c.run(&o) },
		Opts:   zzvrt.RunOpts{Bounds: b},
		Check:  func(x *zzvrt.Exec) (string, []zzvrt.Violation) { return asyncCheck(prop, c, &o, x) },
	}
}

func init() {
	pols := []log.BufferFullPolicy{log.BufferFullPolicyBlock, log.BufferFullPolicyDiscard, log.BufferFullPolicyDiscardOldest}
	reg := func(prop string, c asyncCfg, tiers string, pq, pt int) {
		register(prop, strings.ToLower(prop)+"/"+c.name(), tiers, func(tier string) *zzvrt.Scenario {
			b := zzvrt.Bounds{Preempt: pq, Horizon: 20000}
			if tier == "thorough" {
				b.Preempt = pt
			}
			return asyncScenario(prop, c, b)
		})
	}
	// C04 + C06: producers race with a free-running worker around a full buffer
	for _, prop := range []string{"C04", "C06"} {
		for _, pol := range pols {
			for _, k := range []int{0, 98, 99, 100} {
				for _, prods := range [][]string{{"EW", "WE"}, {"EE", "DW"}, {"WW", "ED"}} {
					tiers := "qt"
					if k == 0 && prods[0] != "EW" {
						tiers = "t"
					}
					g := ""
					if k > 0 {
						g = "tokens5"
					}
					reg(prop, asyncCfg{policy: pol, prefill: k, gate: g, producers: prods}, tiers, 2, 3)
					if k == 99 && prods[0] == "EW" {
						reg(prop, asyncCfg{policy: pol, prefill: k, producers: prods}, "t", 2, 2)
					}
				}
				// slow appender: the worker is parked inside the appender while the producers run
				reg(prop, asyncCfg{policy: pol, prefill: k, gate: "closed", producers: []string{"EW", "WE"}}, "qt", 2, 3)
			}
			reg(prop, asyncCfg{policy: pol, prefill: 99, gate: "tokens4", producers: []string{"E", "W", "E"}}, "t", 2, 2)
			reg(prop, asyncCfg{policy: pol, prefill: 99, gate: "tokens5", layout: true, producers: []string{"EW", "WE"}}, "qt", 2, 3)
			reg(prop, asyncCfg{policy: pol, prefill: 98, gate: "tokens5", layout: true, refLevel: "INFO", producers: []string{"EE", "WE"}}, "qt", 2, 3)
			reg(prop, asyncCfg{policy: pol, prefill: 0, refLevel: "INFO", nAppender: 2, producers: []string{"EE", "EW"}}, "qt", 2, 3)
		}
	}
	// zero-length raw writes among the other items (C04 C06 C12: free worker and a nearly full buffer; C05: Stop racing)
	for _, pol := range pols {
		for _, prop := range []string{"C04", "C06", "C12"} {
			reg(prop, asyncCfg{policy: pol, prefill: 0, producers: []string{"ZE", "WZ"}}, "qt", 2, 3)
			reg(prop, asyncCfg{policy: pol, prefill: 99, gate: "tokens5", producers: []string{"ZW", "EZ"}}, "qt", 2, 3)
		}
		reg("C05", asyncCfg{policy: pol, prefill: 2, stopRace: true, producers: []string{"ZWE"}}, "qt", 2, 3)
		reg("C05", asyncCfg{policy: pol, prefill: 100, gate: "helper", stopRace: true, producers: []string{"ZW"}}, "qt", 2, 3)
	}
	// single-kind histories: a life that sees ONLY raw writes, only events, only disabled events (+ raw writes) or only
	// empty writes before Stop (whatever delivers the items must not depend on some other kind having been submitted)
	for _, pol := range pols {
		for _, prop := range []string{"C04", "C06", "C12"} {
			for _, prods := range [][]string{{"WW"}, {"W", "W"}, {"EE"}, {"DW"}, {"DD", "W"}, {"ZZ"}, {"ZW"}} {
				reg(prop, asyncCfg{policy: pol, prefill: 0, producers: prods}, "qt", 2, 3)
			}
			reg(prop, asyncCfg{policy: pol, prefill: 2, producers: []string{"W"}}, "qt", 2, 3)
			reg(prop, asyncCfg{policy: pol, prefill: 99, gate: "tokens5", producers: []string{"WW", "W"}}, "qt", 2, 3)
			reg(prop, asyncCfg{policy: pol, prefill: 0, producers: []string{"WW"}, restart: true}, "qt", 2, 3)
			reg(prop, asyncCfg{policy: pol, prefill: 3, stopRace: true, producers: []string{"W"}}, "qt", 2, 3)
		}
	}
	// C01 through the asynchronous path: events of two levels, two references with disjoint ranges, overflow in between
	for _, pol := range pols {
		rl := []string{"INFO~ERROR", "ERROR"}
		reg("C01", asyncCfg{policy: pol, prefill: 0, refLevels: rl, producers: []string{"EF", "FE"}}, "qt", 2, 3)
		reg("C01", asyncCfg{policy: pol, prefill: 99, gate: "tokens5", refLevels: rl, producers: []string{"EF", "FE"}}, "qt", 2, 3)
		reg("C01", asyncCfg{policy: pol, prefill: 100, gate: "tokens5", refLevels: rl, producers: []string{"EFE", "F"}}, "qt", 2, 3)
		reg("C01", asyncCfg{policy: pol, prefill: 98, gate: "tokens5", layout: true, refLevels: rl, producers: []string{"EF", "FE"}}, "qt", 2, 3)
	}
	// events at levels that did not exist when the logger was started (registered later by the application)
	for _, pol := range pols {
		for _, prop := range []string{"C04", "C06"} {
			reg(prop, asyncCfg{policy: pol, prefill: 0, producers: []string{"NW", "EN"}}, "qt", 2, 3)
			reg(prop, asyncCfg{policy: pol, prefill: 99, gate: "tokens5", producers: []string{"NE", "WN"}}, "qt", 2, 3)
		}
		reg("C01", asyncCfg{policy: pol, prefill: 0, refLevels: []string{"INFO~ERROR", "ERROR"}, producers: []string{"NF", "EN"}}, "qt", 2, 3)
	}
	// a second life of the same logger object (Start, Stop, Start, Stop): conservation and order over both lives
	for _, pol := range pols {
		reg("C04", asyncCfg{policy: pol, prefill: 0, producers: []string{"EW"}, restart: true}, "qt", 2, 3)
		reg("C04", asyncCfg{policy: pol, prefill: 99, gate: "tokens5", producers: []string{"EW", "WE"}, restart: true}, "qt", 1, 2)
		reg("C05", asyncCfg{policy: pol, prefill: 2, stopRace: true, producers: []string{"WE"}, restart: true}, "qt", 2, 3)
	}
	// C04 with Stop racing the drain (the statement is about the moment Stop returns, whatever is still
	// queued when it is called): backlog of 0 / 2 / 50 / 99 items + one producer, free and slow worker
	for _, pol := range pols {
		for _, k := range []int{0, 2, 50, 99} {
			reg("C04", asyncCfg{policy: pol, prefill: k, stopRace: true, producers: []string{"EW"}}, "qt", 2, 3)
		}
		reg("C04", asyncCfg{policy: pol, prefill: 3, gate: "helper", stopRace: true, producers: []string{"WE"}}, "qt", 2, 3)
	}
	// C05(a): Stop at every occupancy x policy x worker state
	for _, pol := range pols {
		for k := 0; k <= 100; k++ {
			tiers := "t"
			switch k {
			case 0, 1, 2, 50, 98, 99, 100:
				tiers = "qt"
			}
			reg("C05", asyncCfg{policy: pol, prefill: k, stopRace: true}, tiers, 2, 3)
			if k <= 2 || k >= 98 || k == 50 {
				reg("C05", asyncCfg{policy: pol, prefill: k, gate: "helper", stopRace: true}, tiers, 2, 3)
			}
			if k == 0 || k == 2 || k >= 99 {
				reg("C05", asyncCfg{policy: pol, prefill: k, gate: "helper", producers: []string{"EW"}, stopTwice: true, stopRace: true}, tiers, 1, 2)
			}
		}
	}
	// C12: raw writes with buffer reuse through the async logger
	for _, pol := range pols {
		for _, lvl := range []string{"", "ERROR", "INFO~WARN"} {
			reg("C12", asyncCfg{policy: pol, prefill: 0, reuse: true, nAppender: 2, refLevel: lvl, producers: []string{"WWW"}}, "qt", 2, 3)
			reg("C12", asyncCfg{policy: pol, prefill: 0, reuse: true, nAppender: 2, refLevel: lvl, producers: []string{"WW", "WW"}}, "qt", 2, 2)
		}
		reg("C12", asyncCfg{policy: pol, prefill: 98, gate: "tokens5", reuse: true, producers: []string{"WW", "WE"}}, "qt", 2, 3)
	}
}

func tail12(s []string) []string {
	if len(s) > 12 {
		return s[len(s)-12:]
	}
	return s
}
