package main

import (
	"context"
	"fmt"
	"os"
	"sort"
	"strings"
	"time"

	log "github.com/go-spring/log"
	zzvrt "github.com/go-spring/log/zzvrt"
)

// ---------------------------------------------------------------------------------------------
// C03 - concurrent logging through a synchronous logger yields whole, unmixed lines.
//
// N threads log self-identifying events through the public API; the sink is slow (it consumes the
// slice in two halves with a scheduling point in between, or is a vfs file whose write is a
// scheduling point). Oracle: the multiset of sink writes equals the multiset of the lines obtained
// by formatting each event alone (reference run: the same events, one thread, same call site).
// ---------------------------------------------------------------------------------------------

var (
	c03Tags = []*log.Tag{log.RegisterTag("_c03_a"), log.RegisterTag("_c03_b"), log.RegisterTag("_c03_c")}
	fixedT  = time.Date(2025, 6, 1, 10, 0, 0, 0, time.UTC)
)

// slowSink is an io.Writer that takes its time to consume the bytes.
type slowSink struct {
	writes []string
}

func (s *slowSink) Write(b []byte) (int, error) {
	h := len(b) / 2
	buf := make([]byte, 0, len(b))
	buf = append(buf, b[:h]...)
	zzvrt.Yield()
	buf = append(buf, b[h:]...)
	s.writes = append(s.writes, string(buf))
	return len(b), nil
}

type c03Event struct {
	tag     int
	payload string
	ms      int  // timestamp offset in milliseconds (events carry different times)
	err     bool // logged at ERROR instead of INFO (the .wf file of a rolling-file logger with separate=true)
	direct  bool // published through the public GetEvent / Logger.Append path with a Fields slice the caller owns and keeps
}

// the caller-owned field slice of the direct events (rebuilt for every execution) and the logger they go to
var (
	c03Own    []log.Field
	c03Direct *log.SyncLogger
)

type c03TimeKey struct{}

func c03Payload(i int, long bool) string {
	if long {
		return fmt.Sprintf("L%d-", i) + strings.Repeat(string(rune('p'+i)), 400)
	}
	return fmt.Sprintf("ev%d-%s", i, strings.Repeat(string(rune('a'+i)), 6+i))
}

// c03Emit is the single call site of every event (so file:line is the same in the reference run).
func c03Emit(ev c03Event) {
	ctx := context.WithValue(context.Background(), c03TimeKey{}, ev.ms)
	if ev.direct {
		e := log.GetEvent()
		e.Level, e.Time, e.Tag, e.File, e.Line = log.InfoLevel, c03Time(ctx), "_c03_direct", "direct.go", 7
		e.CtxString = ev.payload
		e.Fields = c03Own // the caller keeps and reuses this slice; the library may read it, not keep or write it
		c03Direct.Append(e)
		return
	}
	// scalar, array and nested-object values: every encoder path writes into the event's own buffer
	fs := []log.Field{log.String("k", ev.payload), log.Int("n", len(ev.payload)),
		log.Ints("ids", []int{len(ev.payload), ev.ms}), log.Strings("who", []string{ev.payload[:3]}),
		log.Object("o", log.String("p", ev.payload[:4]), log.Bools("b", []bool{true}))}
	if ev.err {
		log.Error(ctx, c03Tags[ev.tag], fs...)
		return
	}
	log.Info(ctx, c03Tags[ev.tag], fs...)
}

func c03Time(ctx context.Context) time.Time {
	ms, _ := ctx.Value(c03TimeKey{}).(int)
	return fixedT.Add(time.Duration(ms) * time.Millisecond)
}

type c03Cfg struct {
	layout     string // TextLayout | JSONLayout
	sink       string // console | file | rolling | fanout | builtin
	threads    [][]c03Event
	zone       *time.Location // the process's local zone (default UTC)
	maxAge     string         // retention of the rolling appender in hours (default 24)
	rootless   bool           // the configuration has NO root logger (its logger serves a tag nobody uses) and is destroyed before the events: they go through the built-in console logger after a lifecycle
	secondLife bool           // the configuration is refreshed, used once, destroyed and refreshed AGAIN before the events
	relDir     bool           // the log directory is given relative to the working directory of the modelled process
	preExist   bool           // rolling sinks: the file of the current interval exists already and holds a line an earlier life of the process was acknowledged for
	level      string         // rolling-logger sinks: the logger's level; fanout: the level of both appender references ("" = not set)
}

func (c c03Cfg) start() time.Time {
	if c.zone != nil {
		return fixedT.In(c.zone)
	}
	return time.Time{}
}

func (c c03Cfg) config() map[string]string {
	m := map[string]string{
		"bufferCap": "256B",
	}
	switch c.sink {
	case "console":
		m["appender.out.type"] = "Console"
		m["appender.out.layout.type"] = c.layout
		m["logger.root.type"] = "Logger"
		m["logger.root.appenderRef.ref"] = "out"
	case "file":
		m["appender.out.type"] = "File"
		m["appender.out.fileDir"] = "/logs"
		m["appender.out.fileName"] = "app.log"
		m["appender.out.layout.type"] = c.layout
		m["logger.root.type"] = "Logger"
		m["logger.root.appenderRef.ref"] = "out"
	case "rolling":
		m["appender.out.type"] = "RollingFile"
		m["appender.out.fileDir"] = "/logs"
		m["appender.out.fileName"] = "app.log"
		m["appender.out.rotation"] = "h"
		m["appender.out.maxAge"] = "24"
		if c.maxAge != "" {
			m["appender.out.maxAge"] = c.maxAge
		}
		m["appender.out.layout.type"] = c.layout
		m["logger.root.type"] = "Logger"
		m["logger.root.appenderRef.ref"] = "out"
	case "rolling-logger", "rolling-logger+separate":
		// the logger kind that owns its rolling appenders (the second one, for WARN and above, only with separate=true)
		m["appender.unused.type"] = "Discard"
		m["logger.root.type"] = "RollingFile"
		m["logger.root.fileDir"] = "/logs"
		m["logger.root.fileName"] = "app.log"
		m["logger.root.rotation"] = "h"
		m["logger.root.maxAge"] = "24"
		m["logger.root.separate"] = fmt.Sprint(c.sink == "rolling-logger+separate")
		m["logger.root.layout.type"] = c.layout
		if c.level != "" {
			m["logger.root.level"] = c.level
		}
	case "two-widths":
		// two appenders with their own layouts of different file:line widths (a narrow console column, a wide file column)
		m["appender.out.type"] = "Console"
		m["appender.out.layout.type"] = c.layout
		m["appender.out.layout.fileLineLength"] = "12"
		m["appender.f.type"] = "File"
		m["appender.f.fileDir"] = "/logs"
		m["appender.f.fileName"] = "app.log"
		m["appender.f.layout.type"] = c.layout
		m["appender.f.layout.fileLineLength"] = "64"
		m["logger.root.type"] = "Logger"
		m["logger.root.appenderRef[0].ref"] = "out"
		m["logger.root.appenderRef[1].ref"] = "f"
	case "fanout":
		// logger-level layout: one ToBytes, the same slice is handed to two appenders
		m["appender.out.type"] = "Console"
		m["appender.f.type"] = "File"
		m["appender.f.fileDir"] = "/logs"
		m["appender.f.fileName"] = "app.log"
		m["logger.root.type"] = "Logger"
		m["logger.root.layout.type"] = c.layout
		m["logger.root.appenderRef[0].ref"] = "out"
		m["logger.root.appenderRef[1].ref"] = "f"
		if c.level != "" {
			m["logger.root.appenderRef[0].level"] = c.level
			m["logger.root.appenderRef[1].level"] = c.level
		}
	}
	if c.relDir {
		for k, v := range m {
			if strings.HasSuffix(k, ".fileDir") && v == "/logs" {
				m[k] = "logs" // relative to the working directory of the modelled process ("/")
			}
		}
	}
	if c.rootless {
		for k, v := range m {
			if rest, ok := strings.CutPrefix(k, "logger.root."); ok {
				delete(m, k)
				m["logger.biz."+rest] = v
			}
		}
		m["logger.biz.tags"] = "_zz_nobody_*"
	}
	return m
}

type c03Obs struct {
	console []string
	files   map[string][]string // file -> write records
	content map[string]string
	err     string
}

func (c c03Cfg) run(threads [][]c03Event, obs *c03Obs) {
	x := zzvrt.Cur()
	sink := &slowSink{}
	zzvrt.Atomic(func() {
		log.TimeNow = c03Time
		log.Stdout = sink
		x.FS.MkdirAll("/logs")
		if c.sink != "builtin" {
			if err := log.Refresh(c.config()); err != nil {
				obs.err = "refresh: " + err.Error()
			}
		} else {
			log.BufferCap.Store(256)
		}
		// (longer than the field list of the entry-point events: whoever appends those into this array fits)
		c03Own = []log.Field{log.String("kind", "heartbeat"), log.Ints("v", []int{1, 2}), log.Int("seq", 7), log.Bool("up", true),
			log.String("who", "w2"), log.Float("load", 0.5), log.Strings("tags", []string{"x"}), log.Nil("none")}
		var lay log.Layout = &log.TextLayout{BaseLayout: log.BaseLayout{FileLineLength: 48}}
		if c.layout == "JSONLayout" {
			lay = &log.JSONLayout{BaseLayout: log.BaseLayout{FileLineLength: 48}}
		}
		c03Direct = &log.SyncLogger{LoggerBase: log.LoggerBase{Name: "direct", Level: fullRange},
			AppenderRefs: log.AppenderRefs{AppenderRefs: []*log.AppenderRef{{Appender: &log.ConsoleAppender{Layout: lay}, Level: fullRange}}}}
	})
	if obs.err != "" {
		return
	}
	done := 0
	for _, evs := range threads {
		evs := evs
		zzvrt.GoNamed("logger", func() {
			for _, ev := range evs {
				c03Emit(ev)
			}
			done++
		})
	}
	zzvrt.WaitUntil(func() bool { return done == len(threads) })
	zzvrt.Atomic(func() { log.Destroy() })
	obs.console = sink.writes
	obs.files = map[string][]string{}
	obs.content = map[string]string{}
	for p, n := range x.FS.Nodes {
		if n.Dir {
			continue
		}
		obs.content[p] = string(n.Data)
		for _, w := range n.Writes {
			obs.files[p] = append(obs.files[p], string(n.Data[w.Off:w.Off+w.Len]))
		}
	}
}

func multisetDiff(got, want []string) string {
	g, w := sortedCopy(got), sortedCopy(want)
	if len(g) == len(w) {
		same := true
		for i := range g {
			if g[i] != w[i] {
				same = false
			}
		}
		if same {
			return ""
		}
	}
	cnt := map[string]int{}
	for _, s := range w {
		cnt[s]++
	}
	var extra []string
	for _, s := range g {
		if cnt[s] > 0 {
			cnt[s]--
		} else {
			extra = append(extra, s)
		}
	}
	var missing []string
	for s, n := range cnt {
		for ; n > 0; n-- {
			missing = append(missing, s)
		}
	}
	sort.Strings(missing)
	return fmt.Sprintf("unexpected=%q missing=%q", extra, missing)
}

func c03Scenario(c c03Cfg, b zzvrt.Bounds) *zzvrt.Scenario {
	// reference: every event formatted ALONE - its own run from a freshly reset package, by the same path
	var wantLines, wantFileLines []string
	for _, t := range c.threads {
		for _, ev := range t {
			var ref c03Obs
			resetAll()
			rx := zzvrt.Run(func() { c.run([][]c03Event{{ev}}, &ref) }, nil, zzvrt.RunOpts{Bounds: zzvrt.Bounds{Horizon: 100000}})
			if rx.Outcome != "" || ref.err != "" {
				fmt.Fprintf(os.Stderr, "c03: reference run failed: outcome=%q err=%q\n", rx.Outcome, ref.err)
			}
			switch c.sink {
			case "console", "builtin", "fanout":
				wantLines = append(wantLines, ref.console...)
			case "two-widths":
				wantLines = append(wantLines, ref.console...)
				for _, w := range ref.files {
					wantFileLines = append(wantFileLines, w...)
				}
			default:
				for _, w := range ref.files {
					wantLines = append(wantLines, w...)
				}
			}
		}
	}
	var obs c03Obs
	return &zzvrt.Scenario{
		Before: func() { resetAll(); obs = c03Obs{} },
		Body:   func() { c.run(c.threads, &obs) },
		Opts:   zzvrt.RunOpts{Bounds: b},
		Check: func(x *zzvrt.Exec) (string, []zzvrt.Violation) {
			var v []zzvrt.Violation
			key := c.sink + "/" + c.layout
			if x.Outcome != "" {
				v = append(v, zzvrt.Violation{Clause: "no-" + strings.SplitN(x.Outcome, ":", 2)[0], Key: key, Detail: x.Outcome})
				return x.Outcome, v
			}
			if obs.err != "" {
				return obs.err, []zzvrt.Violation{{Clause: "setup", Key: key, Detail: obs.err}}
			}
			var sb strings.Builder
			if c.sink == "two-widths" {
				// the reference shares the process-wide state an implementation may keep per call site, so the column is
				// also checked absolutely: at most the configured width, shortened ("...") only when it fills the width
				col := func(where, l string, width int) {
					tok := ""
					if c.layout == "JSONLayout" {
						if j := strings.Index(l, `"fileLine":"`); j >= 0 {
							tok = l[j+12:]
							if e := strings.IndexByte(tok, '"'); e >= 0 {
								tok = tok[:e]
							}
						}
					} else if ps := strings.SplitN(l, "][", 3); len(ps) == 3 {
						tok = ps[2]
						if e := strings.IndexByte(tok, ']'); e >= 0 {
							tok = tok[:e]
						}
					}
					if len(tok) > width || (strings.HasPrefix(tok, "...") && len(tok) != width) || tok == "" {
						v = append(v, zzvrt.Violation{Clause: "file-line-column", Key: key, Detail: fmt.Sprintf("%s (fileLineLength=%d) carries the file:line column %q: %q", where, width, tok, l)})
					}
				}
				for _, l := range obs.console {
					col("console", l, 12)
				}
				for _, ws := range obs.files {
					for _, l := range ws {
						col("file", l, 64)
					}
				}
			}
			if c.sink == "console" || c.sink == "builtin" || c.sink == "fanout" || c.sink == "two-widths" {
				if d := multisetDiff(obs.console, wantLines); d != "" {
					v = append(v, zzvrt.Violation{Clause: "console-lines", Key: key, Detail: d})
				}
				// the STREAM (the writes in the order the sink completed them): an appender that hands a long line over in
				// several pieces has to keep the pieces together
				streamLines := func(ws []string) []string {
					var out []string
					for _, l := range strings.SplitAfter(strings.Join(ws, ""), "\n") {
						if l != "" {
							out = append(out, l)
						}
					}
					return out
				}
				if d := multisetDiff(streamLines(obs.console), streamLines(wantLines)); d != "" {
					v = append(v, zzvrt.Violation{Clause: "console-stream", Key: key, Detail: trunc300(d)})
				}
				fmt.Fprintf(&sb, "%q", obs.console)
			}
			if c.sink != "console" && c.sink != "builtin" {
				var writes []string
				var content []string
				for p, w := range obs.files {
					writes = append(writes, w...)
					_ = p
				}
				for _, data := range obs.content {
					for _, l := range strings.SplitAfter(data, "\n") {
						if l != "" {
							content = append(content, l)
						}
					}
				}
				wantLines := wantLines
				if c.sink == "two-widths" {
					wantLines = wantFileLines
				}
				if d := multisetDiff(writes, wantLines); d != "" {
					v = append(v, zzvrt.Violation{Clause: "file-writes", Key: key, Detail: d})
				}
				if d := multisetDiff(content, wantLines); d != "" {
					v = append(v, zzvrt.Violation{Clause: "file-content", Key: key, Detail: d})
				}
				ps := make([]string, 0, len(obs.content))
				for p := range obs.content {
					ps = append(ps, p)
				}
				sort.Strings(ps)
				for _, p := range ps {
					fmt.Fprintf(&sb, "|%s=%q", p, obs.content[p])
				}
			}
			if len(wantLines) == 0 {
				v = append(v, zzvrt.Violation{Clause: "reference-empty", Key: key, Detail: "reference run produced no lines"})
			}
			return sb.String(), v
		},
	}
}

func init() {
	ev := func(i, tag int, long bool) c03Event {
		return c03Event{tag: tag, payload: c03Payload(i, long), ms: (i % 2) * 7}
	}
	shapes := map[string][][]c03Event{
		"2x1":     {{ev(0, 0, false)}, {ev(1, 1, false)}},
		"2x2":     {{ev(0, 0, false), ev(2, 0, false)}, {ev(1, 1, false), ev(3, 1, false)}},
		"2x1long": {{ev(0, 0, true)}, {ev(1, 1, false)}},
		"3x1":     {{ev(0, 0, false)}, {ev(1, 1, false)}, {ev(2, 2, true)}},
		// one line beyond 16 / 32 / 64 KiB (whatever an appender might consider "too long for one write") next to a short one
		"2x1huge": {{c03Event{tag: 0, payload: "H0-" + strings.Repeat("h", 70000)}}, {ev(1, 1, false)}},
	}
	for _, layout := range []string{"TextLayout", "JSONLayout"} {
		for _, sink := range []string{"console", "file", "rolling", "fanout", "builtin", "two-widths"} {
			if sink == "builtin" && layout == "JSONLayout" {
				continue
			}
			for _, shape := range []string{"2x1", "2x2", "2x1long", "3x1", "2x1huge"} {
				if shape == "2x1huge" && sink != "console" && sink != "builtin" && sink != "file" {
					continue
				}
				layout, sink, shape := layout, sink, shape
				tiers := "qt"
				if shape == "3x1" || (shape == "2x2" && sink != "console") {
					tiers = "t"
				}
				register("C03", fmt.Sprintf("c03/%s/%s/%s", sink, layout, shape), tiers, func(tier string) *zzvrt.Scenario {
					b := zzvrt.Bounds{Preempt: 2, Horizon: 5000}
					if tier == "thorough" {
						b.Preempt = 3
						b.Env[zzvrt.SeamPoolMiss] = 1
						if shape == "3x1" || shape == "2x2" {
							b.Preempt = 2
						}
					}
					return c03Scenario(c03Cfg{layout: layout, sink: sink, threads: shapes[shape]}, b)
				})
			}
		}
	}
}

// The public low-level path next to the entry points: one goroutine publishes events it has built itself
// (GetEvent, its OWN field slice which it keeps and reuses, Logger.Append on a synchronous logger), another
// logs through log.Info. Every line equals the line of its event formatted alone - in particular the
// library neither keeps nor writes the slice it was lent.
func init() {
	for _, layout := range []string{"TextLayout", "JSONLayout"} {
		layout := layout
		register("C03", fmt.Sprintf("c03/direct-append+entry-points/%s", layout), "qt", func(tier string) *zzvrt.Scenario {
			b := zzvrt.Bounds{Preempt: 2, Horizon: 5000}
			if tier == "thorough" {
				b.Preempt = 3
				b.Env[zzvrt.SeamPoolMiss] = 1
			}
			threads := [][]c03Event{
				{{payload: "direct-d0", direct: true}, {payload: "direct-d1", direct: true, ms: 7}, {payload: "direct-d2", direct: true}},
				{{tag: 1, payload: c03Payload(1, false)}, {tag: 1, payload: c03Payload(3, false), ms: 7}},
			}
			return c03Scenario(c03Cfg{layout: layout, sink: "console", threads: threads}, b)
		})
	}
}

func trunc300(s string) string {
	if len(s) > 300 {
		return s[:300] + "..."
	}
	return s
}
