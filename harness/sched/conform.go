package main

import (
	"errors"
	"fmt"
	"io/fs"
	"os"
	"path/filepath"
	"sort"
	"strings"

	zzvrt "github.com/go-spring/log/zzvrt"
)

// ---------------------------------------------------------------------------------------------
// Model <-> OS conformance of the in-memory filesystem.
//
// What is explored is the library's own code; what is modelled is its environment. The filesystem
// model is tied to the real one by replaying the call log of explored executions against a real
// temporary directory: every call (open with its flags, write with its bytes, sync, close, readdir,
// remove) must give the same error class, readdir the same names, and at the end the directory
// listing and every file's content must be identical. Injected faults are skipped (the real call is
// still made so that descriptors stay in step) - the comparison is only made for calls the model
// answered itself.
// ---------------------------------------------------------------------------------------------

type conformer struct {
	root string
	n    int
}

func newConformer() *conformer {
	d, err := os.MkdirTemp("", "verif-vfs-conf-")
	if err != nil {
		fmt.Fprintln(os.Stderr, "conform:", err)
		os.Exit(2)
	}
	return &conformer{root: d}
}

func (c *conformer) close() { os.RemoveAll(c.root) }

func errClass(err error) string {
	switch {
	case err == nil:
		return ""
	case errors.Is(err, fs.ErrNotExist):
		return "ENOENT"
	case errors.Is(err, os.ErrClosed):
		return "closed"
	case errors.Is(err, fs.ErrExist):
		return "EEXIST"
	default:
		return "other:" + err.Error()
	}
}

func modelClass(e string) string {
	switch {
	case e == "":
		return ""
	case strings.HasPrefix(e, "ENOENT"):
		return "ENOENT"
	case strings.Contains(e, "closed"):
		return "closed"
	case strings.HasPrefix(e, "EEXIST"):
		return "EEXIST"
	}
	return "other:" + e
}

// replay runs the call log of one execution on the real filesystem. initial: files that existed
// before the first logged call (path -> content). Returns "" when the model agrees with the OS.
func (c *conformer) replay(x *zzvrt.Exec, initial map[string]string) string {
	c.n++
	dir := filepath.Join(c.root, fmt.Sprintf("t%d", c.n))
	defer os.RemoveAll(dir)
	real := func(p string) string { return filepath.Join(dir, p) }
	for p, n := range x.FS.Nodes {
		if n.Dir {
			os.MkdirAll(real(p), 0755)
		}
	}
	os.MkdirAll(real(rollDir), 0755)
	for p, data := range initial {
		os.MkdirAll(filepath.Dir(real(p)), 0755)
		os.WriteFile(real(p), []byte(data), 0644)
	}
	fds := map[int]*os.File{}
	defer func() {
		for _, f := range fds {
			f.Close()
		}
	}()
	for i, call := range x.FS.Log {
		injected := strings.Contains(call.Err, "injected")
		var got string
		switch call.Op {
		case "open":
			if injected {
				continue
			}
			f, err := os.OpenFile(real(call.Path), call.Flag, 0644)
			if err == nil {
				fds[call.FD] = f
			}
			got = errClass(err)
		case "write":
			f := fds[call.FD]
			if f == nil {
				return fmt.Sprintf("call %d: write on unknown descriptor %d", i, call.FD)
			}
			data := call.Data
			if injected {
				data = data[:call.Bytes] // a short write stored only part of the bytes; EIO stored none
				if !strings.Contains(call.Err, "short") {
					continue
				}
			}
			_, err := f.Write([]byte(data))
			if injected {
				continue
			}
			got = errClass(err)
		case "sync":
			if f := fds[call.FD]; f != nil {
				err := f.Sync()
				if injected {
					continue
				}
				got = errClass(err)
			}
		case "close":
			if f := fds[call.FD]; f != nil {
				err := f.Close()
				if injected {
					continue
				}
				got = errClass(err)
			}
		case "readdir":
			if injected {
				continue
			}
			es, err := os.ReadDir(real(call.Path))
			got = errClass(err)
			if err == nil && len(es) != call.Bytes {
				return fmt.Sprintf("call %d: readdir %s lists %d entries on the OS, %d in the model", i, call.Path, len(es), call.Bytes)
			}
		case "remove":
			if injected {
				continue
			}
			got = errClass(os.Remove(real(call.Path)))
		default:
			continue
		}
		if want := modelClass(call.Err); got != want {
			return fmt.Sprintf("call %d: %s %s: OS says %q, model says %q", i, call.Op, call.Path, got, want)
		}
	}
	// final state
	var osNames, mNames []string
	filepath.WalkDir(filepath.Join(dir, rollDir), func(p string, d fs.DirEntry, err error) error {
		if err == nil && !d.IsDir() {
			rel, _ := filepath.Rel(dir, p)
			b, _ := os.ReadFile(p)
			osNames = append(osNames, "/"+rel+"="+string(b))
		}
		return nil
	})
	for p, n := range x.FS.Nodes {
		if !n.Dir && strings.HasPrefix(p, rollDir+"/") {
			mNames = append(mNames, p+"="+string(n.Data))
		}
	}
	sort.Strings(osNames)
	sort.Strings(mNames)
	if strings.Join(osNames, "\n") != strings.Join(mNames, "\n") {
		return fmt.Sprintf("final directory differs: OS %q, model %q", osNames, mNames)
	}
	return ""
}
