package main

import (
	"fmt"
	"strings"
	"time"

	log "github.com/go-spring/log"
	zzvrt "github.com/go-spring/log/zzvrt"
)

// ---------------------------------------------------------------------------------------------
// C20 - synchronous file logging is write-through.
//
// 1-2 threads x 2-3 log calls through a synchronous logger onto a File / RollingFile appender or
// the console stream (backed by a vfs file); the harness records an acknowledgement after each
// call returns. EVERY scheduling point of EVERY schedule (P <= 1, thorough 2) is tried as the crash
// point (seam "crash", budget 1): all threads stop there, nothing deferred runs, no Stop. What
// survives is the content of the in-memory files = the bytes of completed write calls, which is
// what survives SIGKILL. Oracle: every acknowledged line is in the target, whole; the target only
// holds whole lines.
// ---------------------------------------------------------------------------------------------

// vfsWriter is the console stream: an io.Writer on top of a vfs file.
type vfsWriter struct{ f *zzvrt.File }

func (w vfsWriter) Write(b []byte) (int, error) { return w.f.Write(b) }

const crashEarlier = "EARLIER-LIFE: a line this process's previous life (same second, same file name) was acknowledged for\n"

const crashEarlierPayload = "ev9-line-of-the-first-life"

type crashObs struct {
	acks []string
	err  string
}

func crashRun(c c03Cfg, threads [][]c03Event, o *crashObs, stop bool, faultOp string) {
	x := zzvrt.Cur()
	// "open": only file creations may fail (a failed creation must leave the appender writing to the file
	// it has). "write": a write call may be refused as a whole (transient EIO / ENOSPC): the line of THAT
	// call is excused, every other acknowledged line still has to be in the target
	x.FS.FaultOps = map[string]bool{faultOp: true}
	x.FS.NoShortWrites = true
	zzvrt.Atomic(func() {
		log.TimeNow = c03Time
		x.FS.MkdirAll("/logs")
		f, err := x.FS.OpenFile("/logs/console.out", 0x441, 0644) // O_WRONLY|O_CREATE|O_APPEND
		if err != nil {
			o.err = err.Error()
			return
		}
		log.Stdout = vfsWriter{f}
		if c.preExist {
			x.FS.Put("/logs/app.log."+x.Now.Format("20060102150405"), []byte(crashEarlier), x.Now)
		}
		if err := log.Refresh(c.config()); err != nil {
			o.err = "refresh: " + err.Error()
		} else if c.rootless {
			log.Destroy() // the events below are served by the built-in console logger, after a configuration without a root has come and gone
		} else if c.secondLife {
			// an earlier life of the same configuration in this process: used once, destroyed, refreshed again
			c03Emit(c03Event{tag: 0, payload: crashEarlierPayload})
			log.Destroy()
			if err := log.Refresh(c.config()); err != nil {
				o.err = "second refresh: " + err.Error()
			}
		}
	})
	if o.err != "" {
		return
	}
	done := 0
	for _, evs := range threads {
		evs := evs
		zzvrt.GoNamed("logger", func() {
			for _, ev := range evs {
				c03Emit(ev)
				o.acks = append(o.acks, ev.payload) // acknowledged: the call has returned
			}
			done++
		})
	}
	zzvrt.WaitUntil(func() bool { return done == len(threads) })
	if stop {
		zzvrt.Atomic(func() { log.Destroy() })
	}
}

func crashTarget(x *zzvrt.Exec, c c03Cfg) string {
	var sb strings.Builder
	for _, name := range x.FS.List("/logs") {
		if (c.sink == "console") == (name == "console.out") {
			sb.Write(x.FS.Nodes["/logs/"+name].Data)
		}
	}
	return sb.String()
}

func crashScenario(c c03Cfg, b zzvrt.Bounds, faultOps ...string) *zzvrt.Scenario {
	faultOp := "open"
	if len(faultOps) > 0 {
		faultOp = faultOps[0]
	}
	var all []c03Event
	for _, t := range c.threads {
		all = append(all, t...)
	}
	// reference lines: each event formatted alone
	resetAll()
	var ro crashObs
	rx := zzvrt.Run(func() { crashRun(c, [][]c03Event{all}, &ro, true, faultOp) }, nil, zzvrt.RunOpts{Bounds: zzvrt.Bounds{Horizon: 100000}, Start: c.start()})
	lineOf := map[string]string{}
	isLine := map[string]bool{}
	for _, l := range strings.SplitAfter(crashTarget(rx, c), "\n") {
		for _, ev := range all {
			if strings.Contains(l, ev.payload) {
				lineOf[ev.payload] = l
				isLine[l] = true
			}
		}
	}
	if c.preExist {
		isLine[crashEarlier] = true
	}
	if c.secondLife {
		for _, l := range strings.SplitAfter(crashTarget(rx, c), "\n") {
			if strings.Contains(l, crashEarlierPayload) {
				isLine[l] = true
			}
		}
	}
	var o crashObs
	return &zzvrt.Scenario{
		Before: func() { resetAll(); o = crashObs{} },
		Body:   func() { crashRun(c, c.threads, &o, false, faultOp) },
		Opts:   zzvrt.RunOpts{Bounds: b, Start: c.start()},
		Check: func(x *zzvrt.Exec) (string, []zzvrt.Violation) {
			key := c.sink + "/" + c.layout
			var v []zzvrt.Violation
			if x.Outcome != "" && x.Outcome != "crash" {
				return x.Outcome, []zzvrt.Violation{{Clause: "no-" + strings.SplitN(x.Outcome, ":", 2)[0], Key: key, Detail: x.Outcome}}
			}
			if c.level != "" {
				key += "/level=" + c.level
			}
			if o.err == "" && ro.err == "" && len(lineOf) != len(all) {
				// the reference run (one thread, all events, run to completion, Destroy) did not leave every line in the target
				return "reference-incomplete", []zzvrt.Violation{{Clause: "acknowledged-line-missing", Key: key, Detail: fmt.Sprintf("one thread logging %d events at enabled levels and running to completion left the lines of only %d of them in the target (target=%q)", len(all), len(lineOf), crashTarget(rx, c))}}
			}
			if o.err != "" || len(lineOf) != len(all) {
				return o.err, []zzvrt.Violation{{Clause: "setup", Key: key, Detail: fmt.Sprintf("err=%q reference err=%q reference lines=%d/%d", o.err, ro.err, len(lineOf), len(all))}}
			}
			content := crashTarget(x, c)
			// lines whose own write call was refused by an injected fault are excused
			refused := func(payload string) bool {
				for _, call := range x.FS.Log {
					if call.Op == "write" && strings.Contains(call.Err, "injected") && strings.Contains(call.Data, payload) {
						return true
					}
				}
				return false
			}
			for _, a := range o.acks {
				if !strings.Contains(content, lineOf[a]) && !refused(a) {
					v = append(v, zzvrt.Violation{Clause: "acknowledged-line-missing", Key: key,
						Detail: fmt.Sprintf("outcome=%q: call for %q had returned but its line is not in the target (target=%q)", x.Outcome, a, content)})
				}
			}
			if c.preExist && o.err == "" && !strings.Contains(content, crashEarlier) {
				v = append(v, zzvrt.Violation{Clause: "earlier-line-gone", Key: key, Detail: fmt.Sprintf("outcome=%q: the file already held a complete line (an earlier life of the process, same file name); it is no longer there whole (target=%q)", x.Outcome, trunc300(content))})
			}
			if c.sink == "rolling-logger+separate" {
				// the target of an event at WARN or above is the .wf file, of the others the plain file
				for _, ev := range all {
					for _, name := range x.FS.List("/logs") {
						if name != "console.out" && strings.Contains(string(x.FS.Nodes["/logs/"+name].Data), lineOf[ev.payload]) && strings.Contains(name, ".wf.") != ev.err {
							v = append(v, zzvrt.Violation{Clause: "line-in-the-wrong-file", Key: key, Detail: fmt.Sprintf("the line of %q (logged at ERROR: %v) is in %s", ev.payload, ev.err, name)})
						}
					}
				}
			}
			if x.Outcome == "" {
				// ran to completion: the multiset of lines is the multiset of events
				for _, ev := range all {
					if n := strings.Count(content, lineOf[ev.payload]); n > 1 {
						v = append(v, zzvrt.Violation{Clause: "line-duplicated", Key: key, Detail: fmt.Sprintf("the line of %q is in the target %d times", ev.payload, n)})
					}
				}
			}
			for _, l := range strings.SplitAfter(content, "\n") {
				if l != "" && !isLine[l] {
					v = append(v, zzvrt.Violation{Clause: "partial-or-foreign-line", Key: key, Detail: fmt.Sprintf("target holds %q which is not a whole line of any event", l)})
				}
			}
			return fmt.Sprintf("%s|acks=%v|%q", x.Outcome, o.acks, content), v
		},
	}
}

func init() {
	ev := func(i, tag int, long bool) c03Event { return c03Event{tag: tag, payload: c03Payload(i, long)} }
	shapes := map[string][][]c03Event{
		"1x3": {{ev(0, 0, false), ev(1, 0, true), ev(2, 0, false)}},
		"2x2": {{ev(0, 0, false), ev(2, 0, false)}, {ev(1, 1, false), ev(3, 1, true)}},
	}
	// the rolling-file LOGGER (owns its appenders; with separate=true a second appender takes WARN and above):
	// INFO and ERROR events, crash at every point
	mixed := [][]c03Event{{ev(0, 0, false), {tag: 1, payload: c03Payload(1, false), err: true}, {tag: 1, payload: c03Payload(2, true), err: true}, ev(3, 0, false)}}
	for _, layout := range []string{"TextLayout", "JSONLayout"} {
		for _, sink := range []string{"rolling-logger", "rolling-logger+separate"} {
			layout, sink := layout, sink
			register("C20", fmt.Sprintf("c20/%s/%s/1x4-info+error", sink, layout), "qt", func(tier string) *zzvrt.Scenario {
				b := zzvrt.Bounds{Preempt: 1, Horizon: 5000}
				b.Env[zzvrt.SeamCrash] = 1
				if tier == "thorough" {
					b.Env[zzvrt.SeamTick] = 1
				}
				return crashScenario(c03Cfg{layout: layout, sink: sink, threads: mixed}, b)
			})
		}
	}
	// "... and stays there": the file of the current interval exists already (a restart within the same second, a second
	// process) and holds an acknowledged line; nothing this life writes may replace it
	for _, sink := range []string{"rolling", "rolling-logger"} {
		sink := sink
		register("C20", "c20/"+sink+"/file-exists-already/1x3", "qt", func(tier string) *zzvrt.Scenario {
			b := zzvrt.Bounds{Preempt: 1, Horizon: 5000}
			b.Env[zzvrt.SeamCrash] = 1
			return crashScenario(c03Cfg{layout: "TextLayout", sink: sink, threads: shapes["1x3"], preExist: true}, b)
		})
	}
	// a second life of the same configuration in one process (Refresh, use, Destroy, Refresh), with an absolute and with a
	// RELATIVE log directory: what the second life is acknowledged for is in the file
	for _, sink := range []string{"file", "rolling", "rolling-logger"} {
		for _, rel := range []bool{false, true} {
			sink, rel := sink, rel
			register("C20", fmt.Sprintf("c20/%s/second-life/relative-dir=%v/1x3", sink, rel), "qt", func(tier string) *zzvrt.Scenario {
				b := zzvrt.Bounds{Preempt: 1, Horizon: 5000}
				b.Env[zzvrt.SeamCrash] = 1
				return crashScenario(c03Cfg{layout: "TextLayout", sink: sink, threads: shapes["1x3"], secondLife: true, relDir: rel}, b)
			})
		}
	}
	// the built-in console logger AFTER a lifecycle: a configuration without a root logger was live and has been destroyed
	for _, shape := range []string{"1x3", "2x2"} {
		shape := shape
		register("C20", "c20/builtin-after-rootless-configuration/"+shape, "qt", func(tier string) *zzvrt.Scenario {
			b := zzvrt.Bounds{Preempt: 1, Horizon: 5000}
			b.Env[zzvrt.SeamCrash] = 1
			return crashScenario(c03Cfg{layout: "TextLayout", sink: "console", threads: shapes[shape], rootless: true}, b)
		})
	}
	// a level on the way: the rolling-file logger with its own level, a logger-level layout in front of two references
	// that carry a level (everything logged here is at or above it: nothing may be held back or dropped)
	for _, layout := range []string{"TextLayout", "JSONLayout"} {
		for _, sk := range [][2]string{{"rolling-logger", "INFO"}, {"rolling-logger+separate", "info~fatal"}, {"fanout", "INFO"}, {"fanout", "DEBUG~PANIC"}} {
			layout, sk := layout, sk
			register("C20", fmt.Sprintf("c20/%s/level=%s/%s/1x4-info+error", sk[0], sk[1], layout), "qt", func(tier string) *zzvrt.Scenario {
				b := zzvrt.Bounds{Preempt: 1, Horizon: 5000}
				b.Env[zzvrt.SeamCrash] = 1
				return crashScenario(c03Cfg{layout: layout, sink: sk[0], threads: mixed, level: sk[1]}, b)
			})
		}
	}
	for _, layout := range []string{"TextLayout", "JSONLayout"} {
		for _, sink := range []string{"console", "file", "rolling"} {
			for _, shape := range []string{"1x3", "2x2"} {
				layout, sink, shape := layout, sink, shape
				register("C20", fmt.Sprintf("c20/%s/%s/%s", sink, layout, shape), "qt", func(tier string) *zzvrt.Scenario {
					b := zzvrt.Bounds{Preempt: 1, Horizon: 5000}
					if tier == "thorough" {
						b.Preempt = 2
					}
					b.Env[zzvrt.SeamCrash] = 1
					return crashScenario(c03Cfg{layout: layout, sink: sink, threads: shapes[shape]}, b)
				})
				if sink == "rolling" {
					// C19 through the public API: the root logger routes everything (also anything the library
					// itself might log) to the rolling appender; boundaries and failing creations, no crash:
					// no panic, no blocked call, every acknowledged line in a file
					register("C19", fmt.Sprintf("c19/via-refresh/%s/%s/%s", sink, layout, shape), "qt", func(tier string) *zzvrt.Scenario {
						b := zzvrt.Bounds{Preempt: 1, Horizon: 5000}
						b.Env[zzvrt.SeamTick] = 2
						b.Env[zzvrt.SeamFault] = 2
						if tier == "thorough" {
							b.Env[zzvrt.SeamTick] = 3
						}
						return crashScenario(c03Cfg{layout: layout, sink: sink, threads: shapes[shape]}, b)
					})
				}
				if sink == "rolling" && shape == "2x2" {
					// C03 across interval boundaries: two threads on a rolling appender while the clock crosses up
					// to two boundaries at any point (a write in flight on a file that later rotations close)
					register("C03", fmt.Sprintf("c03/rolling-boundaries/%s/%s", layout, shape), "qt", func(tier string) *zzvrt.Scenario {
						b := zzvrt.Bounds{Preempt: 1, Horizon: 5000}
						b.Env[zzvrt.SeamTick] = 2
						if tier == "thorough" {
							b.Preempt = 2
						}
						return crashScenario(c03Cfg{layout: layout, sink: sink, threads: shapes[shape]}, b)
					})
				}
				if sink == "rolling" && shape == "2x2" {
					// the same with file creations failing at up to two (consecutive) boundaries: nothing accepted is dropped
					register("C03", fmt.Sprintf("c03/rolling-boundaries+failed-creations/%s/%s", layout, shape), "qt", func(tier string) *zzvrt.Scenario {
						b := zzvrt.Bounds{Preempt: 0, Horizon: 5000}
						b.Env[zzvrt.SeamTick] = 3
						b.Env[zzvrt.SeamFault] = 2
						if tier == "thorough" {
							b.Preempt = 1
						}
						return crashScenario(c03Cfg{layout: layout, sink: sink, threads: shapes[shape]}, b)
					})
				}
				if shape == "1x3" {
					// transient write faults before the crash point: a refused write loses its own line only
					register("C20", fmt.Sprintf("c20/%s/%s/%s/transient-write-faults", sink, layout, shape), "qt", func(tier string) *zzvrt.Scenario {
						b := zzvrt.Bounds{Preempt: 1, Horizon: 5000}
						b.Env[zzvrt.SeamCrash] = 1
						b.Env[zzvrt.SeamFault] = 1
						if tier == "thorough" {
							b.Env[zzvrt.SeamFault] = 2
						}
						return crashScenario(c03Cfg{layout: layout, sink: sink, threads: shapes[shape]}, b, "write")
					})
				}
				if sink == "rolling" && shape == "2x2" {
					// two threads, an interval boundary crossed at any clock read, a crash at any point: a call
					// that returns while ANOTHER thread's rotation is in progress has its line in a file all the same
					register("C20", fmt.Sprintf("c20/%s/%s/%s/boundaries", sink, layout, shape), "qt", func(tier string) *zzvrt.Scenario {
						b := zzvrt.Bounds{Preempt: 1, Horizon: 5000}
						b.Env[zzvrt.SeamCrash] = 1
						b.Env[zzvrt.SeamTick] = 1
						if tier == "thorough" {
							b.Preempt = 2
							b.Env[zzvrt.SeamTick] = 2
						}
						return crashScenario(c03Cfg{layout: layout, sink: sink, threads: shapes[shape]}, b)
					})
				}
				if sink == "rolling" && shape == "1x3" {
					// a process west of UTC whose retention is shorter than the zone offset: the cleanup after a rotation
					// must leave the file being written (and the line just acknowledged) where it is
					for _, z := range []struct {
						name string
						off  int
						age  string
					}{{"UTC-8", -8 * 3600, "6"}, {"UTC+9", 9 * 3600, "6"}} {
						z := z
						register("C20", fmt.Sprintf("c20/%s/%s/%s/zone=%s/maxAge=%s", sink, layout, shape, z.name, z.age), "qt", func(tier string) *zzvrt.Scenario {
							b := zzvrt.Bounds{Preempt: 1, Horizon: 5000}
							b.Env[zzvrt.SeamCrash] = 1
							b.Env[zzvrt.SeamTick] = 2
							return crashScenario(c03Cfg{layout: layout, sink: sink, threads: shapes[shape], zone: time.FixedZone(z.name, z.off), maxAge: z.age}, b)
						})
					}
				}
				if sink == "rolling" && shape == "1x3" {
					// the same with interval boundaries and failing file creations before the crash point
					register("C20", fmt.Sprintf("c20/%s/%s/%s/boundaries+failed-creations", sink, layout, shape), "qt", func(tier string) *zzvrt.Scenario {
						b := zzvrt.Bounds{Preempt: 1, Horizon: 5000}
						b.Env[zzvrt.SeamCrash] = 1
						b.Env[zzvrt.SeamTick] = 2
						b.Env[zzvrt.SeamFault] = 1
						if tier == "thorough" {
							b.Env[zzvrt.SeamFault] = 2
						}
						return crashScenario(c03Cfg{layout: layout, sink: sink, threads: shapes[shape]}, b)
					})
				}
			}
		}
	}
}
