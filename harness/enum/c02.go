package main

var c02Universe = map[string]bool{}
