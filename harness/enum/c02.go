package main

import (
	"context"
	"fmt"
	"strings"

	log "github.com/go-spring/log"
)

// ---------------------------------------------------------------------------------------------
// C02 - each tag is served by the most specific configured logger, else root.
//
// A universe of 10 registered tags sharing prefixes and near-prefixes; every assignment of tag
// lists (<= 2 patterns each, from a 16-pattern alphabet of literals, wildcards and malformed
// wildcards) to 2 non-root loggers (3 with single-pattern lists; thorough: 3 with <= 2 / 4 with
// <= 1) x {no root, root, root with tags}. Reference: longest-prefix router + the four error rules.
// ---------------------------------------------------------------------------------------------

var c02TagNames = []string{"_a_b", "_a_b_c", "_a_b_c_d", "_a_c", "_ab_c", "a_b", "a_b_c", "abc", "_a_bc", "a_bc_d"}
var c02Universe = map[string]bool{}
var c02Tags = map[string]*log.Tag{}

func init() {
	for _, n := range c02TagNames {
		c02Universe[n] = true
		c02Tags[n] = regTag(n)
	}
}

var c02Patterns = []string{"_a_b", "_a_b_c", "_a_c", "a_b", "abc", "_zz_unused", "_a_*", "_a_b_*", "_a_b_c_*", "a_*", "_ab_*", "_x_*", "a_b_*", "*", "_a*", "a_*_b"}

type c02Case struct {
	Loggers  []string `json:"logger_tags"`                 // tags attribute of logger l0, l1, ...
	Root     string   `json:"root"`                        // "none" | "plain" | "tags"
	ViaProp  bool     `json:"tags_via_property,omitempty"` // every tag list is given as ${property} instead of literally
	BadStart bool     `json:"l0_cannot_start,omitempty"`   // logger l0 is an AsyncLogger whose Start fails (bufferSize below the minimum): Refresh fails - or, if it succeeds, routes as configured
	Levels   []string `json:"logger_levels,omitempty"`     // level attribute of logger l0, l1, ... ("" = not set): routing and the error rules do not depend on it
}

// refRoute returns the serving logger name ("l0".., "root" or "console") per tag, or an error.
func refRoute(c c02Case) (map[string]string, bool) {
	owner := map[string]string{}
	for i, attr := range c.Loggers {
		name := fmt.Sprintf("l%d", i)
		n := 0
		for _, p := range strings.Split(attr, ",") {
			p = strings.TrimSpace(p)
			if p == "" {
				continue
			}
			if strings.Contains(p, "*") && !strings.HasSuffix(p, "_*") {
				return nil, false
			}
			if o, ok := owner[p]; ok && o != name {
				return nil, false
			}
			owner[p] = name
			n++
		}
		if n == 0 {
			return nil, false
		}
	}
	if c.Root == "tags" {
		return nil, false
	}
	def := "console"
	if c.Root == "plain" {
		def = "root"
	}
	out := map[string]string{}
	for _, tag := range c02TagNames {
		serve := def
		if o, ok := owner[tag]; ok {
			serve = o
		} else {
			// proper underscore-delimited prefixes, longest first
			for i := len(tag) - 1; i > 0; i-- {
				if tag[i] == '_' {
					if o, ok := owner[tag[:i]+"_*"]; ok {
						serve = o
						break
					}
				}
			}
		}
		out[tag] = serve
	}
	return out, true
}

func init() {
	definePart("C02", "c02/tag-routing", "qt",
		fmt.Sprintf("10 registered tags; tag lists of <= 2 patterns from %d (with blanks / duplicate separators) on 2 loggers, single patterns on 3 (thorough: <=2 on 3 loggers over 8 patterns, single on 4) x root none/plain/with-tags", len(c02Patterns)),
		func(tier string, yield func(c02Case)) {
			var lists []string
			for i, p := range c02Patterns {
				lists = append(lists, p)
				for j := i + 1; j < len(c02Patterns); j++ {
					if (i+j)%2 == 0 {
						lists = append(lists, p+","+c02Patterns[j])
					} else {
						lists = append(lists, " "+c02Patterns[j]+" ,, "+p+", ")
					}
				}
			}
			lists = append(lists, "", " , ", "_a_b,_a_b")
			roots := []string{"none", "plain", "tags"}
			for _, via := range []bool{false, true} {
				for _, a := range lists {
					yield(c02Case{Loggers: []string{a}, Root: "plain", ViaProp: via})
					yield(c02Case{Loggers: []string{a}, Root: "none", ViaProp: via})
					for _, b := range lists {
						for _, r := range roots {
							if r == "tags" && (len(a)+len(b))%7 != 0 {
								continue
							}
							yield(c02Case{Loggers: []string{a, b}, Root: r, ViaProp: via})
						}
					}
				}
			}
			// the rules are about tag lists: a logger whose level range excludes the event, or is empty ("max", "info~info",
			// "error~info" - the usual way to silence a tag), still owns its tags (nothing reaches anyone) and still has to obey the error rules
			for _, lv := range []string{"max", "info~info", "error~info", "ERROR", "none~none"} {
				for _, a := range lists {
					for _, b := range c02Patterns {
						yield(c02Case{Loggers: []string{a, b}, Root: roots[len(a)%2], Levels: []string{lv, ""}})
					}
					yield(c02Case{Loggers: []string{a}, Root: "plain", Levels: []string{lv}})
				}
			}
			// a non-root logger that cannot start: no "successful Refresh" may route its tags elsewhere
			for _, a := range lists {
				for _, b := range c02Patterns {
					yield(c02Case{Loggers: []string{a, b}, Root: roots[len(b)%2], BadStart: true})
				}
			}
			single := c02Patterns
			for _, a := range single {
				for _, b := range single {
					for _, c := range single {
						yield(c02Case{Loggers: []string{a, b, c}, Root: roots[(len(a)+len(b)+len(c))%2]})
					}
				}
			}
			if tier == "thorough" {
				sub := []string{"_a_b", "_a_*", "_a_b_*", "_a_b_c_*", "a_*", "_ab_*", "abc", "*"}
				var l2 []string
				for i, p := range sub {
					l2 = append(l2, p)
					for j := i + 1; j < len(sub); j++ {
						l2 = append(l2, p+","+sub[j])
					}
				}
				for _, a := range l2 {
					for _, b := range l2 {
						for _, c := range l2 {
							yield(c02Case{Loggers: []string{a, b, c}, Root: "plain"})
						}
					}
				}
				for _, a := range single {
					for _, b := range single {
						for _, c := range single {
							for _, d := range single {
								yield(c02Case{Loggers: []string{a, b, c, d}, Root: "none"})
							}
						}
					}
				}
			}
		},
		func(c c02Case) (string, []Violation, int) {
			confReset()
			conf := map[string]string{"appender.rroot.type": "Rec"}
			for i, tags := range c.Loggers {
				n := fmt.Sprintf("l%d", i)
				conf["appender.r"+n+".type"] = "Rec"
				conf["logger."+n+".type"] = "Logger"
				conf["logger."+n+".appenderRef.ref"] = "r" + n
				if c.BadStart && i == 0 {
					conf["logger."+n+".type"] = "AsyncLogger"
					conf["logger."+n+".bufferSize"] = "50"
				}
				if i < len(c.Levels) && c.Levels[i] != "" {
					conf["logger."+n+".level"] = c.Levels[i]
				}
				if tags != "" {
					conf["logger."+n+".tags"] = tags
					if c.ViaProp {
						// "a value of the form ${key} is replaced by the top-level property key": the same routing
						conf["logger."+n+".tags"] = fmt.Sprintf("${c02-tags-%d}", i)
						conf[fmt.Sprintf("c02Tags%d", i)] = tags
					}
				}
			}
			switch c.Root {
			case "plain", "tags":
				conf["logger.root.type"] = "Logger"
				conf["logger.root.appenderRef.ref"] = "rroot"
				if c.Root == "tags" {
					conf["logger.root.tags"] = "_a_*"
				}
			}
			key := fmt.Sprintf("loggers=%q root=%s", c.Loggers, c.Root)
			if len(c.Levels) > 0 {
				key += fmt.Sprintf(" levels=%q", c.Levels)
			}
			if c.ViaProp {
				key += " (tag lists through ${properties}; a named handle exists for logger l0)"
				// the rules are about the configuration: a handle obtained for a logger's name does not excuse it from listing tags
				safeCall(func() { log.GetLogger("l0") })
				// ... and the application has listed the tags and reused the list it got (in-place filter idiom): the list is
				// the caller's, the routing of the REGISTERED tags does not depend on what happens to it
				if l := log.GetAllTags(); len(l) > 0 {
					keep := l[:0]
					for _, t := range l {
						if strings.HasPrefix(t, "zz") {
							keep = append(keep, t)
						}
					}
					for i := range l {
						l[i] = "gone"
					}
					_ = keep
				}
			}
			// excluded: the empty-prefix wildcard "_*" and inner-'*' patterns that end in "_*"
			want, ok := refRoute(c)
			err, pn := safeRefresh(conf)
			if pn != nil {
				return "panic", []Violation{{Clause: "refresh-panicked", Key: key, Detail: fmt.Sprint(pn)}}, 1
			}
			if c.BadStart {
				key += " (l0 cannot start)"
				if err != nil {
					return "rejected", nil, 1 // the usual answer; a Refresh that succeeds nevertheless has to route as configured (below)
				}
				if !ok {
					return "mismatch", []Violation{{Clause: "config-validity", Key: key, Detail: fmt.Sprintf("Refresh err=%v, the routing rules say valid=%v (%s)", err, ok, confString(conf))}}, 1
				}
			} else if ok != (err == nil) {
				return "mismatch", []Violation{{Clause: "config-validity", Key: key, Detail: fmt.Sprintf("Refresh err=%v, the routing rules say valid=%v (%s)", err, ok, confString(conf))}}, 1
			}
			if !ok {
				return "rejected", nil, 1
			}
			var v []Violation
			ctx := context.Background()
			for _, tag := range c02TagNames {
				log.Info(ctx, c02Tags[tag], log.Msg("t:"+tag))
			}
			log.Destroy()
			served := map[string][]string{}
			for app, items := range recStore {
				for _, it := range items {
					served[strings.TrimPrefix(it.ID, "t:")] = append(served[strings.TrimPrefix(it.ID, "t:")], strings.TrimPrefix(app, "r"))
				}
			}
			for _, line := range strings.Split(consoleBuf.String(), "\n") {
				if i := strings.Index(line, "msg=t:"); i >= 0 {
					served[line[i+6:]] = append(served[line[i+6:]], "console")
				}
			}
			var sb strings.Builder
			for _, tag := range c02TagNames {
				got := served[tag]
				fmt.Fprintf(&sb, "%s->%v ", tag, got)
				if w := want[tag]; len(w) > 1 && w[0] == 'l' {
					var i int
					fmt.Sscanf(w[1:], "%d", &i)
					if i < len(c.Levels) && c.Levels[i] != "" && !refParseRange(c.Levels[i]).has(300) {
						// served by a logger whose range excludes INFO: the event goes nowhere (in particular not to root)
						if len(got) != 0 {
							v = append(v, Violation{Clause: "tag-served-by", Key: key, Detail: fmt.Sprintf("tag %s is served by logger %s whose level %q excludes INFO, but the event reached %v (%s)", tag, w, c.Levels[i], got, confString(conf))})
						}
						continue
					}
				}
				if len(got) != 1 || got[0] != want[tag] {
					v = append(v, Violation{Clause: "tag-served-by", Key: key, Detail: fmt.Sprintf("tag %s served by %v, want exactly [%s] (%s)", tag, got, want[tag], confString(conf))})
				}
			}
			return sb.String(), v, len(c02TagNames)
		})
}
