package main

import (
	"context"
	"runtime"

	log "github.com/go-spring/log"
)

// Call sites at source lines around and above 2^16 (generated code, //line directives): a location kept in
// fewer bits than an int wraps. The //line directives below renumber the file; runtime.Caller follows them
// too, so the oracle is the usual one (the line above the call).

//line c11_generated_big.go:65530
func c11Big0() (string, int) {
	_, f, l, _ := runtime.Caller(0)
	log.Info(context.Background(), tagC01, log.Msg("big0"))
	return f, l + 1
}

//line c11_generated_big.go:65533
func c11Big1() (string, int) {
	_, f, l, _ := runtime.Caller(0)
	log.Errorf(context.Background(), tagC01, "%s", "big1")
	return f, l + 1
}

//line c11_generated_big.go:70000
func c11Big2() (string, int) {
	_, f, l, _ := runtime.Caller(0)
	log.Warn(context.Background(), tagC01, log.Msg("big2"))
	return f, l + 1
}

//line c11_generated_big.go:131073
func c11Big3() (string, int) {
	_, f, l, _ := runtime.Caller(0)
	log.Record(context.Background(), log.InfoLevel, tagC01, 1, log.Msg("big3"))
	return f, l + 1
}

//line c11_generated_big.go:4294967
func c11Big4() (string, int) {
	_, f, l, _ := runtime.Caller(0)
	log.Debug(context.Background(), tagC01, func() []log.Field { return []log.Field{log.Msg("big4")} })
	return f, l + 1
}

//line c11_bigline.go:57
var c11BigSites = []func() (string, int){c11Big0, c11Big1, c11Big2, c11Big3, c11Big4}

func init() {
	type bigCase struct {
		Fast bool `json:"fast"`
	}
	definePart("C11", "c11/large-line-numbers", "qt", "call sites at lines 65532, 65535/65536, 70002, 131075 and 4294969, three calls each (miss, hit, hit), both modes",
		func(tier string, yield func(bigCase)) {
			yield(bigCase{false})
			yield(bigCase{true})
		},
		func(c bigCase) (string, []Violation, int) {
			confReset()
			log.VerifReset()
			key := "large line numbers fast=" + map[bool]string{true: "true", false: "false"}[c.Fast]
			if err, pn := safeRefresh(map[string]string{"appender.r0.type": "Rec", "logger.root.type": "Logger", "logger.root.appenderRef.ref": "r0", "logger.root.level": "TRACE",
				"enableCaller": "true", "fastCaller": map[bool]string{true: "true", false: "false"}[c.Fast]}); err != nil || pn != nil {
				return "refresh-failed", []Violation{{Clause: "valid-config-rejected", Key: key, Detail: "refresh failed"}}, 1
			}
			type w struct {
				f string
				l int
			}
			var want []w
			for round := 0; round < 3; round++ {
				for _, s := range c11BigSites {
					f, l := s()
					want = append(want, w{f, l})
				}
			}
			log.Destroy()
			var v []Violation
			items := recStore["r0"]
			if len(items) != len(want) {
				return "count", []Violation{{Clause: "site-did-not-log", Key: key, Detail: "wrong number of events"}}, 1
			}
			for i, it := range items {
				if it.Event.File != want[i].f || it.Event.Line != want[i].l {
					v = append(v, Violation{Clause: "wrong-location", Key: key, Detail: "call " + itoa(i/len(c11BigSites)+1) + " from " + want[i].f + ":" + itoa(want[i].l) + " is reported as " + it.Event.File + ":" + itoa(it.Event.Line)})
				}
			}
			return itoa(len(items)), v, len(items)
		})
}

func itoa(n int) string {
	if n == 0 {
		return "0"
	}
	neg := n < 0
	if neg {
		n = -n
	}
	var b []byte
	for n > 0 {
		b = append([]byte{byte('0' + n%10)}, b...)
		n /= 10
	}
	if neg {
		b = append([]byte{'-'}, b...)
	}
	return string(b)
}
