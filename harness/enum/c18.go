package main

import (
	"context"
	"encoding/json"
	"fmt"
	"regexp"
	"sort"
	"strings"
	"unicode/utf8"

	log "github.com/go-spring/log"
)

// ---------------------------------------------------------------------------------------------
// C18 - tag names: exactly the documented language is accepted; idempotent registry.
// ---------------------------------------------------------------------------------------------

var tagRe = regexp.MustCompile(`^_?[a-z0-9]+(_[a-z0-9]+){0,3}$`)

// refValidTag is the documented language, hand-written (cross-checked against the regular
// expression in the registry part).
func refValidTag(s string) bool {
	if len(s) < 3 || len(s) > 36 {
		return false
	}
	i := 0
	if s[0] == '_' {
		i = 1
	}
	segs, segLen := 0, 0
	for ; i < len(s); i++ {
		c := s[i]
		switch {
		case c >= 'a' && c <= 'z' || c >= '0' && c <= '9':
			segLen++
		case c == '_':
			if segLen == 0 {
				return false
			}
			segs++
			segLen = 0
		default:
			return false
		}
	}
	if segLen == 0 {
		return false
	}
	segs++
	return segs >= 1 && segs <= 4
}

var c18Alphabet = []byte{'a', 'z', '0', '9', '_', 'A', '-', '.', ' ', 0xc3}

func tryRegister(name string) (t *log.Tag, panicked any) {
	defer func() { panicked = recover() }()
	return log.RegisterTag(name), nil
}

func init() {
	// (0) the documented-valid tags this harness itself registers at start-up
	parts = append(parts, partDef{prop: "C18", name: "c18/harness-tags", tiers: "qt", run: func(r *runCtx, p *Part) {
		p.Bounds = "the 13 documented-valid tag names registered by the harness at start-up"
		p.Executions, p.States, p.Transitions = 13, 13, 13
		p.addObs("accept")
		p.addObs("registered")
		if r.shard == 0 {
			for _, f := range tagInitFailures {
				p.fail(Violation{Clause: "valid-rejected", Key: f, Detail: f}, f)
			}
		}
	}})
	// (1) the predicate on every string of length <= 7 (thorough 8) over the 10-symbol alphabet
	parts = append(parts, partDef{prop: "C18", name: "c18/predicate-all-strings", tiers: "qt", run: func(r *runCtx, p *Part) {
		n := 7
		if r.tier == "thorough" {
			n = 8
		}
		p.Bounds = fmt.Sprintf("every string of length <= %d over %q", n, c18Alphabet)
		b := make([]byte, n)
		acc := 0
		var rec func(l, d int)
		rec = func(l, d int) {
			if d == l {
				s := string(b[:l])
				p.Executions++
				got, want := log.VerifIsValidTag(s), refValidTag(s)
				if got {
					acc++
				}
				if got != want {
					p.fail(Violation{Clause: "tag-language", Key: fmt.Sprintf("%q", s), Detail: fmt.Sprintf("isValidTag(%q)=%v, documented language says %v", s, got, want)}, s)
				}
				return
			}
			for _, c := range c18Alphabet {
				b[d] = c
				rec(l, d+1)
			}
		}
		for l := 0; l <= n; l++ {
			if l == 0 {
				if r.shard == 0 {
					rec(0, 0)
				}
				continue
			}
			for i, c := range c18Alphabet {
				if i%r.nshards == r.shard {
					b[0] = c
					rec(l, 1)
				}
			}
		}
		p.States, p.Transitions = p.Executions, p.Executions
		p.Extra = map[string]any{"accepted": acc}
		p.addObs("accept")
		p.addObs("reject")
		p.Samples = append(p.Samples, map[string]any{"accepted_example": "_a0_z9", "rejected_example": "a__z"})
	}, replay: c18Replay})
	// (1b) the predicate must not depend on what was validated before: every shard walks ALL strings of
	// length <= 5 (its own rotation of the alphabet), ascending and then descending, in one process - the
	// second pass evaluates every string after every other string has been evaluated
	parts = append(parts, partDef{prop: "C18", name: "c18/predicate-histories", tiers: "qt", run: func(r *runCtx, p *Part) {
		n := 5
		p.Bounds = fmt.Sprintf("every string of length <= %d over the alphabet, evaluated in one process in ascending and then descending order (one alphabet rotation per shard)", n)
		alpha := append(append([]byte(nil), c18Alphabet[r.shard%len(c18Alphabet):]...), c18Alphabet[:r.shard%len(c18Alphabet)]...)
		var all []string
		b := make([]byte, n)
		var rec func(l, d int)
		rec = func(l, d int) {
			if d == l {
				all = append(all, string(b[:l]))
				return
			}
			for _, c := range alpha {
				b[d] = c
				rec(l, d+1)
			}
		}
		for l := 0; l <= n; l++ {
			rec(l, 0)
		}
		eval := func(s, pass string) {
			p.Executions++
			if got, want := log.VerifIsValidTag(s), refValidTag(s); got != want {
				p.fail(Violation{Clause: "tag-language", Key: fmt.Sprintf("%q", s), Detail: fmt.Sprintf("%s pass: isValidTag(%q)=%v, documented language says %v", pass, s, got, want)}, s)
			}
		}
		for _, s := range all {
			eval(s, "ascending")
		}
		for i := len(all) - 1; i >= 0; i-- {
			eval(all[i], "descending (after every other string)")
		}
		p.States, p.Transitions = p.Executions, p.Executions
		p.addObs("accept")
		p.addObs("reject")
	}, replay: c18Replay})
	// (2) segment compositions at total lengths 2..38, with/without leading, trailing, doubled underscores
	parts = append(parts, partDef{prop: "C18", name: "c18/segment-compositions", tiers: "qt", run: func(r *runCtx, p *Part) {
		p.Bounds = "all compositions of total lengths 2..38 into 1..5 segments x leading/trailing/doubled underscore; every byte 0..255 at each position of 3 valid tags"
		var comp func(total, k int, cur []int, f func([]int))
		comp = func(total, k int, cur []int, f func([]int)) {
			if k == 1 {
				f(append(cur, total))
				return
			}
			for first := 1; first <= total-(k-1); first++ {
				comp(total-first, k-1, append(cur, first), f)
			}
		}
		// a group (one composition with its underscore variants; one position of a valid tag with all 256
		// bytes) is checked in ONE process, in order, and once more after everything else has been checked
		var again []string
		mine := false
		check := func(s string) {
			if !mine {
				return
			}
			again = append(again, s)
			p.Executions++
			got, want := log.VerifIsValidTag(s), refValidTag(s)
			if got != want || want != (tagRe.MatchString(s) && len(s) >= 3 && len(s) <= 36) {
				p.fail(Violation{Clause: "tag-language", Key: fmt.Sprintf("%q", s), Detail: fmt.Sprintf("isValidTag(%q)=%v, reference %v, regexp %v", s, got, want, tagRe.MatchString(s))}, s)
			}
		}
		for k := 1; k <= 5; k++ {
			for letters := k; letters <= 38; letters++ {
				comp(letters, k, nil, func(segs []int) {
					mine = r.mine()
					var ps []string
					for i, n := range segs {
						ps = append(ps, strings.Repeat(string(rune('a'+i)), n))
					}
					base := strings.Join(ps, "_")
					for _, s := range []string{base, "_" + base, base + "_", "__" + base, strings.Replace(base, "_", "__", 1)} {
						if len(s) >= 2 && len(s) <= 38 {
							check(s)
						}
					}
				})
			}
		}
		for _, valid := range []string{"_a_b", "abc", "_abc_d0_e1_f2"} {
			for i := 0; i < len(valid); i++ {
				mine = r.mine()
				for c := 0; c < 256; c++ {
					b := []byte(valid)
					b[i] = byte(c)
					check(string(b))
				}
			}
		}
		mine = true
		first := again
		again = nil
		for i := len(first) - 1; i >= 0; i-- {
			check(first[i])
		}
		p.States, p.Transitions = p.Executions, p.Executions
		p.addObs("accept")
		p.addObs("reject")
	}, replay: c18Replay})
	// (3) the public registry: every string of length <= 5 (quick 4) through RegisterTag
	parts = append(parts, partDef{prop: "C18", name: "c18/registry", tiers: "qt", run: func(r *runCtx, p *Part) {
		n := 4
		if r.tier == "thorough" {
			n = 5
		}
		p.Bounds = fmt.Sprintf("RegisterTag on every string of length <= %d over the alphabet, twice; GetAllTags compared with the registry model; app/biz/rpc helpers on a 7-string part alphabet", n)
		log.VerifReset()
		model := map[string]bool{}
		for _, t := range log.GetAllTags() {
			model[t] = true
		}
		b := make([]byte, n)
		var batch int
		history := false
		verifyAll := func(where string) {
			got := log.GetAllTags()
			var want []string
			for t := range model {
				want = append(want, t)
			}
			sort.Strings(want)
			if strings.Join(got, ",") != strings.Join(want, ",") {
				p.fail(Violation{Clause: "registry-contents", Key: where, Detail: fmt.Sprintf("GetAllTags()=%v, registered=%v", got, want)}, where)
			}
			// the list is the caller's: overwritten here, the next call (no registration in between) reports the registry again
			for i := range got {
				got[i] = "SCRIBBLED"
			}
			if again := log.GetAllTags(); strings.Join(again, ",") != strings.Join(want, ",") {
				p.fail(Violation{Clause: "registry-contents", Key: where, Detail: fmt.Sprintf("after the caller overwrote the list it had received: GetAllTags()=%v, registered=%v", again, want)}, where)
			}
		}
		one := func(s string) {
			p.Executions++
			p.Transitions += 2
			before := len(log.GetAllTags())
			t1, pn := tryRegister(s)
			want := refValidTag(s)
			switch {
			case want && pn != nil:
				p.fail(Violation{Clause: "valid-rejected", Key: fmt.Sprintf("%q", s), Detail: fmt.Sprintf("RegisterTag(%q) panicked: %v", s, pn)}, s)
			case !want && pn == nil:
				p.fail(Violation{Clause: "invalid-accepted", Key: fmt.Sprintf("%q", s), Detail: fmt.Sprintf("RegisterTag(%q) accepted a name outside the documented language", s)}, s)
			case !want:
				if len(log.GetAllTags()) != before {
					p.fail(Violation{Clause: "rejected-but-registered", Key: fmt.Sprintf("%q", s), Detail: "a rejected name changed the registry"}, s)
				}
			default:
				model[s] = true
				t2, pn2 := tryRegister(s)
				if pn2 != nil || t1 != t2 || t1 == nil {
					p.fail(Violation{Clause: "not-idempotent", Key: fmt.Sprintf("%q", s), Detail: fmt.Sprintf("second RegisterTag(%q): %p vs %p panic=%v", s, t1, t2, pn2)}, s)
				}
			}
			if batch++; !history && batch%500 == 0 {
				verifyAll("batch")
				log.VerifReset()
				model = map[string]bool{}
				for _, t := range log.GetAllTags() {
					model[t] = true
				}
			}
		}
		var rec func(l, d int)
		rec = func(l, d int) {
			if d == l {
				one(string(b[:l]))
				return
			}
			for _, c := range c18Alphabet {
				b[d] = c
				rec(l, d+1)
			}
		}
		for l := 1; l <= n; l++ {
			for i, c := range c18Alphabet {
				if i%r.nshards == r.shard {
					b[0] = c
					rec(l, 1)
				}
			}
		}
		verifyAll("end")
		// history: every valid name of length <= 3 (thorough 4) is registered first, then EVERY string of that
		// length goes through RegisterTag, in descending order - the verdict on a name must not depend on
		// which names were accepted before (in this process: all of them)
		{
			hn := n - 1
			var all []string
			hb := make([]byte, hn)
			var hrec func(l, d int)
			hrec = func(l, d int) {
				if d == l {
					all = append(all, string(hb[:l]))
					return
				}
				for _, c := range c18Alphabet {
					hb[d] = c
					hrec(l, d+1)
				}
			}
			for l := 1; l <= hn; l++ {
				hrec(l, 0)
			}
			log.VerifReset()
			history = true
			model = map[string]bool{}
			for _, t := range log.GetAllTags() {
				model[t] = true
			}
			for _, s := range all {
				if refValidTag(s) {
					if _, pn := tryRegister(s); pn == nil {
						model[s] = true
					}
				}
			}
			for i := len(all) - 1; i >= 0; i-- {
				one(all[i])
			}
			verifyAll("history")
		}
		// helpers
		if r.shard == 0 {
			// parts around every length at which the built name crosses the 3 / 36 character limits, with and without an action
			rep := func(n int) string { return strings.Repeat("k", n) }
			partsA := []string{"", "a", "ab1", "a_b", "A", "x-y", "abcdefghijklmnopq", rep(12), rep(13), rep(14), rep(15), rep(16), rep(17), rep(29), rep(30), rep(31), rep(32), "a_" + rep(12), rep(28) + "_b"}
			type helper struct {
				name string
				f    func(a, b string) *log.Tag
			}
			for _, h := range []helper{{"app", log.RegisterAppTag}, {"biz", log.RegisterBizTag}, {"rpc", log.RegisterRPCTag}} {
				for _, sub := range partsA {
					for _, act := range partsA {
						p.Executions++
						var t *log.Tag
						var pn any
						func() {
							defer func() { pn = recover() }()
							t = h.f(sub, act)
						}()
						name := "_" + h.name + "_" + sub
						if act != "" {
							name += "_" + act
						}
						want := sub != "" && refValidTag(name)
						if want != (pn == nil) {
							p.fail(Violation{Clause: "helper", Key: h.name + "(" + sub + "," + act + ")", Detail: fmt.Sprintf("Register%sTag(%q,%q): panic=%v, expected accepted=%v (name %q)", h.name, sub, act, pn, want, name)}, name)
						} else if want {
							if t2, _ := tryRegister(name); t2 != t {
								p.fail(Violation{Clause: "helper-name", Key: h.name + "(" + sub + "," + act + ")", Detail: fmt.Sprintf("helper did not register %q", name)}, name)
							}
						}
					}
				}
			}
		}
		log.VerifReset()
		p.States = p.Executions
		p.addObs("accept")
		p.addObs("reject")
	}, replay: c18Replay})
}

// (5) every rune: the language is ASCII lowercase letters, digits and underscores - every other Unicode
// code point (all 1.1 M of them, whatever class it is in: lowercase letters of other scripts, other decimal
// digits, connector punctuation ...) is rejected at the start, in the middle and at the end of a valid tag,
// and as a whole 3-rune name; surrogates / out-of-range values are covered as their encoded replacement.
func init() {
	parts = append(parts, partDef{prop: "C18", name: "c18/every-rune", tiers: "qt", run: func(r *runCtx, p *Part) {
		p.Bounds = "every Unicode code point U+0080..U+10FFFF (and every ASCII byte) at 4 positions of 2 valid tags and tripled on its own"
		var buf [4]byte
		for cp := rune(0); cp <= 0x10FFFF; cp++ {
			if int(cp)%r.nshards != r.shard {
				continue
			}
			if cp&0xFFFF == 0 && r.expired() {
				p.Capped = true
				return
			}
			n := utf8.EncodeRune(buf[:], cp)
			x := string(buf[:n])
			for _, s := range [...]string{x + "bc_d", "ab" + x + "_d", "ab_c" + x, "_app_" + x + "y", x + x + x} {
				p.Executions++
				if got, want := log.VerifIsValidTag(s), refValidTag(s); got != want {
					p.fail(Violation{Clause: "tag-language", Key: fmt.Sprintf("%q", s), Detail: fmt.Sprintf("isValidTag(%q)=%v, documented language says %v (code point U+%04X)", s, got, want, cp)}, s)
				}
			}
		}
		p.States, p.Transitions = p.Executions, p.Executions
		p.addObs("accept")
		p.addObs("reject")
	}, replay: c18Replay})
}

// (4) registry growth: N distinct valid names registered one after the other; at every checkpoint (around
// every power of two up to 1024, so that any growth step of a backing structure is crossed) every earlier
// name is registered again and must yield the tag it yielded the first time; GetAllTags is exactly the set;
// after a Refresh every tag handed out FIRST (before the growth) is served by the configured logger.
func init() {
	parts = append(parts, partDef{prop: "C18", name: "c18/registry-growth", tiers: "qt", run: func(r *runCtx, p *Part) {
		if r.shard != 0 {
			return
		}
		maxN := 1100
		p.Bounds = fmt.Sprintf("%d distinct valid names registered in sequence; all earlier names re-registered (pointer identity) at 40 checkpoints around every power of two; GetAllTags = the set; after Refresh every first-handed-out tag is served", maxN)
		log.VerifReset()
		confReset2()
		base := map[string]bool{}
		for _, t := range log.GetAllTags() {
			base[t] = true
		}
		check := map[int]bool{1: true, 2: true, 3: true, 5: true, maxN: true}
		for k := 4; k <= 1024; k *= 2 {
			check[k-1], check[k], check[k+1] = true, true, true
		}
		var names []string
		first := map[string]*log.Tag{}
		for i := 0; i < maxN; i++ {
			name := fmt.Sprintf("g%03d_x", i)
			if i%3 == 1 {
				name = fmt.Sprintf("_g_%d", i)
			}
			t, pn := tryRegister(name)
			p.Executions++
			if pn != nil || t == nil {
				p.fail(Violation{Clause: "valid-rejected", Key: name, Detail: fmt.Sprintf("RegisterTag(%q) after %d registrations: panic=%v", name, i, pn)}, name)
				continue
			}
			names = append(names, name)
			first[name] = t
			if !check[len(names)] {
				continue
			}
			for _, n := range names {
				p.Transitions++
				if t2, pn2 := tryRegister(n); pn2 != nil || t2 != first[n] {
					p.fail(Violation{Clause: "not-idempotent-after-growth", Key: fmt.Sprintf("%d names", len(names)),
						Detail: fmt.Sprintf("with %d names registered, RegisterTag(%q) yields %p, the first registration yielded %p (panic=%v)", len(names), n, t2, first[n], pn2)}, n)
					break
				}
			}
			got := log.GetAllTags()
			if len(got) != len(base)+len(names) {
				p.fail(Violation{Clause: "registry-contents", Key: fmt.Sprintf("%d names", len(names)), Detail: fmt.Sprintf("GetAllTags() has %d entries, %d names are registered", len(got), len(base)+len(names))}, "growth")
			}
		}
		// the tags handed out first are the ones a configuration serves
		if err, pn := safeRefresh(map[string]string{"appender.g.type": "Rec", "logger.root.type": "Logger", "logger.root.appenderRef.ref": "g", "logger.root.level": "INFO"}); err != nil || pn != nil {
			p.fail(Violation{Clause: "valid-config-rejected", Key: "growth", Detail: fmt.Sprintf("err=%v panic=%v", err, pn)}, "growth")
		} else {
			for i, n := range names {
				if i%7 == 0 || i < 40 {
					safeCall(func() { log.Info(context.Background(), first[n], log.Msg("via-"+n)) })
				}
			}
			log.Destroy()
			seen := map[string]int{}
			for _, it := range recStore["g"] {
				seen[it.ID]++
			}
			for i, n := range names {
				if (i%7 == 0 || i < 40) && seen["via-"+n] != 1 {
					p.fail(Violation{Clause: "early-tag-not-served", Key: n, Detail: fmt.Sprintf("event logged through the tag first handed out for %q (registration #%d of %d) reached the configured root logger %d times", n, i, len(names), seen["via-"+n])}, n)
					break
				}
			}
		}
		log.VerifReset()
		p.States = p.Executions
		p.addObs("growth")
	}, replay: c18Replay})
}

func c18Replay(raw json.RawMessage) []Violation {
	var s string
	json.Unmarshal(raw, &s)
	got, want := log.VerifIsValidTag(s), refValidTag(s)
	fmt.Printf("tag %q: isValidTag=%v documented=%v\n", s, got, want)
	if got != want {
		return []Violation{{Clause: "tag-language", Key: fmt.Sprintf("%q", s), Detail: "predicate disagrees with the documented language"}}
	}
	return nil
}
