package main

import (
	"fmt"
	"reflect"
	"strconv"
	"strings"

	log "github.com/go-spring/log"
)

// ---------------------------------------------------------------------------------------------
// C15, clause "a plugin attribute takes the configured value, else its declared default", checked
// ABSOLUTELY (not against another load in the same process): the declaration is read from the struct
// tags of the live plugin instances themselves. For every attribute / element of every live plugin
// that the configuration does not mention at all:
//   - PluginAttribute "x,default=V" of a string / integer / bool kind holds V;
//   - PluginElement "X,default=T" holds a non-nil instance (of type T for the built-in layouts) whose
//     own unconfigured attributes hold their defaults;
//   - PluginElement "X?" (optional, no default) is nil;
// and no element instance is shared between two plugins (each is created for its owner).
// Configurations using the inline `key!` expression form are skipped (their keys live inside values).
// ---------------------------------------------------------------------------------------------

func normKey(s string) string {
	s = strings.ToLower(s)
	s = strings.ReplaceAll(s, "-", "")
	return strings.ReplaceAll(s, "_", "")
}

type defaultsChecker struct {
	keys  []string // normalised configuration keys
	seen  map[uintptr]string
	fails []string
}

func (d *defaultsChecker) configured(prefixes []string, name string) bool {
	for _, p := range prefixes {
		full := p + "." + normKey(name)
		for _, k := range d.keys {
			if k == full || strings.HasPrefix(k, full+".") || strings.HasPrefix(k, full+"[") {
				return true
			}
		}
	}
	return false
}

func tagParts(tag string) (name string, def string, hasDef bool) {
	name = tag
	if i := strings.Index(tag, ","); i >= 0 {
		name = tag[:i]
		if dv, ok := strings.CutPrefix(tag[i+1:], "default="); ok {
			def, hasDef = dv, true
		}
	}
	return
}

// walk checks the struct v, whose attributes are configured below any of the (normalised) prefixes.
func (d *defaultsChecker) walk(v reflect.Value, prefixes []string, path string, depth int) {
	if depth > 6 || v.Kind() != reflect.Struct {
		return
	}
	t := v.Type()
	for i := 0; i < t.NumField(); i++ {
		ft, fv := t.Field(i), v.Field(i)
		if tag, ok := ft.Tag.Lookup("PluginAttribute"); ok {
			name, def, hasDef := tagParts(tag)
			if !hasDef || d.configured(prefixes, name) {
				continue
			}
			switch fv.Kind() {
			case reflect.String:
				if fv.String() != def {
					d.fails = append(d.fails, fmt.Sprintf("%s.%s is %q, declared default %q", path, ft.Name, fv.String(), def))
				}
			case reflect.Int, reflect.Int8, reflect.Int16, reflect.Int32, reflect.Int64:
				if n, err := strconv.ParseInt(def, 10, 64); err == nil && fv.Int() != n {
					d.fails = append(d.fails, fmt.Sprintf("%s.%s is %d, declared default %s", path, ft.Name, fv.Int(), def))
				}
			case reflect.Bool:
				if b, err := strconv.ParseBool(def); err == nil && fv.Bool() != b {
					d.fails = append(d.fails, fmt.Sprintf("%s.%s is %v, declared default %s", path, ft.Name, fv.Bool(), def))
				}
			}
			continue
		}
		if tag, ok := ft.Tag.Lookup("PluginElement"); ok {
			name, def, hasDef := tagParts(tag)
			optional := strings.HasSuffix(name, "?")
			name = strings.TrimSuffix(name, "?")
			var sub []string
			for _, p := range prefixes {
				sub = append(sub, p+"."+normKey(name))
			}
			conf := d.configured(prefixes, name)
			elems := []reflect.Value{fv}
			if fv.Kind() == reflect.Slice {
				elems = nil
				for k := 0; k < fv.Len(); k++ {
					elems = append(elems, fv.Index(k))
				}
			}
			for k, ev := range elems {
				epath := path + "." + ft.Name
				esub := sub
				if fv.Kind() == reflect.Slice {
					epath = fmt.Sprintf("%s[%d]", epath, k)
					esub = nil
					for _, p := range sub {
						esub = append(esub, fmt.Sprintf("%s[%d]", p, k))
						if len(elems) == 1 {
							esub = append(esub, p)
						}
					}
				}
				for ev.Kind() == reflect.Interface && !ev.IsNil() {
					ev = ev.Elem()
				}
				isNil := (ev.Kind() == reflect.Interface || ev.Kind() == reflect.Pointer) && ev.IsNil()
				if !conf {
					switch {
					case optional && !hasDef && !isNil:
						d.fails = append(d.fails, fmt.Sprintf("%s is set (%s) although the optional element is not configured", epath, ev.Type()))
					case hasDef && isNil:
						d.fails = append(d.fails, fmt.Sprintf("%s is nil, declared default element %s", epath, def))
					case hasDef && (def == "TextLayout" || def == "JSONLayout") && ev.Type().String() != "*log."+def:
						d.fails = append(d.fails, fmt.Sprintf("%s is a %s, declared default element %s", epath, ev.Type(), def))
					}
				}
				if isNil {
					continue
				}
				if ev.Kind() == reflect.Pointer {
					if owner, dup := d.seen[ev.Pointer()]; dup && ev.Elem().Kind() == reflect.Struct && ev.Elem().NumField() > 0 {
						d.fails = append(d.fails, fmt.Sprintf("%s is the same instance as %s", epath, owner))
					}
					d.seen[ev.Pointer()] = epath
					ev = ev.Elem()
				}
				d.walk(ev, esub, epath, depth+1)
			}
			continue
		}
		if ft.Anonymous && fv.Kind() == reflect.Struct {
			d.walk(fv, prefixes, path, depth+1)
		}
	}
}

// checkDeclaredDefaults inspects the live plugins configured by m.
func checkDeclaredDefaults(m map[string]string) []string {
	d := &defaultsChecker{seen: map[uintptr]string{}}
	for k := range m {
		if strings.Contains(k, "!") {
			return nil
		}
		d.keys = append(d.keys, normKey(k))
	}
	ls, as := log.VerifLive()
	for _, l := range ls {
		if l.GetName() == "" {
			continue
		}
		v := reflect.ValueOf(l)
		if v.Kind() == reflect.Pointer {
			d.walk(v.Elem(), []string{"logger." + normKey(l.GetName())}, "logger."+l.GetName(), 0)
		}
	}
	for _, a := range as {
		v := reflect.ValueOf(a)
		if v.Kind() == reflect.Pointer {
			d.walk(v.Elem(), []string{"appender." + normKey(a.GetName())}, "appender."+a.GetName(), 0)
		}
	}
	return d.fails
}
