package main

import (
	"context"
	"fmt"
	"strings"
	"time"

	log "github.com/go-spring/log"
)

// ---------------------------------------------------------------------------------------------
// C10 - context hooks and lazy generators run exactly once iff the event is emitted.
// Complete product: 15 entry points x serving logger (built-in before Refresh, sync, async, sync
// whose references filter the event out) x logger range (below / at / above the entry point's
// level) x each hook set/unset (8) x 3 contexts.
// ---------------------------------------------------------------------------------------------

type ctxKey struct{}

type c10Case struct {
	EP     string `json:"entry_point"`
	Logger string `json:"logger"` // builtin | sync | async | sync-filtered
	Range  string `json:"range"`  // at | above | below
	Hooks  int    `json:"hooks"`  // bit 0 TimeNow, 1 StringFromContext, 2 FieldsFromContext
	Ctx    int    `json:"ctx"`    // 0 background, 1 with value, 2 cancelled with value, 3 nil
}

func init() {
	eps := entryPoints()
	order := []string{"TRACE", "DEBUG", "INFO", "NOTICE", "WARN", "ERROR", "PANIC", "FATAL", "TOP"}
	definePart("C10", "c10/hooks-product", "qt", "15 entry points x 6 serving loggers (two of them fanning out to every appender type) x 3 ranges x 8 hook subsets x 4 contexts incl. nil (complete product)",
		func(tier string, yield func(c10Case)) {
			for _, ep := range eps {
				for _, lg := range []string{"builtin", "sync", "async", "sync-filtered", "sync+every-appender", "async+every-appender",
					// histories: the built-in logger after a configuration (whose root range is the Range of the case) was
					// live and destroyed; a configured logger after a configuration with the OPPOSITE verdict for this level
					"builtin/after-config", "sync/after-opposite", "async/after-opposite"} {
					for _, r := range []string{"at", "above", "below"} {
						if lg == "builtin" && r != "at" {
							continue
						}
						for h := 0; h < 8; h++ {
							for c := 0; c < 4; c++ {
								yield(c10Case{ep.name, lg, r, h, c})
							}
						}
					}
				}
			}
		},
		func(c c10Case) (string, []Violation, int) {
			confReset()
			var ep entryPoint
			for _, e := range eps {
				if e.name == c.EP {
					ep = e
				}
			}
			lv := ep.level
			if lv == "" {
				lv = "NOTICE"
			}
			idx := 0
			for i, n := range order {
				if n == lv {
					idx = i
				}
			}
			key := fmt.Sprintf("%s logger=%s range=%s hooks=%03b ctx=%d", c.EP, c.Logger, c.Range, c.Hooks, c.Ctx)
			rng := map[string]string{"at": lv, "above": order[idx+1], "below": "NONE~" + lv}[c.Range]
			enabled := c.Range == "at"
			if hist := strings.SplitN(c.Logger, "/", 2); len(hist) == 2 {
				prev := rng // builtin/after-config: the destroyed configuration had the range of the case
				if hist[1] == "after-opposite" {
					prev = map[bool]string{true: order[idx+1], false: lv}[enabled]
				} else {
					enabled = true // the built-in logger enables every level
				}
				pc := map[string]string{"appender.p0.type": "Rec", "logger.root.type": map[string]string{"builtin": "Logger", "sync": "AsyncLogger", "async": "Logger"}[hist[0]],
					"logger.root.appenderRef.ref": "p0", "logger.root.level": prev}
				if err, pn := safeRefresh(pc); err != nil || pn != nil {
					return "refresh-failed", []Violation{{Clause: "valid-config-rejected", Key: key, Detail: fmt.Sprintf("previous configuration: err=%v panic=%v", err, pn)}}, 1
				}
				ep.call(context.Background(), tagC01, "previous-config")
				log.Destroy()
				c.Logger = hist[0]
			}
			if c.Logger != "builtin" {
				conf := map[string]string{"appender.r0.type": "Rec", "logger.root.appenderRef.ref": "r0", "logger.root.level": rng}
				if strings.HasSuffix(c.Logger, "+every-appender") {
					// the recorder next to one appender of every built-in type: whatever an appender does with
					// an event (or on its own account), the hooks still run once per event, with the caller's context
					d := c15Dir()
					delete(conf, "logger.root.appenderRef.ref")
					for i, a := range []string{"r0", "ac", "af", "ar", "ad"} {
						conf[fmt.Sprintf("logger.root.appenderRef[%d].ref", i)] = a
					}
					conf["appender.ac.type"] = "Console"
					conf["appender.af.type"], conf["appender.af.fileDir"], conf["appender.af.fileName"] = "File", d, "c10.log"
					conf["appender.ar.type"], conf["appender.ar.fileDir"], conf["appender.ar.fileName"] = "RollingFile", d, "c10roll.log"
					conf["appender.ar.rotation"], conf["appender.ar.maxAge"] = "h", "24"
					conf["appender.ad.type"] = "Discard"
				}
				switch c.Logger {
				case "sync", "sync+every-appender":
					conf["logger.root.type"] = "Logger"
				case "async+every-appender":
					conf["logger.root.type"] = "AsyncLogger"
					conf["logger.root.bufferSize"] = "100"
				case "async":
					conf["logger.root.type"] = "AsyncLogger"
					conf["logger.root.bufferSize"] = "100"
				case "sync-filtered":
					conf["logger.root.type"] = "Logger"
					conf["logger.root.appenderRef.level"] = "TOP" // the reference filters every event out; the logger itself still emits
				}
				if err, pn := safeRefresh(conf); err != nil || pn != nil {
					return "refresh-failed", []Violation{{Clause: "valid-config-rejected", Key: key, Detail: fmt.Sprintf("err=%v panic=%v", err, pn)}}, 1
				}
			}
			// hooks (confReset installed a TimeNow hook; start from a clean slate)
			log.TimeNow, log.StringFromContext, log.FieldsFromContext = nil, nil, nil
			var nTime, nStr, nFld, nGen int
			var seenCtx []context.Context
			hookTime := time.Date(2031, 2, 3, 4, 5, 6, 7_000_000, time.UTC)
			hookStamp := "[2031-02-03T04:05:06.007]"
			if c.Ctx == 2 {
				// boundary value: the hook reports the zero instant (an application clock that has not been set):
				// it is the hook's time all the same, the wall clock is only used when NO hook is set
				hookTime, hookStamp = time.Time{}, "[0001-01-01T00:00:00.000]"
			}
			if c.Hooks&1 != 0 {
				log.TimeNow = func(ctx context.Context) time.Time { nTime++; seenCtx = append(seenCtx, ctx); return hookTime }
			}
			if c.Hooks&2 != 0 {
				log.StringFromContext = func(ctx context.Context) string { nStr++; seenCtx = append(seenCtx, ctx); return "cs-9" }
			}
			if c.Hooks&4 != 0 {
				log.FieldsFromContext = func(ctx context.Context) []log.Field {
					nFld++
					seenCtx = append(seenCtx, ctx)
					return []log.Field{log.String("cf", "v1"), log.Int("cn", 2)}
				}
			}
			var ctx context.Context = context.Background()
			if c.Ctx == 1 || c.Ctx == 2 {
				ctx = context.WithValue(ctx, ctxKey{}, "req-1")
			}
			if c.Ctx == 3 {
				ctx = nil // callers do pass nil contexts; the hooks still have to run (they decide what to do with it)
			}
			if c.Ctx == 2 {
				cc, cancel := context.WithCancel(ctx)
				cancel()
				ctx = cc
			}
			before := time.Now()
			switch c.EP {
			case "Trace":
				log.Trace(ctx, tagC01, func() []log.Field { nGen++; return []log.Field{log.Msg("ep-id")} })
			case "Debug":
				log.Debug(ctx, tagC01, func() []log.Field { nGen++; return []log.Field{log.Msg("ep-id")} })
			default:
				ep.call(ctx, tagC01, "ep-id")
			}
			after := time.Now()
			log.TimeNow, log.StringFromContext, log.FieldsFromContext = nil, nil, nil
			log.Destroy()
			var v []Violation
			fail := func(clause, d string) { v = append(v, Violation{Clause: clause, Key: key, Detail: d}) }
			exp := func(set bool) int {
				if set && enabled {
					return 1
				}
				return 0
			}
			if nTime != exp(c.Hooks&1 != 0) || nStr != exp(c.Hooks&2 != 0) || nFld != exp(c.Hooks&4 != 0) {
				fail("hook-call-count", fmt.Sprintf("emitted=%v: TimeNow x%d, StringFromContext x%d, FieldsFromContext x%d (hooks set %03b)", enabled, nTime, nStr, nFld, c.Hooks))
			}
			if c.EP == "Trace" || c.EP == "Debug" {
				if nGen != exp(true) {
					fail("lazy-generator-count", fmt.Sprintf("emitted=%v: lazy generator invoked %d times", enabled, nGen))
				}
			}
			for _, sc := range seenCtx {
				if sc != ctx {
					fail("hook-context", "a hook was invoked with a context other than the caller's")
				}
			}
			// what was recorded
			var items []recItem
			switch c.Logger {
			case "builtin":
				// formatted on the console stream
				out := consoleBuf.String()
				if enabled != strings.Contains(out, "msg=ep-id") {
					fail("emission", fmt.Sprintf("built-in logger: emitted=%v but console=%q", enabled, out))
				}
				if enabled {
					if c.Hooks&1 != 0 && !strings.Contains(out, hookStamp) {
						fail("record-time", fmt.Sprintf("hook time not in the line %q", out))
					}
					wantTail := ""
					if c.Hooks&2 != 0 {
						wantTail += "cs-9||"
					}
					if c.Hooks&4 != 0 {
						wantTail += "cf=v1||cn=2||"
					}
					wantTail += "msg=ep-id\n"
					if !strings.HasSuffix(out, "||"+wantTail) {
						fail("record-order", fmt.Sprintf("line %q does not end with %q (context string, context fields, call fields)", out, wantTail))
					}
				}
				return out, v, 1
			case "sync-filtered":
				if len(recStore["r0"]) != 0 {
					fail("emission", "reference level TOP must filter the event out")
				}
				return fmt.Sprint(nTime, nStr, nFld, nGen), v, 1
			default:
				items = recStore["r0"]
			}
			if (len(items) == 1) != enabled || len(items) > 1 {
				fail("emission", fmt.Sprintf("enabled=%v but %d events recorded", enabled, len(items)))
				return recSummary(), v, 1
			}
			if enabled {
				e := items[0].Event
				if c.Hooks&1 != 0 {
					if !e.Time.Equal(hookTime) {
						fail("record-time", fmt.Sprintf("event time %v, hook returned %v", e.Time, hookTime))
					}
				} else if e.Time.Before(before) || e.Time.After(after) {
					fail("record-time", fmt.Sprintf("no hook: event time %v is not the wall clock at the call [%v,%v]", e.Time, before, after))
				}
				if want := map[bool]string{true: "cs-9", false: ""}[c.Hooks&2 != 0]; e.CtxString != want {
					fail("record-ctx-string", fmt.Sprintf("CtxString=%q want %q", e.CtxString, want))
				}
				wantCF := 0
				if c.Hooks&4 != 0 {
					wantCF = 2
				}
				if len(e.CtxFields) != wantCF || (wantCF == 2 && (e.CtxFields[0].Key != "cf" || e.CtxFields[1].Key != "cn")) {
					fail("record-ctx-fields", fmt.Sprintf("CtxFields=%v", e.CtxFields))
				}
				if len(e.Fields) != 1 || e.Fields[0].Key != "msg" {
					fail("record-fields", fmt.Sprintf("Fields=%v", e.Fields))
				}
				// formatted: context fields ahead of the call's fields
				line := string((&log.TextLayout{BaseLayout: log.BaseLayout{FileLineLength: 48}}).ToBytes(&e))
				if wantCF == 2 && !strings.Contains(line, "cf=v1||cn=2||msg=ep-id") {
					fail("record-order", fmt.Sprintf("formatted line %q: context fields are not ahead of the call's fields", line))
				}
			}
			return fmt.Sprint(recSummary(), nTime, nStr, nFld, nGen), v, 1
		})
}

// ---------------------------------------------------------------------------------------------
// The hook's time appears in the record - for every event of a SEQUENCE whose hook answers differ:
// the same instant seen from three zones, the next millisecond / second, a clock that steps back, the
// zero instant. Every sequence of 1-3 answers over that alphabet, through the built-in logger and
// configured console appenders with the text and the JSON layout, and as recorded by an appender.
// Accepted renderings of an instant: its wall-clock reading in the zone the hook returned it in, in UTC
// or in the process's local zone (a layout may normalise the zone; it may not print another instant).
// ---------------------------------------------------------------------------------------------

type c10SeqCase struct {
	Path  string `json:"path"` // builtin | text | json | rec
	Times []int  `json:"hook_answers"`
}

func init() {
	east, west := time.FixedZone("E8", 8*3600), time.FixedZone("W530", -(5*3600+1800))
	base := time.Date(2025, 6, 1, 22, 30, 15, 250_000_000, time.UTC)
	answers := []time.Time{base, base.In(east), base.In(west), base.Add(time.Millisecond).In(east), base.Add(time.Second), base.Add(-time.Hour).In(west), {}}
	definePart("C10", "c10/hook-time-sequences", "qt", fmt.Sprintf("every sequence of 1-3 time-hook answers over %d instants/zones x 4 paths (built-in logger, text layout, JSON layout, recording appender)", len(answers)),
		func(tier string, yield func(c10SeqCase)) {
			for _, p := range []string{"builtin", "text", "json", "rec"} {
				var rec func(cur []int)
				rec = func(cur []int) {
					if len(cur) > 0 {
						yield(c10SeqCase{p, append([]int(nil), cur...)})
					}
					if len(cur) == 3 {
						return
					}
					for i := range answers {
						rec(append(cur, i))
					}
				}
				rec(nil)
			}
		},
		func(c c10SeqCase) (string, []Violation, int) {
			confReset()
			key := fmt.Sprintf("path=%s answers=%v", c.Path, c.Times)
			switch c.Path {
			case "text", "json":
				conf := map[string]string{"appender.c.type": "Console", "logger.root.type": "Logger", "logger.root.appenderRef.ref": "c"}
				conf["appender.c.layout.type"] = map[string]string{"text": "TextLayout", "json": "JSONLayout"}[c.Path]
				if err, pn := safeRefresh(conf); err != nil || pn != nil {
					return "refresh-failed", []Violation{{Clause: "valid-config-rejected", Key: key, Detail: fmt.Sprintf("err=%v panic=%v", err, pn)}}, 1
				}
			case "rec":
				conf := map[string]string{"appender.r0.type": "Rec", "logger.root.type": "Logger", "logger.root.appenderRef.ref": "r0"}
				if err, pn := safeRefresh(conf); err != nil || pn != nil {
					return "refresh-failed", []Violation{{Clause: "valid-config-rejected", Key: key, Detail: fmt.Sprintf("err=%v panic=%v", err, pn)}}, 1
				}
			}
			k := 0
			log.TimeNow = func(context.Context) time.Time { t := answers[c.Times[k]]; return t }
			for k = range c.Times {
				log.Info(context.Background(), tagC01, log.Msg(fmt.Sprintf("seq-%d", k)))
			}
			log.TimeNow = nil
			log.Destroy()
			var v []Violation
			if c.Path == "rec" {
				items := recStore["r0"]
				if len(items) != len(c.Times) {
					return recSummary(), []Violation{{Clause: "emission", Key: key, Detail: fmt.Sprintf("%d events recorded, %d logged", len(items), len(c.Times))}}, len(c.Times)
				}
				for i, it := range items {
					if !it.Event.Time.Equal(answers[c.Times[i]]) {
						v = append(v, Violation{Clause: "record-time", Key: key, Detail: fmt.Sprintf("event %d: time %v, the hook returned %v", i, it.Event.Time, answers[c.Times[i]])})
					}
				}
				return recSummary(), v, len(c.Times)
			}
			out := consoleBuf.String()
			lines := strings.Split(strings.TrimSuffix(out, "\n"), "\n")
			if len(lines) != len(c.Times) {
				return out, []Violation{{Clause: "emission", Key: key, Detail: fmt.Sprintf("%d lines for %d events: %q", len(lines), len(c.Times), out)}}, len(c.Times)
			}
			for i, l := range lines {
				stamp := ""
				if c.Path == "json" {
					if j := strings.Index(l, `"time":"`); j >= 0 {
						stamp = l[j+8:]
						if e := strings.IndexByte(stamp, '"'); e >= 0 {
							stamp = stamp[:e]
						}
					}
				} else if j := strings.Index(l, "]["); j >= 0 {
					stamp = l[j+2:]
					if e := strings.IndexByte(stamp, ']'); e >= 0 {
						stamp = stamp[:e]
					}
				}
				t := answers[c.Times[i]]
				const f = "2006-01-02T15:04:05.000"
				if !strings.Contains(l, fmt.Sprintf("seq-%d", i)) {
					v = append(v, Violation{Clause: "record-order", Key: key, Detail: fmt.Sprintf("line %d is %q", i, l)})
				} else if stamp != t.Format(f) && stamp != t.UTC().Format(f) && stamp != t.Local().Format(f) {
					v = append(v, Violation{Clause: "record-time", Key: key, Detail: fmt.Sprintf("event %d: the hook returned %s (zone %s), the record carries %q: %q", i, t.Format(f), t.Location(), stamp, l)})
				}
			}
			return out, v, len(c.Times)
		})
}

// ---------------------------------------------------------------------------------------------
// A call WITHOUT own fields (Info(ctx, tag), Record without fields, a lazy generator returning nil)
// still emits a record, and the hooks' results are in it: 3 call shapes x 8 hook subsets x 4 paths.
// ---------------------------------------------------------------------------------------------

type c10EmptyCase struct {
	Shape string `json:"call"` // info | record | debug-nil
	Hooks int    `json:"hooks"`
	Path  string `json:"path"` // builtin | text | json | rec
}

func init() {
	definePart("C10", "c10/calls-without-own-fields", "qt", "3 call shapes without own fields x 8 hook subsets x 4 paths (built-in logger, text layout, JSON layout, recording appender)",
		func(tier string, yield func(c10EmptyCase)) {
			for _, sh := range []string{"info", "record", "debug-nil"} {
				for h := 0; h < 8; h++ {
					for _, p := range []string{"builtin", "text", "json", "rec"} {
						yield(c10EmptyCase{sh, h, p})
					}
				}
			}
		},
		func(c c10EmptyCase) (string, []Violation, int) {
			confReset()
			key := fmt.Sprintf("%s hooks=%03b path=%s", c.Shape, c.Hooks, c.Path)
			switch c.Path {
			case "text", "json":
				conf := map[string]string{"appender.c.type": "Console", "logger.root.type": "Logger", "logger.root.appenderRef.ref": "c",
					"appender.c.layout.type": map[string]string{"text": "TextLayout", "json": "JSONLayout"}[c.Path]}
				if err, pn := safeRefresh(conf); err != nil || pn != nil {
					return "refresh-failed", []Violation{{Clause: "valid-config-rejected", Key: key, Detail: fmt.Sprintf("err=%v panic=%v", err, pn)}}, 1
				}
			case "rec":
				if err, pn := safeRefresh(map[string]string{"appender.r0.type": "Rec", "logger.root.type": "Logger", "logger.root.appenderRef.ref": "r0"}); err != nil || pn != nil {
					return "refresh-failed", []Violation{{Clause: "valid-config-rejected", Key: key, Detail: fmt.Sprintf("err=%v panic=%v", err, pn)}}, 1
				}
			}
			log.TimeNow, log.StringFromContext, log.FieldsFromContext = nil, nil, nil
			var nTime, nStr, nFld, nGen int
			hookTime := time.Date(2031, 2, 3, 4, 5, 6, 7_000_000, time.UTC)
			if c.Hooks&1 != 0 {
				log.TimeNow = func(context.Context) time.Time { nTime++; return hookTime }
			}
			if c.Hooks&2 != 0 {
				log.StringFromContext = func(context.Context) string { nStr++; return "cs-9" }
			}
			if c.Hooks&4 != 0 {
				log.FieldsFromContext = func(context.Context) []log.Field {
					nFld++
					return []log.Field{log.String("cf", "v1"), log.Int("cn", 2)}
				}
			}
			ctx := context.Background()
			switch c.Shape {
			case "info":
				log.Info(ctx, tagC01)
			case "record":
				log.Record(ctx, log.WarnLevel, tagC01, 1)
			case "debug-nil":
				log.Debug(ctx, tagC01, func() []log.Field { nGen++; return nil })
			}
			log.TimeNow, log.StringFromContext, log.FieldsFromContext = nil, nil, nil
			log.Destroy()
			var v []Violation
			fail := func(clause, d string) { v = append(v, Violation{Clause: clause, Key: key, Detail: d}) }
			one := func(set bool) int {
				if set {
					return 1
				}
				return 0
			}
			if nTime != one(c.Hooks&1 != 0) || nStr != one(c.Hooks&2 != 0) || nFld != one(c.Hooks&4 != 0) {
				fail("hook-call-count", fmt.Sprintf("TimeNow x%d, StringFromContext x%d, FieldsFromContext x%d (hooks set %03b)", nTime, nStr, nFld, c.Hooks))
			}
			if c.Shape == "debug-nil" && nGen != 1 {
				fail("lazy-generator-count", fmt.Sprintf("lazy generator invoked %d times", nGen))
			}
			if c.Path == "rec" {
				items := recStore["r0"]
				if len(items) != 1 {
					fail("emission", fmt.Sprintf("%d events recorded for one call without own fields", len(items)))
					return recSummary(), v, 1
				}
				e := items[0].Event
				if (c.Hooks&2 != 0) != (e.CtxString == "cs-9") || (c.Hooks&4 != 0) != (len(e.CtxFields) == 2) || (c.Hooks&1 != 0 && !e.Time.Equal(hookTime)) {
					fail("record-ctx-fields", fmt.Sprintf("CtxString=%q CtxFields=%v Time=%v", e.CtxString, e.CtxFields, e.Time))
				}
				return recSummary(), v, 1
			}
			out := consoleBuf.String()
			if strings.Count(out, "\n") != 1 {
				fail("emission", fmt.Sprintf("one call without own fields wrote %q", out))
				return out, v, 1
			}
			if c.Hooks&1 != 0 && !strings.Contains(out, "2031-02-03T04:05:06.007") {
				fail("record-time", fmt.Sprintf("hook time not in %q", out))
			}
			if c.Hooks&2 != 0 && !strings.Contains(out, "cs-9") {
				fail("record-ctx-string", fmt.Sprintf("context string not in %q", out))
			}
			if c.Hooks&4 != 0 {
				want := "cf=v1||cn=2"
				if c.Path == "json" {
					want = `"cf":"v1","cn":2`
				}
				if !strings.Contains(out, want) {
					fail("record-ctx-fields", fmt.Sprintf("the call has no own fields, the context-fields hook returned cf=v1, cn=2: they are not in the record %q", out))
				}
			}
			return out, v, 1
		})
}
