package main

import (
	"fmt"
	"os"
	"path/filepath"
	"strings"

	log "github.com/go-spring/log"
)

// ---------------------------------------------------------------------------------------------
// C12 (sequential part) - raw Write through a named handle reaches every appender verbatim.
// All sequences of <= 3 writes over a 5-payload alphabet, the caller overwriting its buffer after
// every call, x logger kinds {sync, sync+layout, async, async+layout} x 1-2 appender references x
// reference level settings; handle identity; Refresh must fail for a requested name that is not
// configured. (Concurrent writers and the async worker's interleavings: scheduler scenarios.)
// ---------------------------------------------------------------------------------------------

var c12Payloads = []string{"", "x", "a\nb\n", "\x00\xff\n", strings.Repeat("L", 12000)}

type c12Case struct {
	Kind   string   `json:"kind"`
	Levels []string `json:"ref_levels"`
	Seq    []int    `json:"payloads"`
	Name   string   `json:"logger_name"`
	LLevel string   `json:"logger_level"`
	Tags   string   `json:"logger_tags,omitempty"` // "" = a wildcard that matches a registered tag; otherwise the tags attribute (matching NO registered tag: the logger is reachable through its handle only)
}

func init() {
	definePart("C12", "c12/write-sequences", "qt", "all sequences of <= 3 writes over 5 payloads (buffer overwritten after each call) x 4 logger kinds x 1-2 references x 3 level settings; handle identity; unknown requested name",
		func(tier string, yield func(c12Case)) {
			var seqs [][]int
			var rec func(cur []int)
			rec = func(cur []int) {
				if len(cur) > 0 {
					seqs = append(seqs, append([]int(nil), cur...))
				}
				if len(cur) == 3 {
					return
				}
				for i := range c12Payloads {
					rec(append(cur, i))
				}
			}
			rec(nil)
			for _, k := range []string{"Logger", "Logger+layout", "AsyncLogger", "AsyncLogger+layout"} {
				for _, lv := range [][]string{{""}, {"ERROR"}, {"INFO~WARN"}, {"", "ERROR"}, {"INFO~WARN", "INFO~WARN"}} {
					for _, s := range seqs {
						yield(c12Case{Kind: k, Levels: lv, Seq: s, Name: "c12named"})
					}
					// the logger's own level range (also one disjoint from a reference's range) must not matter
					for _, ll := range []string{"WARN", "TRACE~INFO", "ERROR", "PANIC~PANIC"} {
						yield(c12Case{Kind: k, Levels: lv, Seq: []int{1, 2}, Name: "c12named", LLevel: ll})
					}
				}
			}
			yield(c12Case{Kind: "Logger", Levels: []string{""}, Seq: []int{1}, Name: "someOtherName"})
			// loggers that no registered tag resolves to: the named handle is their only user, and it is served all the same
			for _, k := range []string{"Logger", "Logger+layout", "AsyncLogger", "AsyncLogger+layout", "File", "RollingFile", "RollingFile+async"} {
				for _, tg := range []string{"_zz_nobody_*", "_zz_nobody", "_zz_a_*,_zz_b"} {
					for _, s := range [][]int{{1}, {1, 2}, {3, 0, 1}} {
						lv := [][]string{{""}, {"", "ERROR"}}
						if strings.Contains(k, "File") {
							lv = [][]string{nil}
						}
						for _, l := range lv {
							yield(c12Case{Kind: k, Levels: l, Seq: s, Name: "c12named", Tags: tg})
						}
					}
				}
			}
		},
		func(c c12Case) (string, []Violation, int) {
			confReset()
			key := fmt.Sprintf("%s level=%q refs=%q payloads=%v", c.Kind, c.LLevel, c.Levels, c.Seq)
			typ, layout, _ := strings.Cut(c.Kind, "+")
			conf := map[string]string{"appender.unused.type": "Discard", "logger." + c.Name + ".type": typ, "logger." + c.Name + ".tags": "_vfx_*"}
			if c.Tags != "" {
				conf["logger."+c.Name+".tags"] = c.Tags
				key += " tags=" + c.Tags
			}
			fileDir := ""
			if strings.Contains(typ, "File") {
				// logger kinds that own their file appender: the bytes are read back from the file(s)
				fileDir = filepath.Join(c15Dir(), "c12h")
				os.RemoveAll(fileDir)
				os.MkdirAll(fileDir, 0o755)
				conf["logger."+c.Name+".fileDir"], conf["logger."+c.Name+".fileName"] = fileDir, "h.log"
				if typ == "RollingFile" {
					conf["logger."+c.Name+".rotation"], conf["logger."+c.Name+".maxAge"] = "h", "24"
					if layout == "async" {
						conf["logger."+c.Name+".async"], conf["logger."+c.Name+".bufferSize"], conf["logger."+c.Name+".bufferFullPolicy"] = "true", "100", "Block"
					}
				}
				layout = ""
			}
			if layout != "" {
				conf["logger."+c.Name+".layout.type"] = "JSONLayout"
			}
			if c.LLevel != "" {
				conf["logger."+c.Name+".level"] = c.LLevel
			}
			if typ == "AsyncLogger" {
				conf["logger."+c.Name+".bufferSize"] = "100"
				conf["logger."+c.Name+".bufferFullPolicy"] = "Block"
			}
			for i, lv := range c.Levels {
				conf[fmt.Sprintf("appender.w%d.type", i)] = "Rec"
				conf[fmt.Sprintf("logger.%s.appenderRef[%d].ref", c.Name, i)] = fmt.Sprintf("w%d", i)
				if lv != "" {
					conf[fmt.Sprintf("logger.%s.appenderRef[%d].level", c.Name, i)] = lv
				}
			}
			var v []Violation
			fail := func(clause, d string) { v = append(v, Violation{Clause: clause, Key: key, Detail: d}) }
			myHandle := log.GetLogger("c12named")
			if h2 := log.GetLogger("c12named"); h2 != myHandle || myHandle == nil {
				fail("handle-not-identical", "GetLogger returned a different handle for the same name")
			}
			err, pn := safeRefresh(conf)
			if pn != nil {
				fail("refresh-panicked", fmt.Sprint(pn))
				return "panic", v, 1
			}
			if c.Name != "c12named" {
				// the handle c12named was requested but the configuration does not define that logger
				if err == nil {
					fail("unconfigured-name-accepted", "Refresh succeeded although the requested logger name c12named is not configured")
				}
				safeCall(log.Destroy)
				return "rejected", v, 1
			}
			if err != nil {
				fail("valid-config-rejected", err.Error())
				return "err", v, 1
			}
			buf := make([]byte, 0, 16)
			var want []string
			for _, pi := range c.Seq {
				p := c12Payloads[pi]
				buf = append(buf[:0], p...)
				n, werr := myHandle.Write(buf)
				if n != len(p) || werr != nil {
					fail("write-result", fmt.Sprintf("Write of %d bytes returned (%d, %v)", len(p), n, werr))
				}
				for i := range buf {
					buf[i] = '#'
				}
				want = append(want, p)
			}
			if pn := safeCall(log.Destroy); pn != nil {
				fail("destroy-panicked", fmt.Sprint(pn))
			}
			if fileDir != "" {
				var all strings.Builder
				ents, _ := os.ReadDir(fileDir)
				for _, e := range ents {
					b, _ := os.ReadFile(filepath.Join(fileDir, e.Name()))
					all.Write(b)
				}
				if all.String() != strings.Join(want, "") {
					fail("raw-writes-delivered", fmt.Sprintf("the file(s) of logger kind %s hold %s, want %s (%d file(s))", c.Kind, summarize([]string{all.String()}), summarize([]string{strings.Join(want, "")}), len(ents)))
				}
			}
			for i := range c.Levels {
				var got []string
				recMu.Lock()
				for _, it := range recStore[fmt.Sprintf("w%d", i)] {
					if it.Kind != "W" {
						fail("raw-became-event", "a raw write was delivered as an event")
					}
					got = append(got, it.ID)
				}
				recMu.Unlock()
				if fmt.Sprintf("%q", got) != fmt.Sprintf("%q", want) {
					fail("raw-writes-delivered", fmt.Sprintf("appender w%d (ref level %q) received %s, want %s", i, c.Levels[i], summarize(got), summarize(want)))
				}
			}
			return fmt.Sprint(len(want)), v, len(c.Seq) * len(c.Levels)
		})
}

type c12Hist struct {
	Steps []string `json:"steps"` // bad-ref | bad-prop | bad-start | destroy | good
}

func init() {
	definePart("C12", "c12/handle-histories", "qt", "all histories of <= 4 steps over {Refresh failing on a dangling reference / on a bad property / in an appender's Start, Destroy, good Refresh+Destroy} before the final valid Refresh; then a raw write through the handle obtained at the very beginning",
		func(tier string, yield func(c12Hist)) {
			alpha := []string{"bad-ref", "bad-prop", "bad-start", "destroy", "good"}
			var rec func(cur []string)
			rec = func(cur []string) {
				yield(c12Hist{append([]string(nil), cur...)})
				if len(cur) == 4 {
					return
				}
				for _, a := range alpha {
					rec(append(cur, a))
				}
			}
			rec(nil)
		},
		func(c c12Hist) (string, []Violation, int) {
			confReset()
			key := strings.Join(c.Steps, ",")
			var v []Violation
			fail := func(clause, d string) { v = append(v, Violation{Clause: clause, Key: key, Detail: d}) }
			h := log.GetLogger("c12named")
			good := func() map[string]string {
				return map[string]string{"appender.w0.type": "Rec", "appender.w1.type": "Rec", "logger.c12named.type": "Logger", "logger.c12named.tags": "_vfx_*",
					"logger.c12named.appenderRef[0].ref": "w0", "logger.c12named.appenderRef[1].ref": "w1", "logger.c12named.appenderRef[1].level": "ERROR"}
			}
			for i, st := range c.Steps {
				conf := good()
				switch st {
				case "bad-ref":
					conf["logger.c12named.appenderRef[1].ref"] = "missing"
				case "bad-prop":
					conf["enableCaller"] = "maybe"
				case "bad-start":
					conf["appender.f.type"] = "File"
					conf["appender.f.fileDir"] = "/nonexistent-verif-dir/x"
					conf["appender.f.fileName"] = "f.log"
				case "destroy":
					if pn := safeCall(log.Destroy); pn != nil {
						fail("destroy-panicked", fmt.Sprintf("step %d: %v", i, pn))
					}
					continue
				}
				err, pn := safeRefresh(conf)
				if pn != nil {
					fail("refresh-panicked", fmt.Sprintf("step %d %s: %v", i, st, pn))
				}
				if st == "good" && err == nil {
					safeCall(log.Destroy)
				}
			}
			// the final, valid configuration
			safeCall(log.Destroy)
			if h2, pn := func() (h2 *log.LoggerWrapper, pn any) {
				defer func() { pn = recover() }()
				return log.GetLogger("c12named"), nil
			}(); pn != nil || h2 != h {
				fail("handle-not-identical", fmt.Sprintf("after the history GetLogger(\"c12named\") returned %p (panic %v), the handle obtained first is %p", h2, pn, h))
			}
			if err, pn := safeRefresh(good()); err != nil || pn != nil {
				fail("valid-config-rejected", fmt.Sprintf("final Refresh after Destroy: err=%v panic=%v", err, pn))
				return "rejected", v, len(c.Steps) + 1
			}
			recMu.Lock()
			for k := range recStore {
				delete(recStore, k)
			}
			recMu.Unlock()
			consoleBuf.Reset()
			n, werr := h.Write([]byte("payload-after-history\n"))
			if n != len("payload-after-history\n") || werr != nil {
				fail("write-result", fmt.Sprintf("(%d,%v)", n, werr))
			}
			safeCall(log.Destroy)
			for _, a := range []string{"w0", "w1"} {
				recMu.Lock()
				items := recStore[a]
				recMu.Unlock()
				if len(items) != 1 || items[0].ID != "payload-after-history\n" {
					fail("raw-write-not-delivered-after-history", fmt.Sprintf("appender %s received %d items (console got %q)", a, len(items), consoleBuf.String()))
				}
			}
			return fmt.Sprint(len(v)), v, len(c.Steps) + 2
		})
}

func summarize(ss []string) string {
	var out []string
	for _, s := range ss {
		if len(s) > 20 {
			out = append(out, fmt.Sprintf("%q...(%d bytes)", s[:20], len(s)))
		} else {
			out = append(out, fmt.Sprintf("%q", s))
		}
	}
	return "[" + strings.Join(out, " ") + "]"
}

// ---- every payload length ------------------------------------------------------------------------
//
// "Forwarded unchanged ... the call reports the full length as written" over the payload size: every
// length 0..1100 and 2^k-1, 2^k, 2^k+1 for k = 11..16, written one after the other through the handle
// of a synchronous and of an asynchronous logger (with and without a logger-level layout) from ONE
// buffer that is overwritten after every call; the appenders must have received exactly that sequence.

type c12LenCase struct {
	Kind string `json:"kind"`
}

func init() {
	definePart("C12", "c12/write-lengths", "qt", "4 logger kinds x every payload length 0..1100 and 2^k-1, 2^k, 2^k+1 (k = 11..16), one reused buffer, in one life of the logger",
		func(tier string, yield func(c12LenCase)) {
			for _, k := range []string{"Logger", "Logger+layout", "AsyncLogger", "AsyncLogger+layout"} {
				yield(c12LenCase{k})
			}
		},
		func(c c12LenCase) (string, []Violation, int) {
			confReset()
			typ, layout, _ := strings.Cut(c.Kind, "+")
			conf := map[string]string{"appender.w0.type": "Rec", "logger.c12named.type": typ, "logger.c12named.tags": "_vfx_*", "logger.c12named.appenderRef.ref": "w0"}
			if layout != "" {
				conf["logger.c12named.layout.type"] = "TextLayout"
			}
			if typ == "AsyncLogger" {
				conf["logger.c12named.bufferSize"], conf["logger.c12named.bufferFullPolicy"] = "100", "Block"
			}
			h := log.GetLogger("c12named")
			if err, pn := safeRefresh(conf); err != nil || pn != nil {
				return "refresh-failed", []Violation{{Clause: "valid-config-rejected", Key: c.Kind, Detail: fmt.Sprintf("err=%v panic=%v", err, pn)}}, 1
			}
			var lens []int
			for n := 0; n <= 1100; n++ {
				lens = append(lens, n)
			}
			for k := 11; k <= 16; k++ {
				lens = append(lens, 1<<k-1, 1<<k, 1<<k+1)
			}
			var v []Violation
			buf := make([]byte, 0, 1<<16+2)
			payload := func(n int) []byte {
				b := buf[:n]
				for i := range b {
					b[i] = byte('A' + (i+n)%53)
				}
				return b
			}
			for _, n := range lens {
				b := payload(n)
				got, err := h.Write(b)
				if got != n || err != nil {
					v = append(v, Violation{Clause: "write-result", Key: c.Kind, Detail: fmt.Sprintf("Write of %d bytes returned (%d, %v)", n, got, err)})
				}
				for i := range b {
					b[i] = '#'
				}
			}
			safeCall(log.Destroy)
			recMu.Lock()
			items := append([]recItem(nil), recStore["w0"]...)
			recMu.Unlock()
			if len(items) != len(lens) {
				v = append(v, Violation{Clause: "raw-writes-delivered", Key: c.Kind, Detail: fmt.Sprintf("%d writes were made, the appender received %d", len(lens), len(items))})
			}
			for i, it := range items {
				if i >= len(lens) || len(v) > 5 {
					break
				}
				if want := string(payload(lens[i])); it.Kind != "W" || it.ID != want {
					v = append(v, Violation{Clause: "raw-writes-delivered", Key: c.Kind, Detail: fmt.Sprintf("write %d: %d bytes were written, the appender received %d bytes (%s)", i, lens[i], len(it.ID), summarize([]string{it.ID}))})
				}
			}
			return fmt.Sprint(len(items)), v, len(lens)
		})

	// ---- one handle per name, however the name is spelled --------------------------------------------
	definePart("C12", "c12/handle-identity", "qt", "GetLogger twice (and once more after a failed Refresh + Destroy) for 9 spellings of a name: always the same handle",
		func(tier string, yield func(string)) {
			for _, n := range []string{"c12named", "c12_named", "c12-named", "C12Named", "c12.named", "c12Named", "c12__x", "_lead", "x"} {
				yield(n)
			}
		},
		func(name string) (string, []Violation, int) {
			confReset()
			var v []Violation
			var h1, h2, h3 *log.LoggerWrapper
			p1 := safeCall(func() { h1 = log.GetLogger(name) })
			p2 := safeCall(func() { h2 = log.GetLogger(name) })
			if p1 != nil || p2 != nil {
				// a name the library refuses outright is not a handle at all
				return "refused", nil, 1
			}
			if h1 == nil || h1 != h2 {
				v = append(v, Violation{Clause: "handle-not-identical", Key: name, Detail: fmt.Sprintf("GetLogger(%q) twice: %p and %p", name, h1, h2)})
			}
			// a Refresh that does not configure the name fails; after Destroy the name still maps to the same handle
			safeRefresh(map[string]string{"appender.w0.type": "Rec", "logger.root.type": "Logger", "logger.root.appenderRef.ref": "w0"})
			safeCall(log.Destroy)
			if pn := safeCall(func() { h3 = log.GetLogger(name) }); pn == nil && h3 != h1 {
				v = append(v, Violation{Clause: "handle-not-identical", Key: name, Detail: fmt.Sprintf("GetLogger(%q) after a failed Refresh and Destroy: %p, first %p", name, h3, h1)})
			}
			return "ok", v, 3
		})
}
