package main

import (
	"bufio"
	"context"
	"fmt"
	"os"
	"os/exec"
	"path/filepath"
	"runtime"
	"strings"
	"syscall"
	"time"

	log "github.com/go-spring/log"
)

// ---------------------------------------------------------------------------------------------
// C20 (model <-> OS part) - real processes, real files, real SIGKILL.
//
// The crash-point enumeration of C20 runs on the in-memory filesystem ("what completed write calls
// left in the file survives"). This part ties that model to the operating system: an UNINSTRUMENTED
// child process logs N events through a synchronous logger onto a real File / RollingFile appender
// or the console stream redirected to a real file, acknowledges each returned call on a pipe and
// then waits for the parent; the parent sends SIGKILL after exactly k acknowledgements, for every
// k in 0..N, every appender kind and both layouts, and checks the same oracle on the real file:
// every acknowledged line is present and the file holds only whole lines.
// ---------------------------------------------------------------------------------------------

const c20N = 4

type c20Case struct {
	Sink   string `json:"sink"`
	Layout string `json:"layout"`
	K      int    `json:"kill_after_acks"`
}

func c20Conf(sink, layout, dir string) map[string]string {
	m := map[string]string{"logger.root.type": "Logger", "logger.root.appenderRef.ref": "out"}
	switch sink {
	case "console":
		m["appender.out.type"] = "Console"
	case "file":
		m["appender.out.type"] = "File"
		m["appender.out.fileDir"] = dir
		m["appender.out.fileName"] = "app.log"
	case "rolling":
		m["appender.out.type"] = "RollingFile"
		m["appender.out.fileDir"] = dir
		m["appender.out.fileName"] = "app.log"
		m["appender.out.rotation"] = "h"
		m["appender.out.maxAge"] = "24"
	}
	m["appender.out.layout.type"] = layout
	return m
}

// c20Child: argv = c20child <sink> <layout> <dir>
func c20Child(args []string) {
	sink, layout, dir := args[0], args[1], args[2]
	if sink == "console" {
		f, err := os.OpenFile(filepath.Join(dir, "console.out"), os.O_CREATE|os.O_WRONLY|os.O_APPEND, 0644)
		if err != nil {
			fmt.Println("ERR", err)
			os.Exit(3)
		}
		log.Stdout = f
	}
	if err := log.Refresh(c20Conf(sink, layout, dir)); err != nil {
		fmt.Println("ERR", err)
		os.Exit(3)
	}
	in := bufio.NewReader(os.Stdin)
	for i := 0; i < c20N; i++ {
		log.Info(context.Background(), tagC01, log.String("k", fmt.Sprintf("line-%d-%s", i, strings.Repeat("x", 50*i))))
		fmt.Printf("ack %d\n", i) // os.Stdout is unbuffered
		if _, err := in.ReadString('\n'); err != nil {
			os.Exit(4)
		}
	}
	// never reached when the parent kills us; otherwise exit without Stop (os.Exit-style death)
	os.Exit(0)
}

func init() {
	definePart("C20", "c20/sigkill-children", "qt", "uninstrumented child processes on real files: 3 appender kinds x 2 layouts x SIGKILL after k = 0..4 acknowledged calls",
		func(tier string, yield func(c20Case)) {
			for _, s := range []string{"file", "rolling", "console"} {
				for _, l := range []string{"TextLayout", "JSONLayout"} {
					for k := 0; k <= c20N; k++ {
						yield(c20Case{s, l, k})
					}
				}
			}
		},
		func(c c20Case) (string, []Violation, int) {
			key := fmt.Sprintf("%s/%s", c.Sink, c.Layout)
			dir, err := os.MkdirTemp("", "verif-c20-")
			if err != nil {
				fmt.Fprintln(os.Stderr, "c20:", err)
				os.Exit(2)
			}
			defer os.RemoveAll(dir)
			cmd := exec.Command(os.Args[0], "c20child", c.Sink, c.Layout, dir)
			stdin, _ := cmd.StdinPipe()
			stdout, _ := cmd.StdoutPipe()
			if err := cmd.Start(); err != nil {
				fmt.Fprintln(os.Stderr, "c20:", err)
				os.Exit(2)
			}
			rd := bufio.NewReader(stdout)
			acked := 0
			for acked < c.K {
				line, err := rd.ReadString('\n')
				if err != nil || !strings.HasPrefix(line, "ack ") {
					cmd.Process.Kill()
					cmd.Wait()
					return "child-failed", []Violation{{Clause: "child-failed", Key: key, Detail: fmt.Sprintf("child said %q, %v", line, err)}}, 1
				}
				acked++
				if acked < c.K {
					stdin.Write([]byte("go\n"))
				}
			}
			if c.K == c20N {
				stdin.Write([]byte("go\n")) // let it exit by itself, without Stop
			} else {
				cmd.Process.Signal(syscall.SIGKILL)
			}
			cmd.Wait()
			var content strings.Builder
			es, _ := os.ReadDir(dir)
			for _, e := range es {
				b, _ := os.ReadFile(filepath.Join(dir, e.Name()))
				content.Write(b)
			}
			got := content.String()
			var v []Violation
			for i := 0; i < acked; i++ {
				want := fmt.Sprintf("line-%d-%s", i, strings.Repeat("x", 50*i))
				found := false
				for _, l := range strings.SplitAfter(got, "\n") {
					if strings.HasSuffix(l, "\n") && strings.Contains(l, want+"\"") || strings.HasSuffix(l, "\n") && strings.HasSuffix(strings.TrimSuffix(l, "\n"), "k="+want) {
						found = true
					}
				}
				if !found {
					v = append(v, Violation{Clause: "acknowledged-line-missing", Key: key, Detail: fmt.Sprintf("killed after %d acknowledgements: line %d is not (whole) in the file: %q", acked, i, got)})
				}
			}
			if got != "" && !strings.HasSuffix(got, "\n") {
				v = append(v, Violation{Clause: "partial-line", Key: key, Detail: fmt.Sprintf("file ends with a partial line: %q", got)})
			}
			return fmt.Sprintf("%d lines", strings.Count(got, "\n")), v, acked + 1
		})
}

// ---------------------------------------------------------------------------------------------
// C20 - garbage collections as environment events. A collection (with the finalizers it queues) may
// run between any two log calls; whatever the appenders keep of an opened file has to keep it open.
// For every appender / logger kind that writes a file, both layouts and every k in 0..N: N events are
// logged on real files, a full collection is forced after the k-th call (k = 0: right after Refresh)
// and its finalizers are waited for; then the file is read WITHOUT stopping anything: every returned
// call's line is there, whole.
// ---------------------------------------------------------------------------------------------

type c20GCCase struct {
	Kind   string `json:"kind"` // file | rolling | file-logger | rolling-logger | rolling-logger+separate
	Layout string `json:"layout"`
	K      int    `json:"collect_after_calls"`
}

// forceGC runs full collections until a sentinel dropped just before has been finalized (finalizers run
// on one goroutine: what the same collection queued ahead of the sentinel has run as well; one more round
// covers objects that only became unreachable through those finalizers).
func forceGC() {
	for round := 0; round < 2; round++ {
		done := make(chan struct{})
		func() {
			s := new([16]byte)
			runtime.SetFinalizer(s, func(*[16]byte) { close(done) })
		}()
		for i := 0; i < 50; i++ {
			runtime.GC()
			select {
			case <-done:
				i = 50
			case <-time.After(20 * time.Millisecond):
			}
		}
	}
}

func init() {
	definePart("C20", "c20/collections-between-calls", "qt", "5 file-writing appender / logger kinds x 2 layouts x a forced full collection (finalizers run) after k = 0..4 of 4 calls; files read without stopping",
		func(tier string, yield func(c20GCCase)) {
			for _, k := range []string{"file", "rolling", "file-logger", "rolling-logger", "rolling-logger+separate"} {
				for _, l := range []string{"TextLayout", "JSONLayout"} {
					for n := 0; n <= c20N; n++ {
						yield(c20GCCase{k, l, n})
					}
				}
			}
		},
		func(c c20GCCase) (string, []Violation, int) {
			confReset()
			dir := filepath.Join(c15Dir(), "c20gc")
			os.RemoveAll(dir)
			os.MkdirAll(dir, 0o755)
			key := fmt.Sprintf("%s/%s", c.Kind, c.Layout)
			var conf map[string]string
			switch c.Kind {
			case "file", "rolling":
				conf = c20Conf(c.Kind, c.Layout, dir)
			case "file-logger":
				conf = map[string]string{"appender.unused.type": "Discard", "logger.root.type": "File", "logger.root.fileDir": dir, "logger.root.fileName": "app.log", "logger.root.layout.type": c.Layout}
			default:
				conf = map[string]string{"appender.unused.type": "Discard", "logger.root.type": "RollingFile", "logger.root.fileDir": dir, "logger.root.fileName": "app.log",
					"logger.root.rotation": "h", "logger.root.maxAge": "24", "logger.root.layout.type": c.Layout, "logger.root.separate": fmt.Sprint(strings.HasSuffix(c.Kind, "+separate"))}
			}
			if err, pn := safeRefresh(conf); err != nil || pn != nil {
				return "refresh-failed", []Violation{{Clause: "valid-config-rejected", Key: key, Detail: fmt.Sprintf("err=%v panic=%v (%s)", err, pn, confString(conf))}}, 1
			}
			if c.K == 0 {
				forceGC()
			}
			var want []string
			for i := 0; i < c20N; i++ {
				id := fmt.Sprintf("gcline-%d-%s", i, strings.Repeat("y", 30*i))
				if i%2 == 1 {
					log.Error(context.Background(), tagC01, log.String("k", id))
				} else {
					log.Info(context.Background(), tagC01, log.String("k", id))
				}
				want = append(want, id)
				if i+1 == c.K {
					forceGC()
				}
			}
			var all strings.Builder
			ents, _ := os.ReadDir(dir)
			for _, e := range ents {
				b, _ := os.ReadFile(filepath.Join(dir, e.Name()))
				all.Write(b)
			}
			content := all.String()
			var v []Violation
			for i, id := range want {
				if strings.Count(content, id+"\"") == 0 && strings.Count(content, id+"\n") == 0 && strings.Count(content, id+"|") == 0 {
					v = append(v, Violation{Clause: "acknowledged-line-missing", Key: key, Detail: fmt.Sprintf("a full collection ran after call %d of %d: the line of call %d (it had returned) is not in the file(s) (%d file(s), %d bytes)", c.K, c20N, i+1, len(ents), len(content))})
				}
			}
			if content != "" && !strings.HasSuffix(content, "\n") {
				v = append(v, Violation{Clause: "partial-line", Key: key, Detail: "the file ends in a partial line"})
			}
			safeCall(log.Destroy)
			return fmt.Sprintf("%d files", len(ents)), v, c20N
		})
}
