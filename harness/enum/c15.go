package main

import (
	"context"
	"fmt"
	"os"
	"path/filepath"
	"reflect"
	"regexp"
	"sort"
	"strings"
	"time"
	"unicode"

	log "github.com/go-spring/log"
)

// ---------------------------------------------------------------------------------------------
// C15 - configuration resolves as declared; bad configuration is an error, not a panic.
//
// Around a set of base configurations (every registered appender and logger type, every element
// shape) ALL single deviations (thorough: all pairs on the small bases) from a menu: key respelled
// kebab/snake, value replaced by ${prop} (present / absent), attribute removed (default or error),
// ill-typed values, well-typed alternative values, sub-tree written inline as a `name!` expression.
// Oracles: expected error-ness per deviation; dump of the instantiated plugins (reflection over the
// live plugin structs) equals the base's dump except for the deviated attribute; never a panic;
// Destroy afterwards leaves a state in which a valid configuration loads. Totality: every key
// deleted, every value replaced by each of 14 hostile strings, every key mangled.
// ---------------------------------------------------------------------------------------------

type attr struct {
	k, v string
	def  string   // value the attribute takes when removed; "!err" = required; "" = do not test removal
	ill  []string // ill-typed values (must make Refresh fail)
	alt  string   // a well-typed alternative value
	path string   // dump path of the attribute (to check alt / default)
	altD string   // dump value for alt (default: alt itself)
	str  bool     // free-form string attribute (takes any text literally)
}

type base struct {
	name  string
	attrs []attr
	props map[string]string
}

var c15Tmp string

var c15Bare = regexp.MustCompile(`^([A-Za-z_][A-Za-z0-9_]*|[0-9]+)$`)

func c15Dir() string {
	if c15Tmp == "" {
		d, err := os.MkdirTemp("", "verif-c15-")
		if err != nil {
			panic(err)
		}
		c15Tmp = d
		atExit = append(atExit, func() { os.RemoveAll(d) })
	}
	return c15Tmp
}

var intIll = []string{"abc", "1e3", "", "1.5", "99999999999999999999"}
var boolIll = []string{"maybe", "yes!", "2"}

// c15Plain: default texts that print the way the dumped field prints (integers, booleans, plain words).
var c15Plain = regexp.MustCompile(`^(-?[0-9]+|true|false|[a-z][A-Za-z0-9._-]*)$`)

func c15Bases() []base {
	d := c15Dir()
	return []base{
		{name: "console+logger", attrs: []attr{
			{k: "appender.c.type", v: "Console", def: "!err", ill: []string{"Nope", "console", ""}},
			{k: "appender.c.layout.type", v: "JSONLayout", def: "", path: "appender.c.Layout", alt: "TextLayout", altD: "*log.TextLayout", ill: []string{"Nope"}},
			{k: "appender.c.layout.fileLineLength", v: "20", def: "48", path: "appender.c.Layout.FileLineLength", alt: "7", ill: intIll},
			{k: "logger.root.type", v: "Logger", def: "!err", ill: []string{"Nope", "logger"}},
			{k: "logger.root.level", v: "warn", def: "NONE~MAX", path: "logger.root.Level", alt: "DEBUG~ERROR", altD: "DEBUG~ERROR", ill: []string{"nope", "INFO~nope", "5"}},
			{k: "logger.root.appenderRef.ref", v: "c", def: "!err", ill: []string{"missing", ""}},
			{k: "logger.root.appenderRef.level", v: "INFO~ERROR", def: "NONE~MAX", path: "logger.root.AppenderRefs[0].Level", alt: "TRACE", altD: "TRACE~MAX", ill: []string{"bogus"}},
		}},
		{name: "file+async", attrs: []attr{
			{k: "appender.f.type", v: "File", def: "!err"},
			{k: "appender.f.fileDir", v: d, def: "", path: "appender.f.FileDir"},
			{k: "appender.f.fileName", v: "c15.log", def: "!err", path: "appender.f.FileName", alt: "other.log"},
			{k: "appender.rec2.type", v: "Rec", def: "!err"},
			{k: "appender.rec2.extra", v: "e2", def: "dflt", path: "appender.rec2.Extra", str: true},
			{k: "logger.root.type", v: "AsyncLogger", def: "!err"},
			{k: "logger.root.bufferSize", v: "128", def: "10000", path: "logger.root.BufferSize", alt: "100", ill: append([]string{"99", "0", "-1"}, intIll...)},
			{k: "logger.root.bufferFullPolicy", v: "Block", def: "1", path: "logger.root.BufferFullPolicy", alt: "DiscardOldest", altD: "2", ill: []string{"block", "nope", "0", ""}},
			{k: "logger.root.layout.type", v: "TextLayout", def: "<nil>", path: "logger.root.Layout", alt: "JSONLayout", altD: "*log.JSONLayout", ill: []string{"XMLLayout", "textlayout", ""}},
			{k: "logger.root.appenderRef[0].ref", v: "f", def: "", ill: []string{"missing"}},
			{k: "logger.root.appenderRef[1].ref", v: "f2", def: ""},
			{k: "logger.root.appenderRef[1].level", v: "error", def: ""},
			{k: "appender.f2.type", v: "Discard", def: "!err"},
		}},
		{name: "rolling-appender", attrs: []attr{
			{k: "appender.r.type", v: "RollingFile", def: "!err"},
			{k: "appender.r.fileDir", v: d, def: "", path: "appender.r.FileDir"},
			{k: "appender.r.fileName", v: "roll.log", def: "!err", path: "appender.r.FileName"},
			{k: "appender.r.rotation", v: "30m", def: "!err", path: "appender.r.Rotation", alt: "h", altD: "1h0m0s", ill: []string{"5m", "", "H"}},
			{k: "appender.r.maxAge", v: "72", def: "!err", path: "appender.r.MaxAge", alt: "1", ill: append([]string{"4294967297", "2147483648"}, intIll...)},
			{k: "appender.rec.type", v: "Rec", def: "!err"},
			{k: "appender.rec.extra", v: "xyz", def: "dflt", path: "appender.rec.Extra", alt: "abc", str: true},
			{k: "logger.root.type", v: "Logger", def: "!err"},
			{k: "logger.root.appenderRef[0].ref", v: "r", def: ""},
			{k: "logger.root.appenderRef[1].ref", v: "rec", def: ""},
			{k: "logger.biz.type", v: "Logger", def: "!err"},
			{k: "logger.biz.tags", v: "_c01_*", def: "!err", path: "logger.biz.Tags", alt: "_c01_probe , _vfx_*", altD: "_c01_probe , _vfx_*", ill: []string{"*", "_c01*", " , "}},
			{k: "logger.biz.appenderRef.ref", v: "rec", def: "!err"},
			{k: "logger.biz.layout.type", v: "JSONLayout", def: "<nil>", path: "logger.biz.Layout", alt: "TextLayout", altD: "*log.TextLayout", ill: []string{"Nope", ""}}, // an OPTIONAL element: absent is fine, an unknown type is not
		}},
		{name: "rolling-logger", attrs: []attr{
			{k: "appender.unused.type", v: "Discard", def: "!err"},
			{k: "logger.root.type", v: "RollingFile", def: "!err"},
			{k: "logger.root.fileDir", v: d, def: "", path: "logger.root.FileDir"},
			{k: "logger.root.fileName", v: "rl.log", def: "app.log", path: "logger.root.FileName"},
			{k: "logger.root.rotation", v: "h", def: "!err", path: "logger.root.Rotation", ill: []string{"1h"}},
			{k: "logger.root.maxAge", v: "24", def: "168", path: "logger.root.MaxAge", alt: "720", ill: []string{"4294967297", "x"}},
			{k: "logger.root.separate", v: "true", def: "false", path: "logger.root.Separate", alt: "false", ill: boolIll},
			{k: "logger.root.async", v: "true", def: "false", path: "logger.root.AsyncWrite", alt: "false", ill: boolIll},
			{k: "logger.root.bufferSize", v: "100", def: "10000", path: "logger.root.BufferSize", ill: []string{"x7"}},
			{k: "logger.root.bufferFullPolicy", v: "DiscardOldest", def: "1", path: "logger.root.BufferFullPolicy", ill: []string{"Oldest"}},
			{k: "logger.root.level", v: "INFO", def: "NONE~MAX", path: "logger.root.Level"},
		}},
		{name: "owning-loggers", attrs: []attr{
			{k: "appender.unused.type", v: "Console", def: "!err"},
			{k: "logger.root.type", v: "Console", def: "!err"},
			{k: "logger.root.layout.type", v: "JSONLayout", def: "", ill: []string{"Nope"}},
			{k: "logger.fl.type", v: "File", def: "!err"},
			{k: "logger.fl.tags", v: "_vfx_*", def: "!err"},
			{k: "logger.fl.fileDir", v: d, def: "", path: "logger.fl.FileAppender.FileDir"},
			{k: "logger.fl.fileName", v: "fl.log", def: "!err", path: "logger.fl.FileAppender.FileName"},
			{k: "logger.dis.type", v: "Discard", def: "!err"},
			{k: "logger.dis.tags", v: "_vfy_*", def: "!err"},
		}, props: map[string]string{"bufferCap": "4KB", "enableCaller": "false", "fastCaller": "true"}},
	}
}

func (b base) conf() map[string]string {
	m := map[string]string{}
	for _, a := range b.attrs {
		m[a.k] = a.v
	}
	for k, v := range b.props {
		m[k] = v
	}
	return m
}

// ---- dump of the instantiated plugins -----------------------------------------------------------

func dumpLive() map[string]string {
	out := map[string]string{}
	ls, as := log.VerifLive()
	for _, l := range ls {
		if l.GetName() == "" { // the built-in console logger standing in for an unconfigured root
			continue
		}
		dumpValue(out, "logger."+l.GetName(), reflect.ValueOf(l), 0)
	}
	for _, a := range as {
		dumpValue(out, "appender."+a.GetName(), reflect.ValueOf(a), 0)
	}
	return out
}

func dumpValue(out map[string]string, path string, v reflect.Value, depth int) {
	if depth > 6 {
		return
	}
	switch v.Kind() {
	case reflect.Interface, reflect.Pointer:
		if v.IsNil() {
			out[path] = "<nil>"
			return
		}
		if v.Kind() == reflect.Interface {
			out[path] = v.Elem().Type().String()
		}
		dumpValue(out, path, v.Elem(), depth+1)
	case reflect.Struct:
		if lr, ok := v.Interface().(log.LevelRange); ok {
			out[path] = lr.MinLevel.Name() + "~" + lr.MaxLevel.Name()
			return
		}
		if tr, ok := v.Interface().(log.TimeRotation); ok {
			out[path] = tr.Interval.String()
			return
		}
		t := v.Type()
		for i := 0; i < v.NumField(); i++ {
			f := t.Field(i)
			if !f.IsExported() {
				continue
			}
			if f.Anonymous {
				if f.Type.Kind() == reflect.Interface { // AppenderRef.Appender: the resolved target
					if !v.Field(i).IsNil() {
						if a, ok := v.Field(i).Interface().(log.Appender); ok {
							out[path+".->"] = a.GetName()
						}
					}
					continue
				}
				p := path
				if _, isBase := map[string]bool{"LoggerBase": true, "AppenderBase": true, "AppenderRefs": true, "BaseLayout": true}[f.Name]; !isBase {
					p = path + "." + f.Name
				}
				dumpValue(out, p, v.Field(i), depth+1)
				continue
			}
			if tag, ok := f.Tag.Lookup("PluginAttribute"); ok {
				if _, def, has := tagParts(tag); has {
					out["@declared:"+path+"."+f.Name] = def
				}
			}
			dumpValue(out, path+"."+f.Name, v.Field(i), depth+1)
		}
	case reflect.Slice:
		out[path+".len"] = fmt.Sprint(v.Len())
		for i := 0; i < v.Len(); i++ {
			dumpValue(out, fmt.Sprintf("%s[%d]", path, i), v.Index(i), depth+1)
		}
	default:
		out[path] = fmt.Sprint(v.Interface())
	}
}

func dumpString(m map[string]string) string {
	ks := make([]string, 0, len(m))
	for k := range m {
		ks = append(ks, k)
	}
	sort.Strings(ks)
	var sb strings.Builder
	for _, k := range ks {
		fmt.Fprintf(&sb, "%s=%s;", k, m[k])
	}
	return sb.String()
}

func dumpDiff(a, b map[string]string, ignore string) string {
	var d []string
	for k, v := range a {
		if strings.HasPrefix(k, "@declared:") {
			continue // declarations (struct tags), not values
		}
		if k != ignore && !strings.HasPrefix(k, ignore+".") && b[k] != v {
			d = append(d, fmt.Sprintf("%s: %q vs %q", k, v, b[k]))
		}
	}
	for k, v := range b {
		if _, ok := a[k]; !ok && k != ignore && !strings.HasPrefix(k, ignore+".") && !strings.HasPrefix(k, "@declared:") {
			d = append(d, fmt.Sprintf("%s: (absent) vs %q", k, v))
		}
	}
	sort.Strings(d)
	return strings.Join(d, "; ")
}

// ---- deviations -----------------------------------------------------------------------------------

type dev struct {
	Kind string `json:"kind"` // respell-kebab respell-snake prop-present prop-absent remove ill alt inline
	Attr int    `json:"attr"`
	Val  string `json:"val,omitempty"`
}

type c15Case struct {
	Base int   `json:"base"`
	Devs []dev `json:"devs"`
}

func respell(key, style string) string {
	var sb strings.Builder
	for i, r := range key {
		if unicode.IsUpper(r) && i > 0 {
			if style == "kebab" {
				sb.WriteByte('-')
			} else {
				sb.WriteByte('_')
			}
			sb.WriteRune(unicode.ToLower(r))
		} else {
			sb.WriteRune(r)
		}
	}
	return sb.String()
}

// apply returns the deviated configuration, whether Refresh must fail, and the expected change of
// the dump (path -> value; "" path = no change).
func (b base) apply(m map[string]string, d dev) (mustFail bool, path, val string, ok bool) {
	a := b.attrs[d.Attr]
	switch d.Kind {
	case "respell-kebab", "respell-snake":
		nk := respell(a.k, strings.TrimPrefix(d.Kind, "respell-"))
		if nk == a.k {
			return false, "", "", false
		}
		if _, present := m[a.k]; !present {
			return false, "", "", false
		}
		delete(m, a.k)
		m[nk] = a.v
		return false, "", "", true
	case "prop-present", "prop-absent":
		if strings.HasSuffix(a.k, ".type") {
			return false, "", "", false // plugin types are looked up before attribute injection: ${} is not promised there
		}
		if _, present := m[a.k]; !present {
			return false, "", "", false
		}
		// one property per attribute, referenced in kebab-case and declared in camelCase
		m[a.k] = fmt.Sprintf("${vf-prop-%d}", d.Attr)
		if d.Kind == "prop-present" {
			m[fmt.Sprintf("vfProp%d", d.Attr)] = a.v
			return false, "", "", true
		}
		return true, "", "", true
	case "remove":
		if a.def == "" {
			return false, "", "", false
		}
		if _, present := m[a.k]; !present {
			return false, "", "", false
		}
		delete(m, a.k)
		if a.def == "!err" {
			return true, "", "", true
		}
		return false, a.path, "@default:" + a.def, true
	case "ill":
		if _, present := m[a.k]; !present {
			return false, "", "", false
		}
		m[a.k] = d.Val
		return true, "", "", true
	case "alt":
		if a.alt == "" {
			return false, "", "", false
		}
		if _, present := m[a.k]; !present {
			return false, "", "", false
		}
		m[a.k] = a.alt
		v := a.altD
		if v == "" {
			v = a.alt
		}
		return false, a.path, v, true
	case "special":
		// a string attribute configured with a value the storage treats specially must still take it
		if !a.str {
			return false, "", "", false
		}
		if _, present := m[a.k]; !present {
			return false, "", "", false
		}
		m[a.k] = d.Val
		return false, a.path, d.Val, true
	case "subkey":
		// only a key BELOW the attribute exists: the attribute itself is absent (default or error)
		if a.def == "" || strings.HasSuffix(a.k, ".type") || strings.HasSuffix(a.k, "]") {
			return false, "", "", false
		}
		if _, present := m[a.k]; !present {
			return false, "", "", false
		}
		delete(m, a.k)
		m[a.k+".old"] = a.v
		if a.def == "!err" {
			return true, "", "", true
		}
		return false, a.path, "@default:" + a.def, true
	case "inline-broken":
		// the plugin's sub-tree as an inline expression with a syntax error: Refresh must fail
		ps := strings.SplitN(a.k, ".", 3)
		if len(ps) < 3 || ps[2] != "type" {
			return false, "", "", false
		}
		prefix := ps[0] + "." + ps[1]
		for k := range m {
			if strings.HasPrefix(k, prefix+".") {
				delete(m, k)
			}
		}
		m[prefix+"!"] = a.v + d.Val
		return true, "", "", true
	case "inline":
		// rewrite the whole sub-tree of this attribute's plugin (appender.X / logger.X) as X! = Type{...}
		ps := strings.SplitN(a.k, ".", 3)
		if len(ps) < 3 || ps[2] != "type" {
			return false, "", "", false
		}
		prefix := ps[0] + "." + ps[1]
		var body []string
		nested := map[string][]string{}
		for k, v := range m {
			rest, has := strings.CutPrefix(k, prefix+".")
			if !has || rest == "type" {
				continue
			}
			if !c15Bare.MatchString(v) {
				v = `"` + v + `"`
			}
			if sub, field, ok := strings.Cut(rest, "."); ok && sub == "layout" {
				nested[sub] = append(nested[sub], field+"="+v)
			} else {
				body = append(body, rest+"="+v)
			}
			delete(m, k)
		}
		for sub, fs := range nested {
			sort.Strings(fs)
			typ := ""
			var rest []string
			for _, f := range fs {
				if t, ok := strings.CutPrefix(f, "type="); ok {
					typ = t
				} else {
					rest = append(rest, f)
				}
			}
			if typ == "" {
				return false, "", "", false
			}
			body = append(body, sub+"="+typ+"{"+strings.Join(rest, ",")+"}")
		}
		sort.Strings(body)
		delete(m, a.k)
		m[prefix+"!"] = a.v + "{" + strings.Join(body, ", ") + "}"
		return false, "", "", true
	}
	return false, "", "", false
}

func c15Check(c c15Case) (string, []Violation, int) {
	bases := c15Bases()
	b := bases[c.Base]
	key := b.name
	for _, d := range c.Devs {
		key += fmt.Sprintf(" | %s(%s%s)", d.Kind, b.attrs[d.Attr].k, map[bool]string{true: "=" + d.Val, false: ""}[d.Val != "" || d.Kind == "ill"])
	}
	var v []Violation
	fail := func(clause, detail string) { v = append(v, Violation{Clause: clause, Key: key, Detail: detail}) }
	// base dump
	confReset()
	if err, pn := safeRefresh(b.conf()); err != nil || pn != nil {
		return "base-failed", []Violation{{Clause: "valid-config-rejected", Key: b.name, Detail: fmt.Sprintf("base configuration: err=%v panic=%v (%s)", err, pn, confString(b.conf()))}}, 1
	}
	baseDump := dumpLive()
	for _, f := range checkDeclaredDefaults(b.conf()) {
		v = append(v, Violation{Clause: "declared-default", Key: b.name, Detail: fmt.Sprintf("%s (%s)", f, confString(b.conf()))})
	}
	safeCall(log.Destroy)
	if len(c.Devs) == 0 {
		return dumpString(baseDump), nil, 1
	}
	// deviated
	m := b.conf()
	mustFail := false
	expect := map[string]string{}
	for _, d := range c.Devs {
		mf, p, val, ok := b.apply(m, d)
		if !ok {
			return "n/a", nil, 0
		}
		mustFail = mustFail || mf
		if p != "" {
			expect[p] = val
		}
	}
	confReset()
	err, pn := safeRefresh(m)
	if pn != nil {
		fail("refresh-panicked", fmt.Sprintf("%v (%s)", pn, confString(m)))
		return "panic", v, 1
	}
	if mustFail != (err != nil) {
		if mustFail {
			fail("bad-config-accepted", fmt.Sprintf("Refresh accepted %s", confString(m)))
		} else {
			fail("equivalent-config-rejected", fmt.Sprintf("Refresh(%s) = %v", confString(m), err))
		}
	}
	obs := "error"
	if err == nil && !mustFail {
		got := dumpLive()
		obs = dumpString(got)
		for _, f := range checkDeclaredDefaults(m) {
			fail("declared-default", fmt.Sprintf("%s (%s)", f, confString(m)))
		}
		ign := ""
		for p, want := range expect {
			ign = p
			if hard, isDef := strings.CutPrefix(want, "@default:"); isDef {
				// "else its declared default": the declaration is the struct tag of the live plugin (a tree may
				// declare another default than the pinned one); the table value is used where the tag's text is
				// not directly comparable with the dumped field (level ranges, policies, elements)
				want = hard
				if decl, has := got["@declared:"+p]; has && c15Plain.MatchString(decl) && c15Plain.MatchString(hard) {
					want = decl
				}
			}
			if got[p] != want {
				fail("attribute-value", fmt.Sprintf("%s is %q, want %q (%s)", p, got[p], want, confString(m)))
			}
		}
		if len(expect) <= 1 {
			if d := dumpDiff(baseDump, got, ign); d != "" {
				fail("plugins-differ-from-base", fmt.Sprintf("%s (%s)", d, confString(m)))
			}
		}
	}
	if pn := safeCall(log.Destroy); pn != nil {
		fail("destroy-panicked", fmt.Sprint(pn))
	}
	// recovery: a valid configuration loads afterwards
	if err, pn := safeRefresh(bases[0].conf()); err != nil || pn != nil {
		fail("no-recovery-after-destroy", fmt.Sprintf("after the deviated configuration and Destroy, a valid configuration fails: err=%v panic=%v", err, pn))
	}
	safeCall(log.Destroy)
	return obs, v, 2
}

func c15Devs(b base) []dev {
	var out []dev
	for i, a := range b.attrs {
		for _, k := range []string{"respell-kebab", "respell-snake", "prop-present", "prop-absent", "remove", "alt", "inline", "subkey"} {
			out = append(out, dev{Kind: k, Attr: i})
		}
		if strings.HasSuffix(a.k, ".type") && strings.Count(a.k, ".") == 2 {
			for _, broken := range []string{"{", "{a=1}}", "{a=1} x", "{a='1'}", "{a=1 @}", "{a=}", "{=1}", "{a=1,,}"} {
				out = append(out, dev{Kind: "inline-broken", Attr: i, Val: broken})
			}
		}
		if a.str {
			for _, sv := range []string{"{}", "[]", "<nil>", "a b", "a=b,c"} {
				out = append(out, dev{Kind: "special", Attr: i, Val: sv})
			}
		}
		for _, iv := range a.ill {
			out = append(out, dev{Kind: "ill", Attr: i, Val: iv})
		}
	}
	return out
}

var hostileValues = []string{"", " ", "${", "${x}", "${}", "[]", "{}", "<nil>", "Logger{", "a.b", "!", "0x", "\x00", "日本"}

func init() {
	definePart("C15", "c15/deviations", "qt", "5 base configurations x all single deviations (thorough: all pairs of deviations on different attributes)",
		func(tier string, yield func(c15Case)) {
			for bi, b := range c15Bases() {
				yield(c15Case{Base: bi})
				ds := c15Devs(b)
				for _, d := range ds {
					yield(c15Case{Base: bi, Devs: []dev{d}})
				}
				if tier == "thorough" {
					for i, d1 := range ds {
						for _, d2 := range ds[i+1:] {
							// pairs inside one plugin interact (removing the type and an attribute removes the plugin;
							// an attribute may only be validated when another one enables it): only cross-plugin pairs
							p1, p2 := strings.SplitN(b.attrs[d1.Attr].k, ".", 3), strings.SplitN(b.attrs[d2.Attr].k, ".", 3)
							if d1.Attr != d2.Attr && d1.Kind != "inline" && d2.Kind != "inline" && (len(p1) < 2 || len(p2) < 2 || p1[0]+"."+p1[1] != p2[0]+"."+p2[1]) {
								yield(c15Case{Base: bi, Devs: []dev{d1, d2}})
							}
						}
					}
				}
			}
		}, c15Check)
	type totCase struct {
		Base int    `json:"base"`
		Mut  string `json:"mutation"`
		Key  string `json:"key"`
		Val  string `json:"val"`
	}
	definePart("C15", "c15/totality", "qt", "5 bases x (each key deleted | each value replaced by each of 14 hostile strings | each key mangled 8 ways): Refresh returns nil or error, never panics; recovery",
		func(tier string, yield func(totCase)) {
			for bi, b := range c15Bases() {
				for _, a := range b.attrs {
					yield(totCase{bi, "delete", a.k, ""})
					for _, h := range hostileValues {
						yield(totCase{bi, "value", a.k, h})
					}
					for _, mk := range []string{a.k[:len(a.k)-1], a.k + "[0]", a.k + ".", a.k + "..", a.k + "!", "." + a.k, strings.ToUpper(a.k), strings.Replace(a.k, ".", "..", 1),
						a.k + "-", a.k + "_", a.k + "-_", "_" + a.k, "-" + a.k, strings.Replace(a.k, ".", "_.", 1), strings.Replace(a.k, ".", ".-", 1), a.k + ".x-", "-", "_", ""} {
						yield(totCase{bi, "key", a.k, mk})
					}
					yield(totCase{bi, "key!expr", a.k, "T{a=1}"})
					yield(totCase{bi, "key!expr", a.k, "T{"})
					// placeholders that lead to placeholders: itself, a cycle of two and of three, a chain ending in
					// a missing key - whatever they resolve to, Refresh returns (a call that never returns is
					// reported by the watchdog as call-blocked)
					for _, cyc := range []string{"self", "two", "three", "chain-missing", "trailing-separator", "only-separators", "empty-name"} {
						yield(totCase{bi, "placeholder", a.k, cyc})
					}
				}
			}
		},
		func(c totCase) (string, []Violation, int) {
			b := c15Bases()[c.Base]
			m := b.conf()
			switch c.Mut {
			case "delete":
				delete(m, c.Key)
			case "value":
				m[c.Key] = c.Val
			case "key":
				v := m[c.Key]
				delete(m, c.Key)
				m[c.Val] = v
			case "key!expr":
				delete(m, c.Key)
				m[c.Key+"!"] = c.Val
			case "placeholder":
				m[c.Key] = "${cyc-a}"
				switch c.Val {
				case "self":
					m["cycA"] = "${cyc-a}"
				case "two":
					m["cycA"], m["cycB"] = "${cyc-b}", "${cyc-a}"
				case "three":
					m["cycA"], m["cycB"], m["cycC"] = "${cyc-b}", "${cyc-c}", "${cycA}"
				case "chain-missing":
					m["cycA"], m["cycB"] = "${cyc-b}", "${cyc-nowhere}"
				case "trailing-separator":
					m[c.Key] = "${cyc-a_}"
					m["cycA"] = "x"
				case "only-separators":
					m[c.Key] = "${-_-}"
				case "empty-name":
					m[c.Key] = "${}"
				}
			}
			key := fmt.Sprintf("%s %s %s %q", b.name, c.Mut, c.Key, c.Val)
			confReset()
			var v []Violation
			err, pn := safeRefresh(m)
			if pn != nil {
				v = append(v, Violation{Clause: "refresh-panicked", Key: key, Detail: fmt.Sprintf("%v (%s)", pn, confString(m))})
			}
			if err == nil && pn == nil {
				// the configured system must be usable
				if pn := safeCall(func() { c01Probe() }); pn != nil {
					v = append(v, Violation{Clause: "accepted-config-unusable", Key: key, Detail: fmt.Sprintf("logging after the accepted configuration panicked: %v (%s)", pn, confString(m))})
				}
			}
			if pn := safeCall(log.Destroy); pn != nil {
				v = append(v, Violation{Clause: "destroy-panicked", Key: key, Detail: fmt.Sprint(pn)})
			}
			if err2, pn2 := safeRefresh(c15Bases()[0].conf()); err2 != nil || pn2 != nil {
				v = append(v, Violation{Clause: "no-recovery-after-destroy", Key: key, Detail: fmt.Sprintf("err=%v panic=%v", err2, pn2)})
			}
			safeCall(log.Destroy)
			if err != nil {
				return "error", v, 2
			}
			return "accepted", v, 2
		})
	// every registered appender and logger type from its minimal configuration
	type minCase struct {
		Kind, Type string
	}
	definePart("C15", "c15/every-registered-type", "qt", "every registered appender and logger type instantiated from its minimal configuration and probed",
		func(tier string, yield func(minCase)) {
			for _, t := range []string{"Discard", "Console", "File", "RollingFile", "Rec"} {
				yield(minCase{"appender", t})
			}
			for _, t := range []string{"Logger", "AsyncLogger", "Discard", "Console", "File", "RollingFile"} {
				yield(minCase{"logger", t})
			}
		},
		func(c minCase) (string, []Violation, int) {
			d := c15Dir()
			m := map[string]string{}
			req := map[string]map[string]string{
				"File":        {"fileName": "min.log", "fileDir": d},
				"RollingFile": {"fileName": "minr.log", "fileDir": d, "rotation": "h", "maxAge": "1"},
			}
			if c.Kind == "appender" {
				m["appender.x.type"] = c.Type
				for k, v := range req[c.Type] {
					m["appender.x."+k] = v
				}
				m["logger.root.type"] = "Logger"
				m["logger.root.appenderRef.ref"] = "x"
			} else {
				m["appender.x.type"] = "Discard"
				m["logger.root.type"] = c.Type
				for k, v := range req[c.Type] {
					if k != "maxAge" {
						m["logger.root."+k] = v
					}
				}
				if c.Type == "Logger" || c.Type == "AsyncLogger" {
					m["logger.root.appenderRef.ref"] = "x"
				}
			}
			key := c.Kind + " " + c.Type
			confReset()
			var v []Violation
			err, pn := safeRefresh(m)
			if err != nil || pn != nil {
				v = append(v, Violation{Clause: "type-not-instantiable", Key: key, Detail: fmt.Sprintf("minimal configuration %s: err=%v panic=%v", confString(m), err, pn)})
			} else {
				for _, f := range checkDeclaredDefaults(m) {
					v = append(v, Violation{Clause: "declared-default", Key: key, Detail: fmt.Sprintf("%s (%s)", f, confString(m))})
				}
				if pn := safeCall(func() { c01Probe() }); pn != nil {
					v = append(v, Violation{Clause: "accepted-config-unusable", Key: key, Detail: fmt.Sprintf("logging panicked: %v", pn)})
				}
			}
			if pn := safeCall(log.Destroy); pn != nil {
				v = append(v, Violation{Clause: "destroy-panicked", Key: key, Detail: fmt.Sprint(pn)})
			}
			return fmt.Sprint(err == nil), v, 1
		})
}

// c01Probe logs one event per level through the probe tag and writes through the root handle.
func c01Probe() {
	for _, l := range allLevels {
		log.Record(context.Background(), l.l, tagC01, 1, log.Msg("probe-"+l.name))
	}
	rootHandleEnum.Write([]byte("probe-raw\n"))
}

// Indexed element lists of every length 1..13 (two-digit indexes sort differently as strings): a logger with
// n appender references written as appenderRef[0] .. appenderRef[n-1] resolves all n of them (one event
// reaches each of the n appenders exactly once), an index gap or a reference to a missing appender at ANY
// position is an error.
func init() {
	type listCase struct {
		N   int    `json:"n"`
		Mut string `json:"mutation"` // "" | "dangling@k" | "bad-level@k"
		K   int    `json:"k"`
	}
	definePart("C15", "c15/indexed-lists", "qt", "appenderRef[0..n-1] for n = 1..13: all resolved; a dangling reference or an ill-typed level at every position k is rejected",
		func(tier string, yield func(listCase)) {
			for n := 1; n <= 13; n++ {
				yield(listCase{n, "", 0})
				for k := 0; k < n; k++ {
					yield(listCase{n, "dangling", k})
					yield(listCase{n, "bad-level", k})
				}
			}
		},
		func(c listCase) (string, []Violation, int) {
			confReset()
			conf := map[string]string{"logger.root.type": "Logger", "logger.root.level": "INFO"}
			for i := 0; i < c.N; i++ {
				conf[fmt.Sprintf("appender.il%d.type", i)] = "Rec"
				conf[fmt.Sprintf("logger.root.appenderRef[%d].ref", i)] = fmt.Sprintf("il%d", i)
			}
			key := fmt.Sprintf("n=%d %s@%d", c.N, c.Mut, c.K)
			switch c.Mut {
			case "dangling":
				conf[fmt.Sprintf("logger.root.appenderRef[%d].ref", c.K)] = "nowhere"
			case "bad-level":
				conf[fmt.Sprintf("logger.root.appenderRef[%d].level", c.K)] = "not-a-level"
			}
			err, pn := safeRefresh(conf)
			var v []Violation
			if pn != nil {
				return "panic", []Violation{{Clause: "refresh-panicked", Key: key, Detail: fmt.Sprint(pn)}}, 1
			}
			if c.Mut != "" {
				if err == nil {
					v = append(v, Violation{Clause: "bad-config-accepted", Key: key, Detail: fmt.Sprintf("Refresh accepted a list of %d references whose entry [%d] is %s", c.N, c.K, c.Mut)})
				}
				safeCall(log.Destroy)
				return "rejected", v, 1
			}
			if err != nil {
				return "err", []Violation{{Clause: "valid-config-rejected", Key: key, Detail: err.Error()}}, 1
			}
			log.Info(context.Background(), tagC01, log.Msg("il-event"))
			log.Destroy()
			for i := 0; i < c.N; i++ {
				if got := len(recStore[fmt.Sprintf("il%d", i)]); got != 1 {
					v = append(v, Violation{Clause: "attribute-value", Key: key, Detail: fmt.Sprintf("appender il%d, referenced as appenderRef[%d] of %d, received the event %d time(s)", i, i, c.N, got)})
				}
			}
			return fmt.Sprint(c.N), v, c.N
		})
}

// ---------------------------------------------------------------------------------------------
// C15 - "a plugin attribute takes the configured value" when the value's meaning is registered LATER:
// a level name / rotation policy that is unknown at the first Refresh (error, as it must be), then
// registered by the application, then configured again: the second Refresh succeeds and the value is
// the registered one; re-registering a policy under the same name with another interval is seen too.
// ---------------------------------------------------------------------------------------------

func init() {
	definePart("C15", "c15/registered-later", "qt", "a level name and a rotation policy that are registered between a failed and a second Refresh (6 attribute positions), and a policy re-registered with another interval",
		func(tier string, yield func(string)) {
			for _, k := range []string{"logger-level", "ref-level", "appender-rotation", "logger-rotation", "rotation-reregistered", "level-range-upper"} {
				yield(k)
			}
		},
		func(kind string) (string, []Violation, int) {
			confReset()
			d := filepath.Join(c15Dir(), "later")
			os.RemoveAll(d)
			os.MkdirAll(d, 0o755)
			lname := fmt.Sprintf("LATER%s", strings.ToUpper(strings.ReplaceAll(kind, "-", "")))
			rname := "37m-" + kind
			conf := map[string]string{"appender.rec.type": "Rec", "logger.root.type": "Logger", "logger.root.appenderRef.ref": "rec"}
			switch kind {
			case "logger-level":
				conf["logger.root.level"] = lname
			case "level-range-upper":
				conf["logger.root.level"] = "INFO~" + lname
			case "ref-level":
				conf["logger.root.appenderRef.level"] = lname
			case "appender-rotation", "rotation-reregistered":
				conf["appender.roll.type"], conf["appender.roll.fileDir"], conf["appender.roll.fileName"] = "RollingFile", d, "r.log"
				conf["appender.roll.rotation"], conf["appender.roll.maxAge"] = rname, "24"
			case "logger-rotation":
				conf = map[string]string{"appender.unused.type": "Discard", "logger.root.type": "RollingFile", "logger.root.fileDir": d, "logger.root.fileName": "rl.log", "logger.root.rotation": rname}
			}
			var v []Violation
			fail := func(clause, dt string) { v = append(v, Violation{Clause: clause, Key: kind, Detail: dt}) }
			err, pn := safeRefresh(conf)
			if pn != nil {
				fail("refresh-panicked", fmt.Sprint(pn))
			}
			if err == nil {
				fail("bad-config-accepted", "a name nobody has registered was accepted: "+confString(conf))
			}
			safeCall(log.Destroy)
			if strings.Contains(kind, "rotation") {
				log.RegisterTimeRotation(rname, log.TimeRotation{Interval: 37 * time.Minute})
			} else {
				log.RegisterLevel(450, lname)
			}
			err, pn = safeRefresh(conf)
			if err != nil || pn != nil {
				fail("valid-config-rejected", fmt.Sprintf("after the name had been registered the same configuration is still refused: err=%v panic=%v", err, pn))
				safeCall(log.Destroy)
				return "rejected", v, 2
			}
			live := dumpLive()
			safeCall(log.Destroy)
			if kind == "rotation-reregistered" {
				log.RegisterTimeRotation(rname, log.TimeRotation{Interval: 41 * time.Minute})
				if err, pn := safeRefresh(conf); err != nil || pn != nil {
					fail("valid-config-rejected", fmt.Sprintf("third Refresh: err=%v panic=%v", err, pn))
				} else {
					live = dumpLive()
					safeCall(log.Destroy)
					if got := live["appender.roll.Rotation"]; got != "41m0s" {
						fail("attribute-value", fmt.Sprintf("the policy was registered again with 41m: the appender's rotation is %q", got))
					}
				}
			} else if strings.Contains(kind, "appender-rotation") {
				if got := live["appender.roll.Rotation"]; got != "37m0s" {
					fail("attribute-value", fmt.Sprintf("appender.roll.Rotation = %q, want 37m0s", got))
				}
			}
			return fmt.Sprint(len(live)), v, 3
		})
}
