package main

import (
	"context"
	"fmt"
	"runtime"

	log "github.com/go-spring/log"
)

// ---------------------------------------------------------------------------------------------
// C11 - the reported file:line is the caller's statement, in both caller-lookup modes.
// Complete product: 16 entry-point forms (Record with skip 1 and 2) x 7 call shapes x {default,
// fast} x {first call, repeated call (cache hit)} x enableCaller on/off (set through Refresh).
// Oracle: runtime.Caller evaluated on the same source line as the call.
// ---------------------------------------------------------------------------------------------

//go:noinline
func here() (string, int) {
	_, f, l, _ := runtime.Caller(1)
	return f, l
}

type c11Case struct {
	Site   int  `json:"site"`
	Fast   bool `json:"fast"`
	Enable bool `json:"enable_caller"`
}

func init() {
	definePart("C11", "c11/call-sites", "qt", fmt.Sprintf("%d generated call sites x {default, fast} x {first, repeated} x enableCaller on/off", len(c11Sites)),
		func(tier string, yield func(c11Case)) {
			for i := range c11Sites {
				for _, fast := range []bool{false, true} {
					for _, en := range []bool{true, false} {
						yield(c11Case{i, fast, en})
					}
				}
			}
		},
		func(c c11Case) (string, []Violation, int) {
			s := c11Sites[c.Site]
			confReset()
			log.VerifReset() // cold caches and pools: the history below re-creates what a case needs
			// history: the same process has logged before with caller lookup ON (from another call site), so
			// that recycled events / cached frames from that time exist whatever the shard order of cases
			if err, pn := safeRefresh(map[string]string{"appender.r0.type": "Rec", "logger.root.type": "Logger", "logger.root.appenderRef.ref": "r0", "logger.root.level": "TRACE", "enableCaller": "true"}); err == nil && pn == nil {
				for i := 0; i < 3; i++ {
					c11Sites[(c.Site+7)%len(c11Sites)].run()
				}
				log.Destroy()
			}
			confReset()
			conf := map[string]string{"appender.r0.type": "Rec", "logger.root.type": "Logger", "logger.root.appenderRef.ref": "r0", "logger.root.level": "TRACE",
				"enableCaller": fmt.Sprint(c.Enable), "fastCaller": fmt.Sprint(c.Fast)}
			key := fmt.Sprintf("%s/%s fast=%v enableCaller=%v", s.ep, s.shape, c.Fast, c.Enable)
			if err, pn := safeRefresh(conf); err != nil || pn != nil {
				return "refresh-failed", []Violation{{Clause: "valid-config-rejected", Key: key, Detail: fmt.Sprintf("err=%v panic=%v", err, pn)}}, 1
			}
			if en, fa, ok := log.VerifCallerMode(); ok && (en != c.Enable || fa != c.Fast) {
				return "mode", []Violation{{Clause: "caller-mode-property", Key: key, Detail: fmt.Sprintf("properties enableCaller=%v fastCaller=%v were not applied (got %v,%v)", c.Enable, c.Fast, en, fa)}}, 1
			}
			var v []Violation
			var wf [2]string
			var wl [2]int
			for round := 0; round < 2; round++ { // second round hits the fast-caller cache
				wf[round], wl[round] = s.run()
			}
			log.Destroy()
			items := recStore["r0"]
			if len(items) != 2 {
				return "count", []Violation{{Clause: "site-did-not-log", Key: key, Detail: fmt.Sprintf("%d events recorded, want 2", len(items))}}, 2
			}
			for round, it := range items {
				gf, gl := it.Event.File, it.Event.Line
				if !c.Enable {
					if gf != "" || gl != 0 {
						v = append(v, Violation{Clause: "location-not-empty", Key: key, Detail: fmt.Sprintf("caller lookup disabled but event carries %s:%d", gf, gl)})
					}
					continue
				}
				if gf != wf[round] || gl != wl[round] {
					v = append(v, Violation{Clause: "wrong-location", Key: fmt.Sprintf("%s fast=%v", s.ep+"/"+s.shape, c.Fast),
						Detail: fmt.Sprintf("call %d: event says %s:%d, the calling statement is at %s:%d", round+1, gf, gl, wf[round], wl[round])})
				}
			}
			return fmt.Sprintf("%s:%d", items[0].Event.File, items[0].Event.Line), v, 2
		})

	// Cache populations: P distinct call sites log once each (the 112 generated sites, then fillers), then
	// every one of them logs again, in both modes; every one of the 2P events must carry its own statement.
	// A cache of call sites that is bounded, evicts or recycles entries must keep that true whatever its
	// capacity up to the largest population here.
	type popCase struct {
		Sites int  `json:"distinct_sites"`
		Fast  bool `json:"fast"`
	}
	allSites := func() []func() (string, int) {
		var r []func() (string, int)
		for _, s := range c11Sites {
			r = append(r, s.run)
		}
		return append(r, c11Fillers...)
	}
	definePart("C11", "c11/cache-populations", "qt", "P distinct call sites log once each, then each again (P = 1..1612 on a ladder), default and fast mode",
		func(tier string, yield func(popCase)) {
			for _, p := range []int{1, 2, 3, 5, 9, 17, 33, 65, 112, 129, 255, 256, 257, 513, 1025, 1612} {
				for _, fast := range []bool{false, true} {
					yield(popCase{p, fast})
				}
			}
		},
		func(c popCase) (string, []Violation, int) {
			sites := allSites()[:c.Sites]
			confReset()
			log.VerifReset() // cold caches and pools: the history below re-creates what a case needs
			key := fmt.Sprintf("sites=%d fast=%v", c.Sites, c.Fast)
			conf := map[string]string{"appender.r0.type": "Rec", "logger.root.type": "Logger", "logger.root.appenderRef.ref": "r0", "logger.root.level": "TRACE",
				"enableCaller": "true", "fastCaller": fmt.Sprint(c.Fast)}
			if err, pn := safeRefresh(conf); err != nil || pn != nil {
				return "refresh-failed", []Violation{{Clause: "valid-config-rejected", Key: key, Detail: fmt.Sprintf("err=%v panic=%v", err, pn)}}, 1
			}
			type loc struct {
				f string
				l int
			}
			var want []loc
			for pass := 0; pass < 2; pass++ {
				for _, run := range sites {
					f, l := run()
					want = append(want, loc{f, l})
				}
			}
			log.Destroy()
			items := recStore["r0"]
			if len(items) != len(want) {
				return "count", []Violation{{Clause: "site-did-not-log", Key: key, Detail: fmt.Sprintf("%d events recorded, want %d", len(items), len(want))}}, len(want)
			}
			var v []Violation
			for i, it := range items {
				if it.Event.File != want[i].f || it.Event.Line != want[i].l {
					v = append(v, Violation{Clause: "wrong-location", Key: fmt.Sprintf("cache-populations fast=%v", c.Fast),
						Detail: fmt.Sprintf("%d distinct sites, pass %d, site %d: event says %s:%d, the calling statement is at %s:%d", c.Sites, i/len(sites)+1, i%len(sites), it.Event.File, it.Event.Line, want[i].f, want[i].l)})
					if len(v) >= 3 {
						break
					}
				}
			}
			return fmt.Sprintf("%d", len(items)), v, len(want)
		})
}

// Record with every skip value from 0 up to well beyond the depth of the stack, from three call depths
// (directly, through one and through two helper frames), after other lookups have run in the same mode:
// "for Record, the frame chosen by its skip argument". Oracle: skip k >= 1 reports what
// runtime.Caller(k-1) reports at the Record call itself (file and line of frame k above Record, empty beyond
// the stack), and the default and the fast mode report the same location for every skip.

//go:noinline
func c11RecordAt(skip int, id int) (string, int, bool) {
	_, f, l, ok := runtime.Caller(max(skip-1, 0))
	log.Record(context.Background(), log.InfoLevel, tagC01, skip, log.Int("id", id))
	if skip == 1 {
		l++ // frame 0 is this function: Record sits on the next line
	}
	return f, l, ok
}

//go:noinline
func c11RecordVia1(skip, id int) (string, int, bool) {
	f, l, ok := c11RecordAt(skip, id)
	return f, l, ok
}

//go:noinline
func c11RecordVia2(skip, id int) (string, int, bool) {
	f, l, ok := c11RecordVia1(skip, id)
	return f, l, ok
}

func init() {
	type skipCase struct {
		Fast bool `json:"fast"`
	}
	definePart("C11", "c11/record-skips", "qt", "Record with skip 1..12, 50, 1000 from three call depths, after other lookups in the same mode; both modes",
		func(tier string, yield func(skipCase)) {
			yield(skipCase{false})
			yield(skipCase{true})
			yield(skipCase{false})
		},
		func(c skipCase) (string, []Violation, int) {
			confReset()
			log.VerifReset()
			conf := map[string]string{"appender.r0.type": "Rec", "logger.root.type": "Logger", "logger.root.appenderRef.ref": "r0", "logger.root.level": "TRACE",
				"enableCaller": "true", "fastCaller": fmt.Sprint(c.Fast)}
			key := fmt.Sprintf("fast=%v", c.Fast)
			if err, pn := safeRefresh(conf); err != nil || pn != nil {
				return "refresh-failed", []Violation{{Clause: "valid-config-rejected", Key: key, Detail: fmt.Sprintf("err=%v panic=%v", err, pn)}}, 1
			}
			type exp struct {
				f  string
				l  int
				ok bool
				d  string
			}
			var want []exp
			id := 0
			for round := 0; round < 2; round++ { // the second round runs with whatever the lookups of the first left behind
				for _, skip := range []int{1, 2, 3, 4, 5, 6, 7, 8, 9, 10, 11, 12, 50, 1000} {
					for di, via := range []func(int, int) (string, int, bool){c11RecordAt, c11RecordVia1, c11RecordVia2} {
						c11Sites[(id+3)%len(c11Sites)].run() // other call sites in between
						id++
						f, l, ok := via(skip, 100000+id)
						want = append(want, exp{f, l, ok, fmt.Sprintf("round %d skip %d depth %d", round, skip, di)})
					}
				}
			}
			log.Destroy()
			var v []Violation
			k := 0
			n := 0
			for _, it := range recStore["r0"] {
				if len(it.Event.Fields) == 0 || it.Event.Fields[0].Num < 100000 {
					continue
				}
				if k >= len(want) {
					break
				}
				w := want[k]
				k++
				n++
				gf, gl := it.Event.File, it.Event.Line
				if !w.ok {
					w.f, w.l = "", 0
				}
				if gf != w.f || gl != w.l {
					v = append(v, Violation{Clause: "wrong-location", Key: fmt.Sprintf("Record %s fast=%v", w.d, c.Fast),
						Detail: fmt.Sprintf("%s: event says %q:%d, runtime.Caller for that frame says %q:%d (beyond the stack: %v)", w.d, gf, gl, w.f, w.l, !w.ok)})
					if len(v) > 5 {
						break
					}
				}
			}
			if k != len(want) {
				v = append(v, Violation{Clause: "site-did-not-log", Key: key, Detail: fmt.Sprintf("%d Record events recorded, want %d", k, len(want))})
			}
			return fmt.Sprint(n), v, n
		})
}

// A property value that Refresh REJECTS must not change the switch it names: after a valid configuration
// set enableCaller / fastCaller, a later Refresh carrying an ill-typed value for one of them fails and the
// next valid configuration (which does not mention them) still reports locations the way the last valid
// setting said.
func init() {
	type rejCase struct {
		Enable bool   `json:"last_valid_enable_caller"`
		Fast   bool   `json:"last_valid_fast_caller"`
		Prop   string `json:"rejected_property"`
		Val    string `json:"rejected_value"`
	}
	definePart("C11", "c11/rejected-property-values", "qt", "last valid (enableCaller, fastCaller) in {on,off}^2, then a Refresh rejected for an ill-typed value of either property (7 values), then a configuration that sets neither",
		func(tier string, yield func(rejCase)) {
			for _, en := range []bool{true, false} {
				for _, fa := range []bool{false, true} {
					for _, prop := range []string{"enableCaller", "fastCaller"} {
						for _, val := range []string{"yes", "enabled", "2", "TRUE!", "on", "nil", " "} {
							yield(rejCase{en, fa, prop, val})
						}
					}
				}
			}
		},
		func(c rejCase) (string, []Violation, int) {
			confReset()
			key := fmt.Sprintf("last valid enableCaller=%v fastCaller=%v, then %s=%q", c.Enable, c.Fast, c.Prop, c.Val)
			base := map[string]string{"appender.r0.type": "Rec", "logger.root.type": "Logger", "logger.root.appenderRef.ref": "r0", "logger.root.level": "TRACE"}
			with := func(kv ...string) map[string]string {
				m := map[string]string{}
				for k, v := range base {
					m[k] = v
				}
				for i := 0; i+1 < len(kv); i += 2 {
					m[kv[i]] = kv[i+1]
				}
				return m
			}
			if err, pn := safeRefresh(with("enableCaller", fmt.Sprint(c.Enable), "fastCaller", fmt.Sprint(c.Fast))); err != nil || pn != nil {
				return "refresh-failed", []Violation{{Clause: "valid-config-rejected", Key: key, Detail: fmt.Sprintf("err=%v panic=%v", err, pn)}}, 1
			}
			log.Destroy()
			var v []Violation
			err, pn := safeRefresh(with(c.Prop, c.Val))
			if pn != nil {
				v = append(v, Violation{Clause: "refresh-panicked", Key: key, Detail: fmt.Sprint(pn)})
			}
			accepted := err == nil && pn == nil
			safeCall(log.Destroy)
			if accepted {
				// strconv.ParseBool-style leniency is not ours to judge here (C15 owns ill-typed values): nothing rejected, nothing to check
				return "accepted", v, 1
			}
			if en, fa, ok := log.VerifCallerMode(); ok && (en != c.Enable || fa != c.Fast) {
				v = append(v, Violation{Clause: "rejected-value-changed-the-switch", Key: key, Detail: fmt.Sprintf("after the rejected Refresh the switches are enableCaller=%v fastCaller=%v, the last valid configuration set %v / %v", en, fa, c.Enable, c.Fast)})
			}
			if err, pn := safeRefresh(with()); err != nil || pn != nil {
				return "refresh-failed", append(v, Violation{Clause: "valid-config-rejected", Key: key, Detail: fmt.Sprintf("after the rejected one: err=%v panic=%v", err, pn)}), 1
			}
			wf, wl := c11Sites[0].run()
			log.Destroy()
			items := recStore["r0"]
			if len(items) != 1 {
				return "count", append(v, Violation{Clause: "site-did-not-log", Key: key, Detail: fmt.Sprintf("%d events recorded, want 1", len(items))}), 1
			}
			gf, gl := items[0].Event.File, items[0].Event.Line
			if c.Enable && (gf != wf || gl != wl) {
				v = append(v, Violation{Clause: "wrong-location", Key: key, Detail: fmt.Sprintf("event says %q:%d, the calling statement is at %s:%d (caller lookup was last validly switched ON)", gf, gl, wf, wl)})
			}
			if !c.Enable && (gf != "" || gl != 0) {
				v = append(v, Violation{Clause: "location-not-empty", Key: key, Detail: fmt.Sprintf("event carries %s:%d although caller lookup was last validly switched OFF", gf, gl)})
			}
			return fmt.Sprintf("%s:%d", gf, gl), v, 1
		})
}
