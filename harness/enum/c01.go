package main

import (
	"context"
	"fmt"
	"strings"

	log "github.com/go-spring/log"
)

// ---------------------------------------------------------------------------------------------
// C01 - an event reaches an appender iff its level is enabled on the whole path.
// ---------------------------------------------------------------------------------------------

var (
	lvNotice = log.RegisterLevel(350, "notice")
	lvTop    = log.RegisterLevel(998, "Top")
	lvOver   = log.RegisterLevel(1200, "Over") // a user-registered level above the built-in MAX
	tagC01   = regTag("_c01_probe")
	// user-registered ALIASES: a second name for the code of an existing level (ranges are over level codes)
	lvWarning = log.RegisterLevel(400, "Warning")
	lvSevere  = log.RegisterLevel(500, "severe")
	lvFine    = log.RegisterLevel(200, "FINE")
)

var aliasLevels = []lvl{{"WARNING", 400, lvWarning}, {"SEVERE", 500, lvSevere}, {"FINE", 200, lvFine}}

type lvl struct {
	name string
	code int32
	l    log.Level
}

var allLevels = []lvl{
	{"NONE", 0, log.NoneLevel}, {"TRACE", 100, log.TraceLevel}, {"DEBUG", 200, log.DebugLevel}, {"INFO", 300, log.InfoLevel},
	{"NOTICE", 350, lvNotice}, {"WARN", 400, log.WarnLevel}, {"ERROR", 500, log.ErrorLevel}, {"PANIC", 600, log.PanicLevel},
	{"FATAL", 700, log.FatalLevel}, {"TOP", 998, lvTop}, {"MAX", 999, log.MaxLevel}, {"OVER", 1200, lvOver},
}

func levelByName(n string) (lvl, bool) {
	for _, l := range allLevels {
		if l.name == strings.ToUpper(n) {
			return l, true
		}
	}
	for _, l := range aliasLevels {
		if l.name == strings.ToUpper(n) {
			return l, true
		}
	}
	return lvl{}, false
}

type refRange struct {
	min, max int32
	explicit bool // explicit upper bound
	ok       bool
}

// refParseRange: the documented range language.
func refParseRange(s string) refRange {
	s = strings.TrimSpace(s)
	if s == "" {
		return refRange{0, 999, false, true}
	}
	ps := strings.Split(s, "~")
	if len(ps) > 2 {
		return refRange{}
	}
	a, ok := levelByName(ps[0])
	if !ok {
		return refRange{}
	}
	if len(ps) == 1 {
		return refRange{a.code, 999, false, true}
	}
	b, ok := levelByName(ps[1])
	if !ok {
		return refRange{}
	}
	return refRange{a.code, b.code, true, true}
}

func (r refRange) has(c int32) bool { return c >= r.min && c < r.max }

// effective ranges of a logger's references (reference model of the chaining rule)
func refEffective(refs []refRange) []refRange {
	out := make([]refRange, len(refs))
	for i, r := range refs {
		out[i] = r
		if !r.explicit {
			next := int32(999)
			for _, q := range refs {
				if q.min > r.min && q.min < next {
					next = q.min
				}
			}
			out[i].max = next
		}
	}
	return out
}

// ---- (a) the range language ------------------------------------------------------------------

func init() {
	definePart("C01", "c01/range-language", "qt", "every 'A', 'A~B', '' over 11 level names + 3 unknown names in lower/upper/mixed case, with blanks; Enable over 17 level codes",
		func(tier string, yield func(string)) {
			names := []string{"none", "TRACE", "Debug", "info", "NOTICE", "warn", "ERROR", "panic", "Fatal", "top", "MAX", "nope", "", " info"}
			yield("")
			yield("  ")
			for _, a := range names {
				yield(a)
				yield(" " + a + " ")
				for _, b := range names {
					yield(a + "~" + b)
				}
			}
			yield("INFO~WARN~ERROR")
			yield("~")
			yield("INFO~")
			yield("~WARN")
		},
		func(s string) (string, []Violation, int) {
			got, err := log.ParseLevelRange(s)
			want := refParseRange(s)
			key := fmt.Sprintf("%q", s)
			// excluded (ambiguous in the statement): inner blanks around '~', empty parts, three parts
			trimmed := strings.TrimSpace(s)
			if strings.Count(trimmed, "~") > 1 || strings.Contains(trimmed, " ") || strings.HasPrefix(trimmed, "~") || strings.HasSuffix(trimmed, "~") {
				if err == nil {
					return "excluded-accepted", nil, 1
				}
				return "excluded-rejected", nil, 1
			}
			var v []Violation
			if want.ok != (err == nil) {
				v = append(v, Violation{Clause: "range-accepts", Key: key, Detail: fmt.Sprintf("ParseLevelRange(%q): err=%v, the documented language says valid=%v", s, err, want.ok)})
				return "mismatch", v, 1
			}
			if !want.ok {
				return "rejected", nil, 1
			}
			n := 0
			for _, c := range []int32{0, 1, 99, 100, 101, 199, 200, 300, 349, 350, 351, 400, 500, 600, 700, 998, 999} {
				n++
				l := log.RegisterLevel(c, fmt.Sprintf("tmp%d", c))
				if got.Enable(l) != want.has(c) {
					v = append(v, Violation{Clause: "range-enable", Key: key, Detail: fmt.Sprintf("range %q: Enable(code %d)=%v, want %v ([%d,%d))", s, c, got.Enable(l), want.has(c), want.min, want.max)})
				}
			}
			return fmt.Sprintf("[%d,%d)", want.min, want.max), v, n
		})

	// ---- (b) chaining through Refresh ----------------------------------------------------------
	type chainCase struct {
		Kind   string   `json:"kind"` // Logger | Logger+layout | AsyncLogger | AsyncLogger+layout
		Logger string   `json:"logger_level"`
		Refs   []string `json:"ref_levels"`
		Same   bool     `json:"last_ref_names_first_appender,omitempty"` // the LAST reference names the appender of the first one again (one appender, two disjoint ranges)
	}
	lows := []string{"DEBUG", "INFO", "NOTICE", "WARN", "ERROR"}
	var shapes []string
	for _, lo := range lows {
		shapes = append(shapes, lo)
		for _, up := range lows {
			shapes = append(shapes, lo+"~"+up)
		}
	}
	shapes = append(shapes, "")                         // empty = everything
	shapes = append(shapes, "DEBUG~OVER", "notice~Top") // explicit upper bounds that are user-registered levels (above MAX, just below it)
	loggerRanges := []string{"", "INFO", "DEBUG~ERROR", "WARN~WARN", "notice", "TRACE~TOP"}
	chainCheck := func(c chainCase) (string, []Violation, int) {
		confReset()
		conf := map[string]string{}
		typ, layout, _ := strings.Cut(c.Kind, "+")
		conf["logger.root.type"] = typ
		if c.Logger != "" {
			conf["logger.root.level"] = c.Logger
		}
		if layout != "" {
			conf["logger.root.layout.type"] = "TextLayout"
		}
		if typ == "AsyncLogger" {
			conf["logger.root.bufferSize"] = "100"
			conf["logger.root.bufferFullPolicy"] = "Block"
		}
		var rr []refRange
		for i, r := range c.Refs {
			target := fmt.Sprintf("r%d", i)
			if c.Same && i == len(c.Refs)-1 && i > 0 {
				target = "r0"
			} else {
				conf[fmt.Sprintf("appender.r%d.type", i)] = "Rec"
			}
			if len(c.Refs) == 1 {
				conf["logger.root.appenderRef.ref"] = "r0"
				if r != "" {
					conf["logger.root.appenderRef.level"] = r
				}
			} else {
				conf[fmt.Sprintf("logger.root.appenderRef[%d].ref", i)] = target
				if r != "" {
					conf[fmt.Sprintf("logger.root.appenderRef[%d].level", i)] = r
				}
			}
			rr = append(rr, refParseRange(r))
		}
		key := fmt.Sprintf("%s level=%q refs=%q", c.Kind, c.Logger, c.Refs)
		if c.Same {
			key += " (the last reference names appender r0 again)"
		}
		err, pn := safeRefresh(conf)
		if pn != nil || err != nil {
			return "refresh-failed", []Violation{{Clause: "valid-config-rejected", Key: key, Detail: fmt.Sprintf("Refresh(%s): err=%v panic=%v", confString(conf), err, pn)}}, 1
		}
		lr := refParseRange(c.Logger)
		eff := refEffective(rr)
		ctx := context.Background()
		var v []Violation
		evLevels := append(append([]lvl(nil), allLevels...), aliasLevels...)
		for _, l := range evLevels {
			if pn := safeCall(func() { log.Record(ctx, l.l, tagC01, 1, log.Msg("ev-"+l.name)) }); pn != nil {
				v = append(v, Violation{Clause: "log-call-panicked", Key: key, Detail: fmt.Sprintf("Record at %s panicked: %v", l.name, pn)})
			}
		}
		if pn := safeCall(log.Destroy); pn != nil {
			v = append(v, Violation{Clause: "destroy-panicked", Key: key, Detail: fmt.Sprint(pn)})
		}
		for i := range c.Refs {
			if c.Same && i == len(c.Refs)-1 && i > 0 {
				continue // counted with r0
			}
			got := map[string]int{}
			for _, it := range recStore[fmt.Sprintf("r%d", i)] {
				id := it.ID
				if it.Kind == "W" { // logger-level layout: formatted line
					j := strings.Index(id, "msg=ev-")
					if j < 0 {
						v = append(v, Violation{Clause: "unknown-delivery", Key: key, Detail: fmt.Sprintf("appender r%d received %q", i, id)})
						continue
					}
					id = strings.TrimSpace(id[j+4:])
				}
				got[id]++
			}
			for _, l := range evLevels {
				want := 0
				if lr.has(l.code) && eff[i].has(l.code) {
					want = 1
				}
				if c.Same && i == 0 && len(c.Refs) > 1 && lr.has(l.code) && eff[len(c.Refs)-1].has(l.code) {
					want++ // the appender's second reference (the enumeration keeps the two ranges disjoint)
				}
				if g := got["ev-"+l.name]; g != want {
					v = append(v, Violation{Clause: "delivery-count", Key: key,
						Detail: fmt.Sprintf("event at %s: appender r%d (level %q, effective [%d,%d)) received it %d time(s), want %d; logger range %q", l.name, i, c.Refs[i], eff[i].min, eff[i].max, g, want, c.Logger)})
				}
			}
		}
		return recSummary(), v, len(evLevels)
	}
	definePart("C01", "c01/reference-chaining", "qt",
		fmt.Sprintf("every sequence of 1-3 (thorough 4) appender references over %d level shapes x %d logger ranges x 12 event levels through Refresh and Record; async/layout kinds on 1-2 references", len(shapes), len(loggerRanges)),
		func(tier string, yield func(chainCase)) {
			maxN := 3
			if tier == "thorough" {
				maxN = 4
			}
			var rec func(cur []string)
			rec = func(cur []string) {
				if len(cur) > 0 {
					for _, lr := range loggerRanges {
						if len(cur) == maxN && maxN == 4 && lr != "" && lr != "DEBUG~ERROR" {
							continue
						}
						yield(chainCase{Kind: "Logger", Logger: lr, Refs: append([]string(nil), cur...)})
					}
					if len(cur) <= 2 {
						for _, k := range []string{"Logger+layout", "AsyncLogger", "AsyncLogger+layout"} {
							yield(chainCase{Kind: k, Logger: "INFO", Refs: append([]string(nil), cur...)})
							// (a logger range that contains NONE and everything up to user levels above MAX: events at the
							// extreme codes reach the references' filters on this path too)
							yield(chainCase{Kind: k, Logger: "", Refs: append([]string(nil), cur...)})
						}
					}
				}
				if len(cur) == maxN {
					return
				}
				for _, s := range shapes {
					rec(append(cur, s))
				}
			}
			rec(nil)
		},
		chainCheck)

	// ---- (b'') one appender referenced twice with disjoint ranges: it gets exactly the events of its two ranges ----
	definePart("C01", "c01/same-appender-twice", "qt", "every sequence of 2-3 references over 9 level shapes whose LAST reference names the first one's appender again, the two effective ranges disjoint; sync and async loggers x 15 event levels",
		func(tier string, yield func(chainCase)) {
			sh := []string{"DEBUG~INFO", "INFO~WARN", "WARN~ERROR", "ERROR", "DEBUG", "WARN", "INFO~ERROR", "NOTICE~WARN", "PANIC"}
			for _, a := range sh {
				for _, b := range sh {
					for _, k := range []string{"Logger", "AsyncLogger"} {
						for _, n := range []int{2, 3} {
							for _, mid := range sh {
								r := []string{a, b}
								if n == 3 {
									r = []string{a, mid, b}
								} else if mid != sh[0] {
									continue
								}
								var rr []refRange
								for _, x := range r {
									rr = append(rr, refParseRange(x))
								}
								eff := refEffective(rr)
								first, last := eff[0], eff[len(eff)-1]
								if first.min < last.max && last.min < first.max {
									continue // overlapping: "exactly once to each appender" does not say what a doubly enabled appender gets
								}
								yield(chainCase{Kind: k, Logger: "", Refs: r, Same: true})
							}
						}
					}
				}
			}
		},
		chainCheck)

	// ---- (b') the same through user-registered alias names (two names, one code) ---------------
	aliasShapes := []string{"WARN", "warning", "WARN~ERROR", "Warning~severe", "ERROR", "SEVERE", "fine", "DEBUG~warning", "INFO", ""}
	definePart("C01", "c01/alias-levels", "qt",
		fmt.Sprintf("every sequence of 1-3 appender references over %d level shapes naming built-in levels and user-registered aliases of the same codes x 2 logger ranges x 15 event levels", len(aliasShapes)),
		func(tier string, yield func(chainCase)) {
			var rec func(cur []string)
			rec = func(cur []string) {
				if len(cur) > 0 {
					yield(chainCase{Kind: "Logger", Logger: "", Refs: append([]string(nil), cur...)})
					yield(chainCase{Kind: "Logger", Logger: "fine~SEVERE", Refs: append([]string(nil), cur...)})
				}
				if len(cur) == 3 {
					return
				}
				for _, s := range aliasShapes {
					rec(append(cur, s))
				}
			}
			rec(nil)
		},
		chainCheck)

	// ---- (c) entry points ------------------------------------------------------------------------
	type epCase struct {
		EP     string `json:"entry_point"`
		Logger string `json:"logger_level"`
	}
	eps := entryPoints()
	definePart("C01", "c01/entry-points", "qt", "15 entry points x logger ranges cutting just below / at / above each entry point's level",
		func(tier string, yield func(epCase)) {
			order := []string{"TRACE", "DEBUG", "INFO", "NOTICE", "WARN", "ERROR", "PANIC", "FATAL", "TOP"}
			for _, ep := range eps {
				lv := ep.level
				if lv == "" {
					lv = "NOTICE"
				}
				idx := 0
				for i, n := range order {
					if n == lv {
						idx = i
					}
				}
				for _, r := range []string{"", lv, order[idx+1], "NONE~" + lv, "NONE~" + order[idx+1], lv + "~" + order[idx+1], "TRACE~" + lv} {
					yield(epCase{EP: ep.name, Logger: r})
				}
			}
		},
		func(c epCase) (string, []Violation, int) {
			confReset()
			conf := map[string]string{"appender.r0.type": "Rec", "logger.root.type": "Logger", "logger.root.appenderRef.ref": "r0"}
			if c.Logger != "" {
				conf["logger.root.level"] = c.Logger
			}
			key := c.EP + " logger=" + c.Logger
			if err, pn := safeRefresh(conf); err != nil || pn != nil {
				return "refresh-failed", []Violation{{Clause: "valid-config-rejected", Key: key, Detail: fmt.Sprintf("err=%v panic=%v", err, pn)}}, 1
			}
			var ep entryPoint
			for _, e := range eps {
				if e.name == c.EP {
					ep = e
				}
			}
			lv := ep.level
			if lv == "" {
				lv = "NOTICE"
			}
			want, _ := levelByName(lv)
			ep.call(context.Background(), tagC01, "ep-id")
			log.Destroy()
			var v []Violation
			items := recStore["r0"]
			exp := 0
			if refParseRange(c.Logger).has(want.code) {
				exp = 1
			}
			if len(items) != exp {
				v = append(v, Violation{Clause: "entry-point-delivery", Key: key, Detail: fmt.Sprintf("%s with logger range %q: %d deliveries, want %d", c.EP, c.Logger, len(items), exp)})
			}
			for _, it := range items {
				if it.Level != want.name || it.Event.Level.Code() != want.code {
					v = append(v, Violation{Clause: "entry-point-level", Key: c.EP, Detail: fmt.Sprintf("%s emitted at %s(%d), want %s(%d)", c.EP, it.Level, it.Event.Level.Code(), want.name, want.code)})
				}
				if it.ID != "ep-id" {
					v = append(v, Violation{Clause: "entry-point-payload", Key: c.EP, Detail: fmt.Sprintf("%s delivered payload %q", c.EP, it.ID)})
				}
			}
			return recSummary(), v, 1
		})
}

type entryPoint struct {
	name  string
	level string // "" = Record (level chosen by the caller)
	call  func(ctx context.Context, tag *log.Tag, id string)
}

func entryPoints() []entryPoint {
	return []entryPoint{
		{"Trace", "TRACE", func(ctx context.Context, t *log.Tag, id string) {
			log.Trace(ctx, t, func() []log.Field { return []log.Field{log.Msg(id)} })
		}},
		{"Tracef", "TRACE", func(ctx context.Context, t *log.Tag, id string) { log.Tracef(ctx, t, "%s", id) }},
		{"Debug", "DEBUG", func(ctx context.Context, t *log.Tag, id string) {
			log.Debug(ctx, t, func() []log.Field { return []log.Field{log.Msg(id)} })
		}},
		{"Debugf", "DEBUG", func(ctx context.Context, t *log.Tag, id string) { log.Debugf(ctx, t, "%s", id) }},
		{"Info", "INFO", func(ctx context.Context, t *log.Tag, id string) { log.Info(ctx, t, log.Msg(id)) }},
		{"Infof", "INFO", func(ctx context.Context, t *log.Tag, id string) { log.Infof(ctx, t, "%s", id) }},
		{"Warn", "WARN", func(ctx context.Context, t *log.Tag, id string) { log.Warn(ctx, t, log.Msg(id)) }},
		{"Warnf", "WARN", func(ctx context.Context, t *log.Tag, id string) { log.Warnf(ctx, t, "%s", id) }},
		{"Error", "ERROR", func(ctx context.Context, t *log.Tag, id string) { log.Error(ctx, t, log.Msg(id)) }},
		{"Errorf", "ERROR", func(ctx context.Context, t *log.Tag, id string) { log.Errorf(ctx, t, "%s", id) }},
		{"Panic", "PANIC", func(ctx context.Context, t *log.Tag, id string) { log.Panic(ctx, t, log.Msg(id)) }},
		{"Panicf", "PANIC", func(ctx context.Context, t *log.Tag, id string) { log.Panicf(ctx, t, "%s", id) }},
		{"Fatal", "FATAL", func(ctx context.Context, t *log.Tag, id string) { log.Fatal(ctx, t, log.Msg(id)) }},
		{"Fatalf", "FATAL", func(ctx context.Context, t *log.Tag, id string) { log.Fatalf(ctx, t, "%s", id) }},
		{"Record", "", func(ctx context.Context, t *log.Tag, id string) { log.Record(ctx, lvNotice, t, 1, log.Msg(id)) }},
	}
}
