package main

import (
	"bytes"
	"context"
	"encoding/json"
	"errors"
	"fmt"
	"math"
	"regexp"
	"strconv"
	"strings"
	"time"
	"unicode/utf8"

	log "github.com/go-spring/log"
)

// ---------------------------------------------------------------------------------------------
// C07 / C08 - the JSON and text layouts.
//
// (a) encoder state machines: every grammatical sequence of encoder calls up to a depth, bytes
//     compared with a reference writer (separator logic);
// (b) every field list of <= 2 (thorough 3) fields over a constructor alphabet that covers every
//     public constructor and every Any dispatch arm, through the real layouts: the JSON line must
//     tokenise (encoding/json, order- and duplicate-preserving) into the expected member sequence
//     and values; the text line must equal the header + key=value pairs derived from the JSON
//     line's own tokens (string-like values unquoted, everything else byte-identical).
// ---------------------------------------------------------------------------------------------

// ---- reference value tree -------------------------------------------------------------------

type rv struct {
	kind   string // str int uint float bool null arr obj raw anystr
	s      string
	f      float64
	b      bool
	elems  []rv
	keys   []string
	unq    bool // text layout prints it without quotes (string-like)
	either bool // a string-valued value that a tree may treat as a string field (unquoted in the text layout) or as a reflected value (the compact JSON, quoted): the statement allows both
	rawTok []string
}

type fieldCase struct {
	name  string
	f     log.Field
	keys  []string // member keys this field contributes (FieldsFromMap contributes several)
	vals  []rv
	heavy bool
}

type arrEnc struct{ f func(log.Encoder) }

func (a arrEnc) EncodeArray(e log.Encoder) { a.f(e) }

type chanStruct struct{ C chan int }

// badMarshal fails to marshal with an error text full of bytes that need escaping.
type badMarshal struct{ text string }

func (b badMarshal) MarshalJSON() ([]byte, error) { return nil, errors.New(b.text) }

// outMarshal is a json.Marshaler whose output is used as given: indented, invalid, truncated or empty
// (encoding/json compacts the first and turns the others into errors).
type outMarshal struct{ out string }

func (o outMarshal) MarshalJSON() ([]byte, error) { return []byte(o.out), nil }

// ptrMarshal implements json.Marshaler on the pointer receiver only.
type ptrMarshal struct{ out string }

func (o *ptrMarshal) MarshalJSON() ([]byte, error) { return []byte(o.out), nil }

// textKey is an encoding.TextMarshaler (used as a value and as a map key).
type textKey struct{ a, b int }

func (t textKey) MarshalText() ([]byte, error) { return []byte(fmt.Sprintf("%d\n%d", t.a, t.b)), nil }

// named scalar types with and without marshalling methods
type (
	colour    int
	masked    string
	weekday   uint8
	yesNo     bool
	percent   float64
	plainID   int64
	plainName string
)

func (c colour) MarshalJSON() ([]byte, error) {
	return []byte(`"` + []string{"red", "amber", "green"}[c%3] + `"`), nil
}
func (m masked) MarshalJSON() ([]byte, error) { return []byte(`"***"`), nil }
func (w weekday) MarshalText() ([]byte, error) {
	return []byte([]string{"sun", "mon", "tue", "wed", "thu", "fri", "sat"}[w%7]), nil
}
func (y yesNo) MarshalJSON() ([]byte, error) {
	if y {
		return []byte(`"yes"`), nil
	}
	return []byte(`"no"`), nil
}
func (p percent) MarshalJSON() ([]byte, error) {
	return []byte(fmt.Sprintf(`"%g%%"`, float64(p)*100)), nil
}

type nilMarshalSlice []int

func (s nilMarshalSlice) MarshalJSON() ([]byte, error) {
	return []byte(fmt.Sprintf(`{"len":%d}`, len(s))), nil
}

type nilMarshalMap map[string]int

func (m nilMarshalMap) MarshalJSON() ([]byte, error) { return []byte(fmt.Sprintf(`[%d]`, len(m))), nil }

type nanStruct struct{ F float64 }
type sample struct {
	A int      `json:"a"`
	B string   `json:"b"`
	C []string `json:"c"`
}

func ptr[T any](v T) *T { return &v }

func str(s string) rv           { return rv{kind: "str", s: string([]rune(s)), unq: true} }
func num(s string) rv           { return rv{kind: "int", s: s} }
func flt(f float64) rv          { return rv{kind: "float", f: f} }
func boolv(b bool) rv           { return rv{kind: "bool", b: b} }
func null() rv                  { return rv{kind: "null"} }
func arr(e ...rv) rv            { return rv{kind: "arr", elems: e} }
func anystr() rv                { return rv{kind: "anystr", unq: true} }
func raw(v any) rv              { b, _ := json.Marshal(v); return rv{kind: "raw", s: string(b)} }
func obj(k []string, v []rv) rv { return rv{kind: "obj", keys: k, elems: v} }

func fltOrStr(f float64) rv {
	if math.IsNaN(f) || math.IsInf(f, 0) {
		return anystr()
	}
	return flt(f)
}

var hostile = []string{"", "a", "k\"q", "new\nline", "tab\t", "\x00\x1f", "\xff\xfe", "é☺", `back\slash`, "a||b=c", "<&>", "a\ufffdb", "\u2028\U0001F600\x7f"}

func fieldAlphabet() []fieldCase {
	var out []fieldCase
	add := func(name string, f log.Field, v rv) {
		out = append(out, fieldCase{name: name, f: f, keys: []string{f.Key}, vals: []rv{v}})
	}
	add("Bool(true)", log.Bool("b", true), boolv(true))
	add("Bool(false)", log.Bool("b", false), boolv(false))
	add("BoolPtr(nil)", log.BoolPtr("bp", nil), null())
	add("BoolPtr(&true)", log.BoolPtr("bp", ptr(true)), boolv(true))
	add("Int(min64)", log.Int("i", int64(math.MinInt64)), num("-9223372036854775808"))
	add("Int(max64)", log.Int("i", int64(math.MaxInt64)), num("9223372036854775807"))
	add("Int(int8 -128)", log.Int("i8", int8(-128)), num("-128"))
	add("Int(int16 max)", log.Int("i16", int16(math.MaxInt16)), num("32767"))
	add("Int(int32 min)", log.Int("i32", int32(math.MinInt32)), num("-2147483648"))
	add("Int(0)", log.Int("i", 0), num("0"))
	add("IntPtr(nil)", log.IntPtr[int]("ip", nil), null())
	add("IntPtr(&-7)", log.IntPtr("ip", ptr(-7)), num("-7"))
	add("Uint(max64)", log.Uint("u", uint64(math.MaxUint64)), num("18446744073709551615"))
	add("Uint(uint8 255)", log.Uint("u8", uint8(255)), num("255"))
	add("Uint(uint32 max)", log.Uint("u32", uint32(math.MaxUint32)), num("4294967295"))
	add("UintPtr(nil)", log.UintPtr[uint]("up", nil), null())
	add("UintPtr(&max)", log.UintPtr("up", ptr(uint64(math.MaxUint64))), num("18446744073709551615"))
	for _, f := range []float64{0, math.Copysign(0, -1), math.SmallestNonzeroFloat64, math.MaxFloat64, 1e21, 1e-7, 0.1, -2.5, math.NaN(), math.Inf(1), math.Inf(-1)} {
		add(fmt.Sprintf("Float(%v)", f), log.Float("f", f), fltOrStr(f))
	}
	add("Float(float32 0.1)", log.Float("f32", float32(0.1)), flt(float64(float32(0.1))))
	add("Float(float32 max)", log.Float("f32", float32(math.MaxFloat32)), flt(float64(float32(math.MaxFloat32))))
	add("FloatPtr(nil)", log.FloatPtr[float64]("fp", nil), null())
	add("FloatPtr(&NaN)", log.FloatPtr("fp", ptr(math.NaN())), anystr())
	for _, s := range hostile {
		add(fmt.Sprintf("String(%q)", s), log.String("s", s), str(s))
	}
	for _, k := range hostile[2:] {
		add(fmt.Sprintf("String(key %q)", k), log.String(k, "v"), str("v"))
	}
	add("StringPtr(nil)", log.StringPtr("sp", nil), null())
	add("StringPtr(&x)", log.StringPtr("sp", ptr("x\ny")), str("x\ny"))
	add("Msg", log.Msg("hello \"w\""), str("hello \"w\""))
	add("Msgf", log.Msgf("%d-%s", 7, "x"), str("7-x"))
	add("Nil", log.Nil("n"), null())
	add("Bools", log.Bools("bs", []bool{true, false}), arr(boolv(true), boolv(false)))
	add("Bools(empty)", log.Bools("bs", nil), arr())
	add("Ints", log.Ints("is", []int{-1, 0, math.MaxInt64}), arr(num("-1"), num("0"), num("9223372036854775807")))
	add("Ints(int8)", log.Ints("is8", []int8{-128, 127}), arr(num("-128"), num("127")))
	add("Uints", log.Uints("us", []uint64{0, math.MaxUint64}), arr(num("0"), num("18446744073709551615")))
	add("Uints(uint8)", log.Uints("us8", []uint8{1, 255}), arr(num("1"), num("255")))
	add("Floats", log.Floats("fs", []float64{0.5, math.NaN(), -1e300}), arr(flt(0.5), anystr(), flt(-1e300)))
	add("Floats(float32)", log.Floats("fs32", []float32{0.1}), arr(flt(float64(float32(0.1)))))
	add("Strings", log.Strings("ss", []string{"a", "q\"", "\xff"}), arr(str("a"), str("q\""), str("\xff")))
	add("Strings(empty)", log.Strings("ss", []string{}), arr())
	add("Reflect(struct)", log.Reflect("r", sample{1, "x<y", []string{"p"}}), raw(sample{1, "x<y", []string{"p"}}))
	add("Reflect(map)", log.Reflect("r", map[string]any{"z": 1, "a": []int{1}}), raw(map[string]any{"z": 1, "a": []int{1}}))
	add("Reflect(string)", log.Reflect("r", "quoted"), raw("quoted"))
	add("Reflect(nil)", log.Reflect("r", nil), null())
	add("Reflect(chan)", log.Reflect("r", chanStruct{}), anystr())
	add("Reflect(NaN struct)", log.Reflect("r", nanStruct{math.NaN()}), anystr())
	add("Reflect(error)", log.Reflect("r", errors.New("boom")), raw(errors.New("boom")))
	add("Reflect(marshal error with hostile text)", log.Reflect("r", badMarshal{"ctl \x01\x7f \xff q\" nl\n \U000e0001"}), anystr())
	// values whose top-level type is harmless but which reach something unmarshallable only for SOME values
	// (through an interface, a non-empty slice, a non-nil pointer), next to good values of the very same type:
	// a verdict remembered per type instead of per value turns the good ones into error strings
	type holder struct {
		A int `json:"a"`
		V any `json:"v"`
	}
	type chanBox struct{ C chan int }
	add("Reflect(map[string]any holding a func)", log.Reflect("r", map[string]any{"cb": func() {}}), anystr())
	add("Reflect(map[string]any good, same type)", log.Reflect("r", map[string]any{"cb": "fine"}), raw(map[string]any{"cb": "fine"}))
	add("Reflect([]any holding a chan)", log.Reflect("r", []any{1, make(chan int)}), anystr())
	add("Reflect([]any good, same type)", log.Reflect("r", []any{1, "two", nil}), raw([]any{1, "two", nil}))
	add("Reflect(struct with an interface field holding a func)", log.Reflect("r", holder{1, func() {}}), anystr())
	add("Reflect(struct with an interface field, good)", log.Reflect("r", holder{2, []int{3}}), raw(holder{2, []int{3}}))
	add("Reflect(non-nil pointer to an unmarshallable struct)", log.Reflect("r", &chanBox{make(chan int)}), anystr())
	add("Reflect(nil pointer of that type)", log.Reflect("r", (*chanBox)(nil)), null())
	add("Any(map[string]any holding a chan)", log.Any("r", map[string]any{"c": make(chan int)}), anystr())
	add("Any(map[string]any good)", log.Any("r", map[string]any{"c": 1}), raw(map[string]any{"c": 1}))
	// nil values of every nilable kind, top level (where a shortcut for "nil means null" goes wrong: encoding/json
	// rejects channels and functions whatever their value, and asks a value-receiver marshaler even for a nil slice / map)
	add("Reflect(nil chan)", log.Reflect("r", (chan int)(nil)), anystr())
	add("Reflect(nil func)", log.Reflect("r", (func())(nil)), anystr())
	add("Any(nil chan)", log.Any("r", (chan string)(nil)), anystr())
	add("Reflect(nil slice with a value-receiver marshaler)", log.Reflect("r", nilMarshalSlice(nil)), raw(nilMarshalSlice(nil)))
	add("Reflect(nil map with a value-receiver marshaler)", log.Reflect("r", nilMarshalMap(nil)), raw(nilMarshalMap(nil)))
	add("Reflect(nil map)", log.Reflect("r", map[string]int(nil)), null())
	add("Reflect(nil slice)", log.Reflect("r", []int(nil)), null())
	add("Reflect(nil pointer)", log.Reflect("r", (*sample)(nil)), null())
	add("Reflect(nil error interface in a struct)", log.Reflect("r", struct{ E error }{nil}), raw(struct{ E error }{nil}))
	// json.Marshaler / TextMarshaler values: whatever the marshaler returns, the line is one valid JSON line
	// (encoding/json's own contract: output validated and compacted, invalid output = marshal error)
	pretty := "{\n  \"a\": 1,\n  \"b\": [ 1,\t2 ],\r\n  \"c\": \"x y\"\n}"
	for _, mk := range []struct {
		name string
		mk   func(v any) log.Field
	}{{"Reflect", func(v any) log.Field { return log.Reflect("r", v) }}, {"Any", func(v any) log.Field { return log.Any("r", v) }}} {
		add(mk.name+"(marshaler: indented output)", mk.mk(outMarshal{pretty}), raw(outMarshal{pretty}))
		add(mk.name+"(marshaler: RawMessage with blanks)", mk.mk(json.RawMessage(" [ 1 , { \"k\" : null } ]\n")), raw(json.RawMessage(" [ 1 , { \"k\" : null } ]\n")))
		add(mk.name+"(marshaler: invalid output)", mk.mk(outMarshal{`{"a":,"n":1}`}), anystr())
		add(mk.name+"(marshaler: truncated output)", mk.mk(outMarshal{`{"a":1`}), anystr())
		add(mk.name+"(marshaler: empty output)", mk.mk(outMarshal{""}), anystr())
		add(mk.name+"(marshaler: two values)", mk.mk(outMarshal{"1 2"}), anystr())
		add(mk.name+"(marshaler: raw line break in a string)", mk.mk(outMarshal{"\"a\nb\""}), anystr())
		add(mk.name+"(marshaler on pointer receiver)", mk.mk(&ptrMarshal{pretty}), raw(&ptrMarshal{pretty}))
		add(mk.name+"(struct holding marshalers)", mk.mk(struct {
			P outMarshal
			Q *ptrMarshal
			R json.RawMessage
		}{outMarshal{pretty}, &ptrMarshal{"[ ]"}, json.RawMessage("{ }")}), raw(struct {
			P outMarshal
			Q *ptrMarshal
			R json.RawMessage
		}{outMarshal{pretty}, &ptrMarshal{"[ ]"}, json.RawMessage("{ }")}))
		add(mk.name+"(TextMarshaler value and map key)", mk.mk(map[textKey]textKey{{1, 2}: {3, 4}}), raw(map[textKey]textKey{{1, 2}: {3, 4}}))
		// NAMED scalar types that say how they want to be written (the kind of a value is not its type)
		add(mk.name+"(named int with MarshalJSON)", mk.mk(colour(2)), raw(colour(2)))
		add(mk.name+"(named string with MarshalJSON)", mk.mk(masked("secret")), raw(masked("secret")))
		add(mk.name+"(named uint8 with MarshalText)", mk.mk(weekday(3)), raw(weekday(3)))
		add(mk.name+"(named bool with MarshalJSON)", mk.mk(yesNo(true)), raw(yesNo(true)))
		add(mk.name+"(named float with MarshalJSON)", mk.mk(percent(0.125)), raw(percent(0.125)))
		add(mk.name+"(json.Number)", mk.mk(json.Number("12.50")), raw(json.Number("12.50")))
		add(mk.name+"(plain named int)", mk.mk(plainID(77)), raw(plainID(77)))
		pn := raw(plainName("n\"q"))
		pn.either = true
		add(mk.name+"(plain named string)", mk.mk(plainName("n\"q")), pn)
	}
	add("String(12 KB, beyond the buffer-reuse cap)", log.String("big", strings.Repeat("x", 12000)), str(strings.Repeat("x", 12000)))
	add("Array(custom)", log.Array("arr", arrEnc{func(e log.Encoder) {
		e.AppendInt64(1)
		e.AppendString("two")
		e.AppendArrayBegin()
		e.AppendBool(true)
		e.AppendArrayEnd()
		e.AppendObjectBegin()
		e.AppendKey("k")
		e.AppendFloat64(1.5)
		e.AppendObjectEnd()
		e.AppendReflect(nil)
	}}), arr(num("1"), str("two"), arr(boolv(true)), obj([]string{"k"}, []rv{flt(1.5)}), null()))
	add("Array(empty custom)", log.Array("arr", arrEnc{func(log.Encoder) {}}), arr())
	add("Object(empty)", log.Object("o"), obj(nil, nil))
	add("Object(flat)", log.Object("o", log.Int("a", 1), log.String("b", "x")), obj([]string{"a", "b"}, []rv{num("1"), str("x")}))
	add("Object(depth4)", log.Object("o", log.Object("p", log.Object("q", log.Object("r", log.Bool("leaf", true)), log.Ints("after", []int{1})), log.Nil("n"))),
		obj([]string{"p"}, []rv{obj([]string{"q", "n"}, []rv{obj([]string{"r", "after"}, []rv{obj([]string{"leaf"}, []rv{boolv(true)}), arr(num("1"))}), null()})}))
	add("Object(dup keys)", log.Object("o", log.Int("k", 1), log.Int("k", 2)), obj([]string{"k", "k"}, []rv{num("1"), num("2")}))
	// Any over the dispatched types
	anyCases := []struct {
		name string
		v    any
		want rv
	}{
		{"nil", nil, null()}, {"bool", true, boolv(true)}, {"*bool(nil)", (*bool)(nil), null()}, {"[]bool", []bool{true}, arr(boolv(true))},
		{"int", -5, num("-5")}, {"*int", ptr(6), num("6")}, {"[]int", []int{1, 2}, arr(num("1"), num("2"))},
		{"int8", int8(-8), num("-8")}, {"*int8(nil)", (*int8)(nil), null()}, {"[]int8", []int8{8}, arr(num("8"))},
		{"int16", int16(-16), num("-16")}, {"*int16", ptr(int16(16)), num("16")}, {"[]int16", []int16{16}, arr(num("16"))},
		{"int32", int32(-32), num("-32")}, {"*int32", ptr(int32(32)), num("32")}, {"[]int32", []int32{32}, arr(num("32"))},
		{"int64", int64(math.MinInt64), num("-9223372036854775808")}, {"*int64", ptr(int64(64)), num("64")}, {"[]int64", []int64{64}, arr(num("64"))},
		{"uint", uint(5), num("5")}, {"*uint", ptr(uint(6)), num("6")}, {"[]uint", []uint{7}, arr(num("7"))},
		{"uint8", uint8(200), num("200")}, {"*uint8(nil)", (*uint8)(nil), null()}, {"[]uint8", []uint8{1, 2}, arr(num("1"), num("2"))},
		{"uint16", uint16(65535), num("65535")}, {"*uint16", ptr(uint16(1)), num("1")}, {"[]uint16", []uint16{2}, arr(num("2"))},
		{"uint32", uint32(1 << 31), num("2147483648")}, {"*uint32", ptr(uint32(3)), num("3")}, {"[]uint32", []uint32{4}, arr(num("4"))},
		{"uint64", uint64(math.MaxUint64), num("18446744073709551615")}, {"*uint64", ptr(uint64(9)), num("9")}, {"[]uint64", []uint64{math.MaxUint64}, arr(num("18446744073709551615"))},
		{"float32", float32(1.25), flt(1.25)}, {"*float32", ptr(float32(0.1)), flt(float64(float32(0.1)))}, {"[]float32", []float32{2.5}, arr(flt(2.5))},
		{"float64", 1e100, flt(1e100)}, {"*float64(nil)", (*float64)(nil), null()}, {"[]float64", []float64{math.Inf(1)}, arr(anystr())},
		{"string", "s\"", str("s\"")}, {"*string", ptr("p"), str("p")}, {"[]string", []string{"x"}, arr(str("x"))},
		{"struct(default arm)", sample{A: 2}, raw(sample{A: 2})}, {"time.Duration(default arm)", time.Second, raw(time.Second)},
		{"[]any(default arm)", []any{1, "a", nil}, raw([]any{1, "a", nil})},
	}
	for _, c := range anyCases {
		add("Any("+c.name+")", log.Any("any", c.v), c.want)
	}
	// FieldsFromMap: expands to several members, sorted by key
	out = append(out, fieldCase{name: "FieldsFromMap", f: log.FieldsFromMap(map[string]any{"zz": 1, "aa": "x", "mm": []string{"q"}, "k\"": nil}),
		keys: []string{"aa", "k\"", "mm", "zz"}, vals: []rv{str("x"), null(), arr(str("q")), num("1")}})
	out = append(out, fieldCase{name: "FieldsFromMap(empty)", f: log.FieldsFromMap(map[string]any{}), keys: nil, vals: nil})
	return out
}

// ---- JSON line -> ordered tokens ------------------------------------------------------------

type member struct {
	key    string
	rawKey string // escaped key text between the quotes
	raw    string // raw JSON bytes of the value
}

// topMembers parses one JSON object preserving order and duplicates, returning raw slices.
func topMembers(line []byte) ([]member, error) {
	dec := json.NewDecoder(bytes.NewReader(line))
	dec.UseNumber()
	t, err := dec.Token()
	if err != nil {
		return nil, err
	}
	if d, ok := t.(json.Delim); !ok || d != '{' {
		return nil, fmt.Errorf("not an object")
	}
	var out []member
	for dec.More() {
		start := dec.InputOffset()
		kt, err := dec.Token()
		if err != nil {
			return nil, err
		}
		k, ok := kt.(string)
		if !ok {
			return nil, fmt.Errorf("key is not a string")
		}
		kraw := bytes.TrimLeft(line[start:dec.InputOffset()], ", \t")
		var rawv json.RawMessage
		if err := dec.Decode(&rawv); err != nil {
			return nil, err
		}
		out = append(out, member{key: k, rawKey: string(kraw[1 : len(kraw)-1]), raw: string(rawv)})
	}
	if _, err := dec.Token(); err != nil {
		return nil, err
	}
	if dec.More() {
		return nil, fmt.Errorf("trailing data")
	}
	if _, err := dec.Token(); err == nil {
		return nil, fmt.Errorf("trailing data after the object")
	}
	return out, nil
}

// matchValue compares raw JSON with the reference value.
func matchValue(rawv string, want rv) string {
	dec := json.NewDecoder(strings.NewReader(rawv))
	dec.UseNumber()
	msg := matchTokens(dec, want)
	if msg == "" {
		if _, err := dec.Token(); err == nil {
			return "trailing tokens"
		}
	}
	return msg
}

func matchTokens(dec *json.Decoder, want rv) string {
	switch want.kind {
	case "raw":
		var got, exp any
		if err := dec.Decode(&got); err != nil {
			return "undecodable: " + err.Error()
		}
		d2 := json.NewDecoder(strings.NewReader(want.s))
		d2.UseNumber()
		d2.Decode(&exp)
		if fmt.Sprintf("%#v", got) != fmt.Sprintf("%#v", exp) {
			return fmt.Sprintf("decodes to %#v, want %#v", got, exp)
		}
		return ""
	case "arr":
		t, err := dec.Token()
		if err != nil || t != json.Delim('[') {
			return fmt.Sprintf("want array, got %v %v", t, err)
		}
		for i, e := range want.elems {
			if !dec.More() {
				return fmt.Sprintf("array has only %d elements", i)
			}
			if m := matchTokens(dec, e); m != "" {
				return fmt.Sprintf("[%d]: %s", i, m)
			}
		}
		if dec.More() {
			return "array has extra elements"
		}
		dec.Token()
		return ""
	case "obj":
		t, err := dec.Token()
		if err != nil || t != json.Delim('{') {
			return fmt.Sprintf("want object, got %v %v", t, err)
		}
		for i, k := range want.keys {
			if !dec.More() {
				return fmt.Sprintf("object has only %d members", i)
			}
			kt, _ := dec.Token()
			if ks, ok := kt.(string); !ok || ks != string([]rune(k)) {
				return fmt.Sprintf("member %d has key %v, want %q", i, kt, k)
			}
			if m := matchTokens(dec, want.elems[i]); m != "" {
				return fmt.Sprintf(".%s: %s", k, m)
			}
		}
		if dec.More() {
			return "object has extra members"
		}
		dec.Token()
		return ""
	}
	t, err := dec.Token()
	if err != nil {
		return "token error: " + err.Error()
	}
	switch want.kind {
	case "str":
		if s, ok := t.(string); !ok || s != want.s {
			return fmt.Sprintf("got %#v, want string %q", t, want.s)
		}
	case "anystr":
		if _, ok := t.(string); !ok {
			return fmt.Sprintf("got %#v, want a JSON string describing the value", t)
		}
	case "int":
		if n, ok := t.(json.Number); !ok || string(n) != want.s {
			return fmt.Sprintf("got %#v, want number %s", t, want.s)
		}
	case "float":
		n, ok := t.(json.Number)
		if !ok {
			return fmt.Sprintf("got %#v, want a number", t)
		}
		f, err := strconv.ParseFloat(string(n), 64)
		if err != nil || math.Float64bits(f) != math.Float64bits(want.f) {
			return fmt.Sprintf("number %s parses to %v (%x), want %v (%x)", n, f, math.Float64bits(f), want.f, math.Float64bits(want.f))
		}
	case "bool":
		if b, ok := t.(bool); !ok || b != want.b {
			return fmt.Sprintf("got %#v, want %v", t, want.b)
		}
	case "null":
		if t != nil {
			return fmt.Sprintf("got %#v, want null", t)
		}
	}
	return ""
}

// ---- the layouts under test -------------------------------------------------------------------

type layoutCase struct {
	Fields []int  `json:"fields"` // indexes into the alphabet
	Ctx    int    `json:"ctx"`    // 0 none, 1 context string, 2 context fields, 3 both
	Names  string `json:"names"`
}

var (
	encAlphabet []fieldCase
	encTime     = time.Date(2025, 6, 1, 9, 8, 7, 6_000_000, time.UTC)
	textHeader  = regexp.MustCompile(`^\[([A-Z]+)\]\[(\d{4}-\d{2}-\d{2}T\d{2}:\d{2}:\d{2}\.\d{3})\]\[([^\]]*)\] ([a-z0-9_]+)\|\|`)
)

// encEvent builds the event of a case. It also returns a "parent" event that is formatted first: its
// context fields and its own fields are shorter prefixes of the SAME backing arrays (a child context
// built as append(parentFields, extra); a caller logging fields[:n-1] and then fields[:n]), so that
// a layout that writes into the spare capacity of the slices it is given corrupts the event under test.
func encEvent(c layoutCase) (*log.Event, []string, []rv, *log.Event) {
	e := &log.Event{Level: log.WarnLevel, Time: encTime, File: "dir/file.go", Line: 42, Tag: "_enc_tag"}
	var keys []string
	var vals []rv
	if c.Ctx&1 != 0 {
		e.CtxString = "ctx-7f"
	}
	if c.Ctx&2 != 0 {
		backing := make([]log.Field, 2, 8)
		backing[0], backing[1] = log.String("trace", "t\"1"), log.Int("span", 9)
		e.CtxFields = backing[:2]
		keys = append(keys, "trace", "span")
		vals = append(vals, str("t\"1"), num("9"))
	}
	// the call's fields likewise live in a longer backing array (a caller passing fields[:n]...)
	e.Fields = make([]log.Field, 0, len(c.Fields)+4)
	for _, i := range c.Fields {
		fc := encAlphabet[i]
		e.Fields = append(e.Fields, fc.f)
		keys = append(keys, fc.keys...)
		vals = append(vals, fc.vals...)
	}
	var parent *log.Event
	if c.Ctx&2 != 0 || len(e.Fields) > 0 {
		p := *e
		if c.Ctx&2 != 0 {
			p.CtxFields = e.CtxFields[:1]
		}
		if len(e.Fields) > 0 {
			p.Fields = e.Fields[:len(e.Fields)-1]
		}
		parent = &p
	}
	return e, keys, vals, parent
}

// encPanicEvent: an event whose custom array encoder panics after opening nested containers, followed by a
// marshaler that panics.
type panicMarshal struct{}

func (panicMarshal) MarshalJSON() ([]byte, error) { panic("user marshaler panics") }

var encPanicEvent = &log.Event{Level: log.ErrorLevel, Time: encTime, File: "p.go", Line: 1, Tag: "_enc_tag", CtxString: "panicking",
	Fields: []log.Field{log.String("before", "x"), log.Array("boom", arrEnc{func(e log.Encoder) {
		e.AppendInt64(1)
		e.AppendObjectBegin()
		e.AppendKey("k")
		e.AppendArrayBegin()
		e.AppendString("inside")
		panic("user array encoder panics")
	}}), log.Reflect("never", panicMarshal{})}}

func encCheck(prop string) func(c layoutCase) (string, []Violation, int) {
	jl := &log.JSONLayout{BaseLayout: log.BaseLayout{FileLineLength: 48}}
	tl := &log.TextLayout{BaseLayout: log.BaseLayout{FileLineLength: 48}}
	return func(c layoutCase) (string, []Violation, int) {
		var names []string
		for _, i := range c.Fields {
			names = append(names, encAlphabet[i].name)
		}
		key := strings.Join(names, " + ")
		if key == "" {
			key = "(no fields)"
		}
		var v []Violation
		fail := func(p, clause, detail string) {
			if p == prop {
				v = append(v, Violation{Clause: clause, Key: key, Detail: detail})
			}
		}
		e, keys, vals, parent := encEvent(c)
		var jline, tline []byte
		var pn any
		// history: an earlier log call whose user-supplied encoding code panicked half-way through a nested value
		// (the application recovered). Whatever the layouts pool or cache must not carry that state into this event.
		for _, l := range []log.Layout{jl, tl} {
			l := l
			safeCall(func() { l.ToBytes(encPanicEvent) })
		}
		func() {
			defer func() { pn = recover() }()
			if parent != nil {
				jl.ToBytes(parent)
				tl.ToBytes(parent)
			}
			jline = jl.ToBytes(e)
			tline = tl.ToBytes(e)
		}()
		if pn != nil {
			fail("C07", "layout-panicked", fmt.Sprint(pn))
			fail("C08", "layout-panicked", fmt.Sprint(pn))
			return "panic", v, 1
		}
		// --- C07
		js := string(jline)
		if !strings.HasSuffix(js, "\n") || strings.Count(js, "\n") != 1 {
			fail("C07", "not-one-line", fmt.Sprintf("JSON layout output is not exactly one line: %q", js))
		}
		ms, err := topMembers(bytes.TrimSuffix(jline, []byte("\n")))
		if err != nil {
			fail("C07", "invalid-json", fmt.Sprintf("%q: %v", js, err))
			fail("C08", "json-reference-unavailable", "the JSON line of the same event is invalid, text tokens cannot be compared")
			return "invalid", v, 1
		}
		head := []string{"level", "time", "fileLine", "tag"}
		headVals := []string{`"warn"`, `"2025-06-01T09:08:07.006"`, `"dir/file.go:42"`, `"_enc_tag"`}
		if c.Ctx&1 != 0 {
			head = append(head, "ctxString")
			headVals = append(headVals, `"ctx-7f"`)
		}
		if len(ms) != len(head)+len(keys) {
			fail("C07", "member-count", fmt.Sprintf("%d members, want %d: %s", len(ms), len(head)+len(keys), js))
			return js, v, 1
		}
		for i, h := range head {
			if ms[i].key != h || ms[i].raw != headVals[i] {
				fail("C07", "header-member", fmt.Sprintf("member %d is %q:%s, want %q:%s", i, ms[i].key, ms[i].raw, h, headVals[i]))
			}
		}
		body := ms[len(head):]
		for i, k := range keys {
			if body[i].key != string([]rune(k)) {
				fail("C07", "member-order-or-key", fmt.Sprintf("member %d has key %q, want %q (line %s)", i, body[i].key, k, js))
				continue
			}
			if m := matchValue(body[i].raw, vals[i]); m != "" {
				fail("C07", "value-mismatch", fmt.Sprintf("member %q = %s: %s", k, body[i].raw, m))
			}
		}
		// --- C08: text line derived from the JSON line's own tokens
		ts := string(tline)
		if !strings.HasSuffix(ts, "\n") || strings.Count(ts, "\n") != 1 {
			fail("C08", "not-one-line", fmt.Sprintf("text layout output is not exactly one line: %q", ts))
		}
		for i := 0; i < len(ts)-1; i++ {
			if ts[i] < 0x20 {
				fail("C08", "raw-control-byte", fmt.Sprintf("text line contains raw control byte %#x: %q", ts[i], ts))
				break
			}
		}
		// (values marked `either` may be printed quoted or unquoted: every combination is an accepted line)
		var eitherIdx []int
		for i := range keys {
			if vals[i].either && strings.HasPrefix(body[i].raw, `"`) {
				eitherIdx = append(eitherIdx, i)
			}
		}
		lineFor := func(mask int) string {
			var toks []string
			if c.Ctx&1 != 0 {
				toks = append(toks, "ctx-7f")
			}
			for i := range keys {
				val := body[i].raw
				strip := vals[i].unq
				for b, ei := range eitherIdx {
					if ei == i {
						strip = mask&(1<<b) != 0
					}
				}
				if strip && strings.HasPrefix(val, `"`) {
					val = val[1 : len(val)-1]
				}
				toks = append(toks, body[i].rawKey+"="+val)
			}
			return "[WARN][2025-06-01T09:08:07.006][dir/file.go:42] _enc_tag||" + strings.Join(toks, "||") + "\n"
		}
		want := lineFor(0)
		alt := want
		if c.Ctx&1 != 0 && len(keys) == 0 {
			alt = "[WARN][2025-06-01T09:08:07.006][dir/file.go:42] _enc_tag||ctx-7f||\n" // tolerated: separator after the context string
		}
		for mask := 1; mask < 1<<len(eitherIdx); mask++ {
			if ts == lineFor(mask) {
				alt = ts
			}
		}
		if ts != want && ts != alt {
			fail("C08", "text-differs-from-json-tokens", fmt.Sprintf("text line %q, expected from the JSON tokens %q", ts, want))
		}
		return js + ts, v, 2
	}
}

func encEnum(tier string, yield func(layoutCase)) {
	n := len(encAlphabet)
	yield(layoutCase{Ctx: 0})
	yield(layoutCase{Ctx: 1})
	yield(layoutCase{Ctx: 3})
	for i := 0; i < n; i++ {
		for ctx := 0; ctx < 4; ctx++ {
			yield(layoutCase{Fields: []int{i}, Ctx: ctx})
		}
	}
	for i := 0; i < n; i++ {
		for j := 0; j < n; j++ {
			yield(layoutCase{Fields: []int{i, j}, Ctx: (i + j) % 4})
		}
	}
	if tier == "thorough" {
		for i := 0; i < n; i++ {
			for j := 0; j < n; j++ {
				for k := 0; k < n; k++ {
					yield(layoutCase{Fields: []int{i, j, k}, Ctx: (i + k) % 4})
				}
			}
		}
	}
}

// ---- (a) encoder state machines ----------------------------------------------------------------

// opSeq enumerates grammatical call sequences; ctx is the container stack ('o' object expecting a
// key, 'v' object expecting a value, 'a' array).
func encOpSeqs(depth int, yield func(ops []string)) {
	var rec func(ops []string, stack []byte)
	rec = func(ops []string, stack []byte) {
		if len(stack) == 0 && len(ops) > 0 {
			yield(ops)
			return
		}
		if len(ops) >= depth {
			return
		}
		top := byte('t')
		if len(stack) > 0 {
			top = stack[len(stack)-1]
		}
		push := func(op string, st []byte) { rec(append(append([]string{}, ops...), op), st) }
		repl := func(b byte) []byte { s := append([]byte{}, stack...); s[len(s)-1] = b; return s }
		switch top {
		case 't': // top level of the text encoder / start
			push("{", []byte{'o'})
		case 'o':
			push("k", repl('v'))
			push("}", stack[:len(stack)-1])
		case 'v':
			for _, sc := range []string{"i", "s", "b", "f", "u", "r"} {
				push(sc, repl('o'))
			}
			push("{", append(repl('o'), 'o'))
			push("[", append(repl('o'), 'a'))
		case 'a':
			for _, sc := range []string{"i", "s"} {
				push(sc, stack)
			}
			push("{", append(append([]byte{}, stack...), 'o'))
			push("[", append(append([]byte{}, stack...), 'a'))
			push("]", stack[:len(stack)-1])
		}
	}
	rec(nil, nil)
}

func applyOps(enc log.Encoder, ops []string, base int) {
	for j, op := range ops {
		i := j + base
		switch op {
		case "{":
			enc.AppendObjectBegin()
		case "}":
			enc.AppendObjectEnd()
		case "[":
			enc.AppendArrayBegin()
		case "]":
			enc.AppendArrayEnd()
		case "k":
			enc.AppendKey("k" + strconv.Itoa(i))
		case "i":
			enc.AppendInt64(-int64(i))
		case "u":
			enc.AppendUint64(uint64(i))
		case "s":
			enc.AppendString("s" + strconv.Itoa(i))
		case "b":
			enc.AppendBool(i%2 == 0)
		case "f":
			enc.AppendFloat64(float64(i) + 0.5)
		case "r":
			enc.AppendReflect(map[string]int{"m": i})
		}
	}
}

// refJSON writes the same call sequence with RFC 8259 separators.
func refJSON(ops []string) string {
	var sb strings.Builder
	needComma := []bool{false}
	val := func(s string) {
		if needComma[len(needComma)-1] {
			sb.WriteByte(',')
		}
		sb.WriteString(s)
		needComma[len(needComma)-1] = true
	}
	for i, op := range ops {
		switch op {
		case "{", "[":
			val(op)
			needComma[len(needComma)-1] = true
			needComma = append(needComma, false)
		case "}", "]":
			sb.WriteString(op)
			needComma = needComma[:len(needComma)-1]
		case "k":
			if needComma[len(needComma)-1] {
				sb.WriteByte(',')
			}
			fmt.Fprintf(&sb, `"k%d":`, i)
			needComma[len(needComma)-1] = false
		case "i":
			val(strconv.Itoa(-i))
		case "u":
			val(strconv.Itoa(i))
		case "s":
			val(`"s` + strconv.Itoa(i) + `"`)
		case "b":
			val(strconv.FormatBool(i%2 == 0))
		case "f":
			val(strconv.FormatFloat(float64(i)+0.5, 'f', -1, 64))
		case "r":
			val(fmt.Sprintf(`{"m":%d}`, i))
		}
	}
	return sb.String()
}

func init() {
	encAlphabet = fieldAlphabet()
	for _, prop := range []string{"C07", "C08"} {
		prop := prop
		definePart(prop, strings.ToLower(prop)+"/field-lists", "qt",
			fmt.Sprintf("every field list of <= 2 (thorough 3) fields over %d constructor cases x context string/fields", len(encAlphabet)),
			encEnum, encCheck(prop))
		definePart(prop, strings.ToLower(prop)+"/encoder-call-sequences", "qt", "every grammatical encoder call sequence of <= 9 (thorough 11) calls: one object, and the same members at the top level of the text encoder",
			func(tier string, yield func([]string)) {
				d := 9
				if tier == "thorough" {
					d = 11
				}
				encOpSeqs(d, yield)
			},
			func(ops []string) (string, []Violation, int) {
				key := strings.Join(ops, "")
				var v []Violation
				if prop == "C07" {
					b := &bytes.Buffer{}
					enc := log.NewJSONEncoder(b)
					applyOps(enc, ops, 0)
					if want := refJSON(ops); b.String() != want {
						v = append(v, Violation{Clause: "json-separators", Key: key, Detail: fmt.Sprintf("calls %s wrote %q, reference writer %q", key, b.String(), want)})
					} else if !json.Valid(b.Bytes()) {
						v = append(v, Violation{Clause: "json-separators", Key: key, Detail: fmt.Sprintf("calls %s wrote invalid JSON %q", key, b.String())})
					}
					return b.String(), v, len(ops)
				}
				// C08: the members of the outer object written at the top level of a text encoder, twice
				// in a row (the embedded JSON encoder must be reset between top-level values)
				inner := ops[1 : len(ops)-1]
				b := &bytes.Buffer{}
				enc := log.NewTextEncoder(b, "||")
				enc.AppendEncoderBegin()
				applyOps(enc, inner, 1)
				applyOps(enc, inner, 1)
				enc.AppendEncoderEnd()
				// reference: split the JSON rendering of the object into members
				full := refJSON(ops)
				ms, err := topMembers([]byte(full))
				if err != nil {
					return "", []Violation{{Clause: "harness", Key: key, Detail: "reference JSON invalid: " + full}}, len(ops)
				}
				var toks []string
				for _, m := range ms {
					val := m.raw
					if strings.HasPrefix(val, `"s`) {
						val = val[1 : len(val)-1]
					}
					toks = append(toks, m.rawKey+"="+val)
				}
				want := strings.Join(append(toks, toks...), "||")
				if b.String() != want {
					v = append(v, Violation{Clause: "text-encoder-sequence", Key: key, Detail: fmt.Sprintf("text encoder wrote %q, want %q", b.String(), want)})
				}
				return b.String(), v, 2 * len(ops)
			})
	}
	// C08: header fields - levels, timestamps in several zones, file:line lengths x widths
	type hdrCase struct {
		Level string `json:"level"`
		Zone  int    `json:"zone"`
		Inst  int    `json:"inst"`
		FLen  int    `json:"flen"`
		Width int    `json:"width"`
		Wide  bool   `json:"non_ascii_path,omitempty"` // the path holds 2-, 3- and 4-byte characters: the cut is by BYTES
	}
	zones := []*time.Location{time.UTC, time.FixedZone("NPT", 5*3600+45*60), time.FixedZone("PST", -8*3600), time.FixedZone("X", 14*3600)}
	insts := []time.Time{time.Date(2025, 1, 1, 0, 0, 0, 0, time.UTC), time.Date(1999, 12, 31, 23, 59, 59, 999_999_999, time.UTC), time.Date(2024, 2, 29, 12, 0, 0, 1_000_000, time.UTC),
		time.Date(2025, 3, 30, 1, 59, 59, 500_000_000, time.UTC), time.Date(9999, 12, 31, 23, 59, 59, 0, time.UTC), time.Unix(0, 0)}
	levels := map[string]log.Level{"TRACE": log.TraceLevel, "DEBUG": log.DebugLevel, "INFO": log.InfoLevel, "WARN": log.WarnLevel, "ERROR": log.ErrorLevel, "PANIC": log.PanicLevel, "FATAL": log.FatalLevel, "NONE": log.NoneLevel}
	widths := []int{-5, -4, -3, -2, -1, 0, 1, 2, 3, 4, 5, 6, 7, 8, 9, 10, 11, 12, 47, 48, 49, 200}
	definePart("C08", "c08/header-and-widths", "qt", "8 levels x 6 instants x 4 zones; file:line lengths 2..60 x widths -5..12,47,48,49,200 for both layouts",
		func(tier string, yield func(hdrCase)) {
			for _, l := range []string{"DEBUG", "ERROR", "FATAL", "INFO", "NONE", "PANIC", "TRACE", "WARN"} {
				for z := range zones {
					for i := range insts {
						yield(hdrCase{Level: l, Zone: z, Inst: i, FLen: 10, Width: 48})
					}
				}
			}
			for fl := 0; fl <= 60; fl++ {
				for _, w := range widths {
					yield(hdrCase{Level: "INFO", FLen: fl, Width: w})
					yield(hdrCase{Level: "INFO", FLen: fl, Width: w, Wide: true})
				}
			}
		},
		func(c hdrCase) (string, []Violation, int) {
			key := fmt.Sprintf("width=%d file:line length=%d", c.Width, c.FLen+2)
			file := strings.Repeat("p", c.FLen)
			if c.Wide {
				file = strings.Repeat("/d\u00e9v/\u674e\u96f7/\U0001F600x", 8)[:c.FLen] // (may itself end inside a character: a path is bytes)
				key += " (non-ASCII path)"
			}
			ts := insts[c.Inst].In(zones[c.Zone])
			e := &log.Event{Level: levels[c.Level], Time: ts, File: file, Line: 7, Tag: "_hdr", Fields: []log.Field{log.Int("n", 1)}}
			fl := file + ":7"
			wantFL := fl
			if len(fl) > c.Width {
				k := c.Width - 3
				if k < 0 {
					k = 0
				}
				wantFL = "..." + fl[len(fl)-k:]
			}
			var v []Violation
			for _, lay := range []struct {
				name string
				l    log.Layout
			}{{"text", &log.TextLayout{BaseLayout: log.BaseLayout{FileLineLength: c.Width}}}, {"json", &log.JSONLayout{BaseLayout: log.BaseLayout{FileLineLength: c.Width}}}} {
				var out []byte
				var pn any
				func() {
					defer func() { pn = recover() }()
					out = lay.l.ToBytes(e)
				}()
				if pn != nil {
					v = append(v, Violation{Clause: "width-makes-log-call-fail", Key: key, Detail: fmt.Sprintf("%s layout with fileLineLength=%d panicked on a %d-byte file:line: %v", lay.name, c.Width, len(fl), pn)})
					continue
				}
				var want string
				if lay.name == "text" {
					want = fmt.Sprintf("[%s][%s][%s] _hdr||n=1\n", c.Level, ts.Format("2006-01-02T15:04:05.000"), wantFL)
				} else {
					want = fmt.Sprintf(`{"level":"%s","time":"%s","fileLine":"%s","tag":"_hdr","n":1}`+"\n", strings.ToLower(c.Level), ts.Format("2006-01-02T15:04:05.000"), wantFL)
				}
				if c.Wide && lay.name == "json" {
					// the JSON layout escapes the member: compare what it decodes to (invalid bytes as U+FFFD, one per byte)
					var m map[string]any
					if err := json.Unmarshal(out, &m); err != nil {
						v = append(v, Violation{Clause: "header", Key: key, Detail: fmt.Sprintf("json layout wrote %q: %v", out, err)})
					} else if got, _ := m["fileLine"].(string); got != replaceInvalid(wantFL) {
						v = append(v, Violation{Clause: "header", Key: key, Detail: fmt.Sprintf("json layout: fileLine decodes to %q, want %q ('...' plus the last max(W-3,0) BYTES)", got, replaceInvalid(wantFL))})
					}
					continue
				}
				if string(out) != want {
					v = append(v, Violation{Clause: "header", Key: key + " level=" + c.Level, Detail: fmt.Sprintf("%s layout wrote %q, want %q", lay.name, out, want)})
				}
			}
			return wantFL + c.Level, v, 2
		})
	_ = context.Background
}

// replaceInvalid: s with each invalid UTF-8 byte replaced by one U+FFFD.
func replaceInvalid(s string) string {
	var b strings.Builder
	for i := 0; i < len(s); {
		r, n := utf8.DecodeRuneInString(s[i:])
		if r == utf8.RuneError && n == 1 {
			b.WriteRune(0xFFFD)
		} else {
			b.WriteString(s[i : i+n])
		}
		i += n
	}
	return b.String()
}

// ---------------------------------------------------------------------------------------------
// C07 / C09 - the header members of the JSON layout are string values like any other: a user-registered
// level name, a source path, a tag and a context string made of hostile bytes (quote, backslash, control
// characters, DEL, invalid UTF-8, line/paragraph separators) still give ONE valid object that decodes to
// those strings (invalid bytes as U+FFFD). Every hostile string in every header position.
// ---------------------------------------------------------------------------------------------

type hostileHdrCase struct {
	Pos int `json:"position"` // 0 level name, 1 file, 2 tag, 3 context string
	Str int `json:"string"`
}

var hostileStrings = []string{`AUDIT"X`, `TRAILING\`, "TWO\nLINES", "BELL\aTAB\t", "\x00NUL", "DEL\x7f", "BAD\xff\xfeUTF", "CUT\xe2\x82", "SEP  ", `"},"tag":"forged`, `A`, "\\\"", "</script>&", "ÀÉÎ-upper"}

func init() {
	for _, prop := range []string{"C07", "C09"} {
		definePart(prop, strings.ToLower(prop)+"/hostile-header-strings", "qt", fmt.Sprintf("%d hostile strings x 4 header positions (user-registered level name, source path, tag, context string) through the JSON layout", len(hostileStrings)),
			func(tier string, yield func(hostileHdrCase)) {
				for p := 0; p < 4; p++ {
					for s := range hostileStrings {
						yield(hostileHdrCase{p, s})
					}
				}
			},
			func(c hostileHdrCase) (string, []Violation, int) {
				h := hostileStrings[c.Str]
				e := &log.Event{Level: log.WarnLevel, Time: encTime, File: "dir/file.go", Line: 42, Tag: "_enc_tag", CtxString: "ctx", Fields: []log.Field{log.Int("n", 1)}}
				want := map[string]string{"level": "warn", "fileLine": "dir/file.go:42", "tag": "_enc_tag", "ctxString": "ctx"}
				switch c.Pos {
				case 0:
					e.Level = log.RegisterLevel(int32(450+c.Str), h)
					want["level"] = replaceInvalid(strings.ToLower(e.Level.Name()))
				case 1:
					e.File = h
					want["fileLine"] = replaceInvalid(h + ":42")
				case 2:
					e.Tag = h
					want["tag"] = replaceInvalid(h)
				case 3:
					e.CtxString = h
					want["ctxString"] = replaceInvalid(h)
				}
				key := fmt.Sprintf("%s = %q", []string{"level name", "file", "tag", "context string"}[c.Pos], h)
				var out []byte
				if pn := safeCall(func() { out = (&log.JSONLayout{BaseLayout: log.BaseLayout{FileLineLength: 200}}).ToBytes(e) }); pn != nil {
					return "panic", []Violation{{Clause: "layout-panicked", Key: key, Detail: fmt.Sprint(pn)}}, 1
				}
				var v []Violation
				if !bytes.HasSuffix(out, []byte("\n")) || bytes.Count(out, []byte("\n")) != 1 {
					v = append(v, Violation{Clause: "one-line", Key: key, Detail: fmt.Sprintf("the JSON layout wrote %q", out)})
				}
				for _, b := range bytes.TrimSuffix(out, []byte("\n")) {
					if b < 0x20 {
						v = append(v, Violation{Clause: "raw-control-byte", Key: key, Detail: fmt.Sprintf("the line holds the raw byte %#02x: %q", b, out)})
						break
					}
				}
				if !utf8.Valid(out) {
					v = append(v, Violation{Clause: "output-not-utf8", Key: key, Detail: fmt.Sprintf("%q", out)})
				}
				var m map[string]any
				if err := json.Unmarshal(out, &m); err != nil {
					v = append(v, Violation{Clause: "invalid-json", Key: key, Detail: fmt.Sprintf("%q: %v", out, err)})
					return "invalid", v, 1
				}
				for k, w := range want {
					if got, _ := m[k].(string); got != w {
						v = append(v, Violation{Clause: "value-mismatch", Key: key, Detail: fmt.Sprintf("member %q decodes to %q, want %q (line %q)", k, got, w, out)})
					}
				}
				if len(m) != 6 { // level time fileLine tag ctxString n
					v = append(v, Violation{Clause: "value-mismatch", Key: key, Detail: fmt.Sprintf("the object has %d members, want 6: %q", len(m), out)})
				}
				return string(out), v, 1
			})
	}
}
