// Command enum is the enumeration harness: bounded-exhaustive enumeration of configurations,
// inputs and operation sequences against reference models, on the uninstrumented package (plus a
// few in-package accessors added by overlay).
package main

import (
	"encoding/json"
	"flag"
	"fmt"
	"hash/fnv"
	"os"
	"strings"
	"sync"
	"time"

	log "github.com/go-spring/log"
)

// Violation is one oracle failure.
type Violation struct {
	Clause string `json:"clause"`
	Key    string `json:"key"`
	Detail string `json:"detail"`
}

// Found is a violation with the case that produced it.
type Found struct {
	Viol   Violation       `json:"violation"`
	Part   string          `json:"part"`
	Replay json.RawMessage `json:"replay"`
}

// Part is what one enumeration covered (one entry of the shard output).
type Part struct {
	Scenario    string              `json:"scenario"`
	Bounds      string              `json:"bounds"`
	Executions  int64               `json:"executions"`  // cases evaluated
	States      int64               `json:"states"`      // distinct cases / states
	Transitions int64               `json:"transitions"` // (case, event) evaluations / model steps
	DistinctObs int                 `json:"distinct_obs"`
	ObsHashes   []uint64            `json:"obs_hashes,omitempty"`
	Capped      bool                `json:"capped"`
	Found       []Found             `json:"found,omitempty"`
	Samples     []any               `json:"samples,omitempty"`
	Extra       map[string]any      `json:"extra,omitempty"`
	obs         map[uint64]struct{} `json:"-"`
	seen        map[string]bool     `json:"-"`
}

func (p *Part) addObs(s string) {
	if p.obs == nil {
		p.obs = map[uint64]struct{}{}
	}
	if len(p.obs) < 1<<20 {
		h := fnv.New64a()
		h.Write([]byte(s))
		p.obs[h.Sum64()] = struct{}{}
	}
}

func (p *Part) fail(v Violation, replay any) {
	if p.seen == nil {
		p.seen = map[string]bool{}
	}
	k := v.Clause + "|" + v.Key
	if p.seen[k] || len(p.Found) >= 40 {
		return
	}
	p.seen[k] = true
	raw, _ := json.Marshal(replay)
	p.Found = append(p.Found, Found{Viol: v, Part: p.Scenario, Replay: raw})
}

func (p *Part) finish() {
	p.DistinctObs = len(p.obs)
	if len(p.obs) <= 4096 {
		for h := range p.obs {
			p.ObsHashes = append(p.ObsHashes, h)
		}
	}
}

// runCtx is what a part's runner gets.
type runCtx struct {
	tier     string
	shard    int
	nshards  int
	deadline time.Time
	n        int64 // case counter (all shards count the same cases)
}

// mine reports whether the next case belongs to this shard.
func (r *runCtx) mine() bool {
	i := r.n
	r.n++
	return int(i%int64(r.nshards)) == r.shard
}

func (r *runCtx) expired() bool { return !r.deadline.IsZero() && time.Now().After(r.deadline) }

type partDef struct {
	prop, name, tiers string
	run               func(r *runCtx, p *Part)
	replay            func(raw json.RawMessage) []Violation
}

var parts []partDef

// Watchdog: a case that does not finish within a very generous limit means that a call of the
// library blocked or spun forever (no recover() can catch that). The watchdog then records the
// violation for the running case, writes the shard result and ends the shard.
var (
	wdMu     sync.Mutex
	wdArmed  time.Time
	wdPart   *Part
	wdName   string
	wdCase   any
	wdFinish func()
)

const wdLimit = 90 * time.Second

func arm(p *Part, name string, c any) {
	wdMu.Lock()
	wdArmed, wdPart, wdName, wdCase = time.Now(), p, name, c
	wdMu.Unlock()
}

func disarm() {
	wdMu.Lock()
	wdArmed = time.Time{}
	wdMu.Unlock()
}

func watchdog() {
	for {
		time.Sleep(2 * time.Second)
		wdMu.Lock()
		if !wdArmed.IsZero() && time.Since(wdArmed) > wdLimit {
			raw, _ := json.Marshal(wdCase)
			wdPart.fail(Violation{Clause: "call-blocked", Key: trunc(string(raw), 200),
				Detail: fmt.Sprintf("case %s of %s did not finish within %v: a library call blocked or spun forever", trunc(string(raw), 300), wdName, wdLimit)}, wdCase)
			wdPart.Capped = true
			wdFinish()
			os.Exit(0)
		}
		wdMu.Unlock()
	}
}

// atExit functions run after a shard has written its result (temporary directories etc.).
var atExit []func()

// definePart registers an enumeration: enum yields every case of the bounded space, check is the
// oracle for one case (returns an observation, the violations and the number of transitions).
// historyPass: parts whose shards, after their own slice of the enumeration, run the FIRST n cases of
// the whole enumeration once more, in reverse order - whoever owns them. Enumerations are ordered
// simplest-first, so these are the small, closely related inputs; every shard process then evaluates
// all of them after everything else it has done. A verdict that depends on what the process evaluated
// before (memoised results, pooled objects, caches keyed too coarsely) shows up here even when the
// related inputs belong to different shards.
var historyPass = map[string]int{
	"c01/range-language": 3000, "c01/reference-chaining": 1500, "c01/entry-points": 1000,
	"c02/tag-routing": 1000,
	"c07/field-lists": 3000, "c07/encoder-call-sequences": 3000, "c08/field-lists": 3000, "c08/encoder-call-sequences": 3000, "c08/header-and-widths": 2000,
	"c10/hooks-product": 1000, "c11/call-sites": 448,
	"c12/write-sequences": 1000, "c12/handle-histories": 300,
	"c15/deviations": 400, "c15/totality": 400,
	"c16/lifecycle-sequences": 3000,
	"c17/token-sequences":     5000, "c17/colliding-assignments": 2000, "c17/byte-strings": 5000,
}

func definePart[C any](prop, name, tiers, bounds string, enum func(tier string, yield func(C)), check func(C) (string, []Violation, int)) {
	parts = append(parts, partDef{prop: prop, name: name, tiers: tiers,
		run: func(r *runCtx, p *Part) {
			p.Bounds = bounds
			k := 0
			nHist := historyPass[name]
			var first []C
			runCase := func(c C, sample bool) {
				t1 := time.Now()
				arm(p, name, c)
				obs, vs, tr := check(c)
				disarm()
				if d := time.Since(t1); d > 2*time.Second {
					fmt.Fprintf(os.Stderr, "enum: slow case in %s (%.1fs): %s\n", name, d.Seconds(), trunc(fmt.Sprint(c), 80))
				}
				p.Executions++
				p.States++
				p.Transitions += int64(tr)
				p.addObs(obs)
				if sample && len(p.Samples) < 2 && (p.Executions == 1 || p.Executions == 1000) {
					p.Samples = append(p.Samples, map[string]any{"part": name, "case": c, "observation": trunc(obs, 300)})
				}
				for _, v := range vs {
					p.fail(v, c)
				}
			}
			enum(r.tier, func(c C) {
				if len(first) < nHist {
					first = append(first, c)
				}
				if !r.mine() || p.Capped {
					return
				}
				if k++; k%256 == 0 && r.expired() {
					p.Capped = true
					return
				}
				runCase(c, true)
			})
			if nHist > 0 && !p.Capped {
				p.Bounds += fmt.Sprintf("; history pass: in every shard process the first %d cases of the enumeration once more, in reverse order, after the shard's own slice", len(first))
				for i := len(first) - 1; i >= 0; i-- {
					if i%256 == 0 && r.expired() {
						p.Capped = true
						break
					}
					runCase(first[i], false)
				}
			}
		},
		replay: func(raw json.RawMessage) []Violation {
			var c C
			if err := json.Unmarshal(raw, &c); err != nil {
				fmt.Fprintln(os.Stderr, "bad case:", err)
				os.Exit(2)
			}
			obs, vs, _ := check(c)
			fmt.Printf("case: %s\nobservation: %s\n", raw, obs)
			return vs
		}})
}

func trunc(s string, n int) string {
	if len(s) > n {
		return s[:n] + "..."
	}
	return s
}

type shardOut struct {
	Property  string  `json:"property"`
	Tier      string  `json:"tier"`
	Shard     int     `json:"shard"`
	NShards   int     `json:"nshards"`
	Scenarios []*Part `json:"scenarios"`
	WallS     float64 `json:"wall_s"`
}

func main() {
	if len(os.Args) < 2 {
		fmt.Fprintln(os.Stderr, "usage: enum run|replay|list ...")
		os.Exit(2)
	}
	switch os.Args[1] {
	case "c17child":
		c17Child()
	case "c20child":
		c20Child(os.Args[2:])
	case "list":
		for _, p := range parts {
			fmt.Println(p.prop, p.name, p.tiers)
		}
	case "run":
		fs := flag.NewFlagSet("run", flag.ExitOnError)
		prop := fs.String("prop", "", "property id")
		tier := fs.String("tier", "quick", "quick|thorough")
		shard := fs.String("shard", "0/1", "i/n")
		out := fs.String("out", "", "output json")
		only := fs.String("scenario", "", "only parts whose name contains this")
		deadline := fs.Int("deadline", 0, "seconds")
		_ = fs.Int("seed", 0, "unused: every enumeration is complete and ordered")
		fs.Parse(os.Args[2:])
		var si, sn int
		fmt.Sscanf(*shard, "%d/%d", &si, &sn)
		if sn == 0 {
			sn = 1
		}
		t0 := time.Now()
		res := shardOut{Property: *prop, Tier: *tier, Shard: si, NShards: sn}
		write := func() {
			for _, f := range atExit {
				f()
			}
			res.WallS = time.Since(t0).Seconds()
			b, _ := json.Marshal(res)
			if *out == "" {
				os.Stdout.Write(b)
				fmt.Println()
			} else if err := os.WriteFile(*out, b, 0644); err != nil {
				fmt.Fprintln(os.Stderr, err)
				os.Exit(2)
			}
		}
		log.VerifResetGlobals() // first call: deep snapshot of the package state at process start (after the harness's own registrations)
		go watchdog()
		for _, pd := range parts {
			if pd.prop != *prop || (*tier == "quick" && !strings.Contains(pd.tiers, "q")) {
				continue
			}
			if *only != "" && !strings.Contains(pd.name, *only) {
				continue
			}
			r := &runCtx{tier: *tier, shard: si, nshards: sn}
			if *deadline > 0 {
				r.deadline = t0.Add(time.Duration(*deadline) * time.Second)
			}
			p := &Part{Scenario: pd.name}
			res.Scenarios = append(res.Scenarios, p)
			wdFinish = func() { p.finish(); write() }
			pd.run(r, p)
			p.finish()
		}
		write()
	case "replay":
		fs := flag.NewFlagSet("replay", flag.ExitOnError)
		part := fs.String("part", "", "part name")
		cs := fs.String("case", "", "case json")
		fs.Parse(os.Args[2:])
		log.VerifResetGlobals()
		for _, pd := range parts {
			if pd.name == *part {
				if pd.replay == nil {
					fmt.Fprintln(os.Stderr, "part has no replayer")
					os.Exit(2)
				}
				vs := pd.replay(json.RawMessage(*cs))
				for _, v := range vs {
					fmt.Printf("VIOLATED clause=%s key=%s: %s\n", v.Clause, v.Key, v.Detail)
				}
				if len(vs) > 0 {
					os.Exit(1)
				}
				fmt.Println("no violation")
				return
			}
		}
		fmt.Fprintln(os.Stderr, "unknown part", *part)
		os.Exit(2)
	}
}
