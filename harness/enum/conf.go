package main

import (
	"bytes"
	"context"
	"fmt"
	"sort"
	"strings"
	"sync"
	"time"

	log "github.com/go-spring/log"
	"github.com/go-spring/log/expr"
)

// ---------------------------------------------------------------------------------------------
// Shared pieces of the Refresh-driven enumerations (C01, C02, C10, C12, C15, C16): a recording
// appender plugin registered through the public registry, a capture of the console stream, reset.
// ---------------------------------------------------------------------------------------------

// RecAppender records every event / raw write it receives, keyed by the appender's configured name.
type RecAppender struct {
	log.AppenderBase
	Extra string `PluginAttribute:"extra,default=dflt"`
}

type recItem struct {
	Kind  string // "E" event, "W" raw write
	ID    string
	Level string
	Event log.Event
}

var (
	recMu    sync.Mutex // async workers deliver from their own goroutine
	recStore = map[string][]recItem{}
)

func (a *RecAppender) Start() error {
	recMu.Lock()
	recStarted[a.Name]++
	recMu.Unlock()
	return nil
}
func (a *RecAppender) Stop() {
	recMu.Lock()
	recStopped[a.Name]++
	recMu.Unlock()
}
func (a *RecAppender) Append(e *log.Event) {
	it := recItem{Kind: "E", Level: e.Level.Name(), Event: *e}
	it.Event.Fields = append([]log.Field(nil), e.Fields...)
	it.Event.CtxFields = append([]log.Field(nil), e.CtxFields...)
	it.ID = eventID(e)
	recMu.Lock()
	recStore[a.Name] = append(recStore[a.Name], it)
	recMu.Unlock()
}
func (a *RecAppender) Write(b []byte) {
	recMu.Lock()
	recStore[a.Name] = append(recStore[a.Name], recItem{Kind: "W", ID: string(b)})
	recMu.Unlock()
}

var (
	recStarted = map[string]int{}
	recStopped = map[string]int{}
)

// eventID extracts the "id" carried by the first string field named msg/id.
func eventID(e *log.Event) string {
	var b bytes.Buffer
	enc := log.NewTextEncoder(&b, "|")
	log.EncodeFields(enc, e.Fields)
	s := b.String()
	for _, kv := range strings.Split(s, "|") {
		if v, ok := strings.CutPrefix(kv, "msg="); ok {
			return v
		}
		if v, ok := strings.CutPrefix(kv, "id="); ok {
			return v
		}
	}
	return s
}

var consoleBuf bytes.Buffer

func init() {
	log.RegisterPlugin[RecAppender]("Rec", log.PluginTypeAppender)
}

// warmHistory gives every case the same non-trivial past, whatever shard it runs in: the process
// has already been configured, has logged located events with hooks set (through a sync and an async
// logger, both caller modes) and has been destroyed. Defects that need a history (recycled pooled
// objects, cached frames, left-over bindings) are then reachable from every case. Failures in here
// are ignored: the case itself reports what matters.
func warmHistory() {
	safeCall(func() {
		// the process has already rejected malformed expressions (more syntax errors than any per-call cap)
		expr.Parse("@@@@ #### ^^^^ T{{{{")
		expr.Parse("T{a=}")
		log.VerifReset()
		log.Stdout = &bytes.Buffer{}
		for _, fast := range []string{"true", "false"} { // ends with the defaults (enableCaller on, fast lookup off) set through the public properties
			// (one appender with every layout attribute configured away from its default)
			if err := log.Refresh(map[string]string{"appender.hw.type": "Rec", "logger.root.type": "Logger", "logger.root.appenderRef.ref": "hw",
				"appender.hc.type": "Console", "appender.hc.layout.type": "TextLayout", "appender.hc.layout.fileLineLength": "10",
				"appender.hx.type": "Rec", "logger.hist.type": "AsyncLogger", "logger.hist.bufferSize": "100", "logger.hist.tags": "_c01_*", "logger.hist.appenderRef.ref": "hx",
				"enableCaller": "true", "fastCaller": fast}); err != nil {
				return
			}
			log.StringFromContext = func(context.Context) string { return "hist-ctx" }
			log.FieldsFromContext = func(context.Context) []log.Field { return []log.Field{log.String("hist", "field")} }
			if tagC01 != nil {
				log.Errorf(context.Background(), tagC01, "history %d", 1)
				log.Info(context.Background(), tagC01, log.String("history", "2"), log.Int("n", 2))
			}
			rootHandleEnum.Write([]byte("history-raw\n"))
			log.StringFromContext, log.FieldsFromContext = nil, nil
			log.Destroy()
		}
	})
}

// confReset returns the library to its initial state (after a fixed warm-up history) and clears the recorders.
func confReset() {
	warmHistory() // starts from VerifReset (process-start state), ends destroyed with the defaults set through the public properties
	safeCall(log.Destroy)
	log.StringFromContext, log.FieldsFromContext = nil, nil
	recMu.Lock()
	defer recMu.Unlock()
	for k := range recStore {
		delete(recStore, k)
	}
	for k := range recStarted {
		delete(recStarted, k)
	}
	for k := range recStopped {
		delete(recStopped, k)
	}
	consoleBuf.Reset()
	log.Stdout = &consoleBuf
	log.TimeNow = func(context.Context) time.Time { return encTime }
}

func safeRefresh(conf map[string]string) (err error, panicked any) {
	defer func() { panicked = recover() }()
	return log.Refresh(conf), nil
}

func safeCall(f func()) (panicked any) {
	defer func() { panicked = recover() }()
	f()
	return nil
}

func confString(m map[string]string) string {
	ks := make([]string, 0, len(m))
	for k := range m {
		ks = append(ks, k)
	}
	sort.Strings(ks)
	var sb strings.Builder
	for _, k := range ks {
		fmt.Fprintf(&sb, "%s=%s; ", k, m[k])
	}
	return sb.String()
}

func recSummary() string {
	ks := make([]string, 0, len(recStore))
	for k := range recStore {
		ks = append(ks, k)
	}
	sort.Strings(ks)
	var sb strings.Builder
	for _, k := range ks {
		fmt.Fprintf(&sb, "%s:[", k)
		for _, it := range recStore[k] {
			fmt.Fprintf(&sb, "%s%s@%s ", it.Kind, it.ID, it.Level)
		}
		sb.WriteString("] ")
	}
	return sb.String()
}

// regTag registers a tag the harness needs at start-up. A panic (the tree under test rejects a
// documented-valid name) must not kill the harness: it is recorded and reported by the C18 check;
// parts that need the tag fail on the nil tag instead (exit 2 for those, they are not about C18).
var tagInitFailures []string

func regTag(name string) (t *log.Tag) {
	defer func() {
		if r := recover(); r != nil {
			tagInitFailures = append(tagInitFailures, fmt.Sprintf("RegisterTag(%q) panicked: %v", name, r))
			t = nil
		}
	}()
	return log.RegisterTag(name)
}
