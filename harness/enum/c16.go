package main

import (
	"context"
	"encoding/json"
	"fmt"
	"os"
	"sort"
	"strings"
	"time"

	log "github.com/go-spring/log"
	zzvrt "github.com/go-spring/log/zzvrt"
)

// ---------------------------------------------------------------------------------------------
// C16 - logging never panics in any lifecycle state; the Refresh/Destroy cycle is sane.
//
// Explicit enumeration of ALL sequences up to length 5 (thorough 6) over a 12-operation alphabet,
// each replayed on a reset package and followed by a fixed probe (log through every tag, write
// through every handle, Destroy), compared step by step with a small lifecycle model.
// ---------------------------------------------------------------------------------------------

var (
	tagVfx = regTag("_vfx_t1")
	tagVfy = regTag("_vfy_t1")
)

const (
	opRefreshA = iota
	opRefreshB
	opRefreshBadEarly
	opRefreshBadRef
	opRefreshBadProp
	opDestroy
	opLogEnabled
	opLogDisabled
	opWriteHandle
	opRegisterTag
	opGetAux
	opGetGhost
	opRefreshBadStart // valid configuration whose START phase fails (an asynchronous logger refuses its buffer size) after other plugins may have been started
	nOps
)

// operations of the breadth-first search only (the exhaustive enumeration keeps the 12 above)
const (
	opRefreshC        = nOps + iota // loggers that own their files: File root + asynchronous RollingFile aux, on a real temporary directory
	opLogAllLevels                  // all 15 entry points through one tag
	opRegisterInvalid               // RegisterTag with a name outside the language: panics in every state, registers nothing
	opRefreshD                      // a configuration WITHOUT a root logger (the built-in console logger is the root; the handle "root" the harness holds is bound to it)
	nOpsExt
)

var opNames = []string{"Refresh(A)", "Refresh(B)", "Refresh(bad-early)", "Refresh(bad-ref)", "Refresh(bad-prop)", "Destroy", "log", "log-disabled", "write-handle", "RegisterTag", "GetLogger(aux)", "GetLogger(ghost)", "Refresh(bad-start)",
	"Refresh(C)", "log-all-levels", "RegisterTag(invalid)", "Refresh(D)"}

var c16FilesUsed bool

func c16Dir() string { return c15Dir() + "/c16" }

func c16ConfC() map[string]string {
	d := c16Dir()
	return map[string]string{
		"appender.unused.type": "Discard",
		"logger.root.type":     "File", "logger.root.level": "INFO", "logger.root.fileDir": d, "logger.root.fileName": "c16root.log",
		"logger.aux.type": "RollingFile", "logger.aux.level": "INFO", "logger.aux.tags": "_vfx_*", "logger.aux.fileDir": d, "logger.aux.fileName": "c16aux.log",
		"logger.aux.rotation": "h", "logger.aux.maxAge": "24", "logger.aux.async": "true", "logger.aux.bufferSize": "100", "logger.aux.bufferFullPolicy": "Block",
	}
}

func c16ConfA() map[string]string {
	return map[string]string{
		"appender.ra.type": "Rec", "appender.raux.type": "Rec",
		"logger.root.type": "Logger", "logger.root.level": "INFO", "logger.root.appenderRef.ref": "ra",
		"logger.aux.type": "Logger", "logger.aux.level": "INFO", "logger.aux.tags": "_vfx_*", "logger.aux.appenderRef.ref": "raux",
	}
}
func c16ConfD() map[string]string {
	return map[string]string{
		"appender.rd.type": "Rec",
		"logger.aux.type":  "Logger", "logger.aux.level": "INFO", "logger.aux.tags": "_vfx_*", "logger.aux.appenderRef.ref": "rd",
	}
}
func c16ConfB() map[string]string {
	return map[string]string{
		"appender.rb.type": "Rec", "appender.rbaux.type": "Rec",
		"logger.root.type": "AsyncLogger", "logger.root.level": "INFO", "logger.root.bufferSize": "100", "logger.root.bufferFullPolicy": "Block", "logger.root.appenderRef.ref": "rb",
		"logger.aux.type": "AsyncLogger", "logger.aux.level": "INFO", "logger.aux.bufferSize": "100", "logger.aux.bufferFullPolicy": "Block", "logger.aux.tags": "_vfy_*", "logger.aux.appenderRef.ref": "rbaux",
	}
}

type c16Model struct {
	mode   string // none | A | B | failedA | failedB | failedNone
	guard  bool
	newTag bool
	aux    bool
	ghost  bool
}

// sinkFor: the sink(s) an item sent through tag/handle may reach in the given mode.
func (m *c16Model) sinksFor(via string) []string {
	cfg := func(which string) string {
		switch which + "/" + via {
		case "A/tag:_vfx_t1", "A/handle:aux":
			return "raux"
		case "B/tag:_vfy_t1", "B/handle:aux":
			return "rbaux"
		}
		if which == "C" {
			if via == "tag:_vfx_t1" || via == "handle:aux" {
				return "file:aux"
			}
			return "file:root"
		}
		if which == "D" { // no root logger configured: everything aux does not serve goes to the built-in console logger
			if via == "tag:_vfx_t1" || via == "handle:aux" {
				return "rd"
			}
			return "console"
		}
		if which == "A" {
			return "ra"
		}
		return "rb"
	}
	switch m.mode {
	case "A", "B", "C", "D":
		return []string{cfg(m.mode)}
	case "failedA":
		return []string{"console", cfg("A"), "nowhere"}
	case "failedB":
		return []string{"console", cfg("B"), "nowhere"}
	case "failedC":
		return []string{"console", cfg("C"), "nowhere"}
	case "failedD":
		return []string{"console", cfg("D"), "nowhere"}
	}
	return []string{"console"}
}

type c16Case struct {
	Ops []int `json:"ops"`
	// Seeds[i] (default 0) is the map-iteration order in force while operation i runs (zzvrt.MapOrderSeed:
	// all permutations of maps of <= 3 keys for 0..5) - what a Refresh that fails half-way leaves bound
	// depends on that order
	Seeds []int `json:"map_order_seeds,omitempty"`
}

func c16Check(c c16Case) (string, []Violation, int) { return c16Run(c, nil) }

// c16Run evaluates one sequence; afterOps (if any) is called when the operations of the sequence have
// been applied, before the fixed probe, with the state of the lifecycle model.
func c16Run(c c16Case, afterOps func(model string)) (string, []Violation, int) {
	// reset, forgetting the tag and the handles a previous sequence created
	log.VerifReset()
	confReset2()
	if c16FilesUsed {
		os.RemoveAll(c16Dir())
		c16FilesUsed = false
	}
	var names []string
	for _, o := range c.Ops {
		names = append(names, opNames[o])
	}
	key := strings.Join(names, " ; ")
	m := &c16Model{mode: "none"}
	var v []Violation
	fail := func(clause, detail string) { v = append(v, Violation{Clause: clause, Key: key, Detail: detail}) }
	handles := map[string]*log.LoggerWrapper{"root": rootHandleEnum}
	var newTag *log.Tag
	type sent struct {
		id    string
		via   string
		sinks []string
	}
	var sents []sent
	n := c16Seq // ids are unique across sequences: a worker leaked by an earlier failed Refresh may still deliver old items
	defer func() { c16Seq = n }()
	ctx := context.Background()
	logVia := func(tag *log.Tag, name string, step string) {
		id := fmt.Sprintf("e%d", n)
		n++
		sinks := m.sinksFor("tag:" + name)
		if pn := safeCall(func() { log.Info(ctx, tag, log.Msg(id)) }); pn != nil {
			fail("log-call-panicked", fmt.Sprintf("%s: log through tag %s in state %s panicked: %v", step, name, m.mode, pn))
			return
		}
		sents = append(sents, sent{id, "tag:" + name, sinks})
	}
	writeVia := func(name string, step string) {
		id := fmt.Sprintf("w%d\n", n)
		n++
		sinks := m.sinksFor("handle:" + name)
		if pn := safeCall(func() { handles[name].Write([]byte(id)) }); pn != nil {
			fail("write-call-panicked", fmt.Sprintf("%s: write through handle %s in state %s panicked: %v", step, name, m.mode, pn))
			return
		}
		sents = append(sents, sent{strings.TrimSpace(id), "handle:" + name, sinks})
	}
	refresh := func(step string, conf map[string]string, which string, badEarly, badRef, badProp bool) {
		err, pn := safeRefresh(conf)
		if pn != nil {
			fail("refresh-panicked", fmt.Sprintf("%s: %v", step, pn))
			return
		}
		switch {
		case badEarly:
			if err == nil {
				fail("bad-config-accepted", step+": configuration without appenders was accepted")
			}
		case m.guard:
			if err == nil {
				if m.mode == "A" || m.mode == "B" {
					fail("second-refresh-accepted", step+": a Refresh without an intervening Destroy was accepted over a live configuration")
				}
				m.mode = which // tolerated after a failed Refresh
			}
		case badRef:
			m.guard = true
			if err == nil {
				fail("bad-config-accepted", step+": a configuration that cannot be built / started (dangling appender reference, refused buffer size) was accepted")
			}
			m.mode = "failedNone"
		case badProp || m.ghost:
			m.guard = true
			if err == nil {
				fail("bad-config-accepted", fmt.Sprintf("%s: accepted although badProp=%v ghostHandle=%v", step, badProp, m.ghost))
			}
			m.mode = "failed" + which
		default:
			m.guard = true
			if err != nil {
				fail("valid-config-rejected", fmt.Sprintf("%s in state %s: %v", step, m.mode, err))
				m.mode = "failed" + which
			} else {
				m.mode = which
			}
		}
	}
	defer func() { zzvrt.MapOrderSeed = 0 }()
	// "the list of all tags contains exactly the names registered" - in every lifecycle state
	baseTags := strings.Join(log.GetAllTags(), ",")
	tagsOK := func(step string) {
		want := baseTags
		if newTag != nil {
			l := append(strings.Split(baseTags, ","), "_vfz_new")
			sort.Strings(l)
			want = strings.Join(l, ",")
		}
		list := log.GetAllTags()
		if got := strings.Join(list, ","); got != want {
			fail("registry-contents", fmt.Sprintf("%s (state %s): GetAllTags()=%s, registered=%s", step, m.mode, got, want))
		}
		// the list belongs to the caller: whatever it does with it (here: overwrite it, the in-place filter idiom) the next
		// call still reports the names registered
		for i := range list {
			list[i] = "SCRIBBLED-BY-THE-CALLER"
		}
		_ = append(list[:0], "x")
		if got := strings.Join(log.GetAllTags(), ","); got != want {
			fail("registry-contents", fmt.Sprintf("%s (state %s): after the caller overwrote the list it had received, GetAllTags()=%s, registered=%s", step, m.mode, got, want))
		}
	}
	for i, o := range c.Ops {
		step := fmt.Sprintf("step %d %s", i, opNames[o])
		zzvrt.MapOrderSeed = 0
		if i < len(c.Seeds) {
			zzvrt.MapOrderSeed = c.Seeds[i]
		}
		switch o {
		case opRefreshA:
			refresh(step, c16ConfA(), "A", false, false, false)
		case opRefreshB:
			refresh(step, c16ConfB(), "B", false, false, false)
		case opRefreshBadEarly:
			refresh(step, map[string]string{"logger.root.type": "Logger"}, "", true, false, false)
		case opRefreshBadRef:
			cf := c16ConfA()
			cf["logger.aux.appenderRef.ref"] = "missing"
			refresh(step, cf, "A", false, true, false)
		case opRefreshBadProp:
			cf := c16ConfA()
			cf["enableCaller"] = "maybe"
			refresh(step, cf, "A", false, false, true)
		case opRefreshBadStart:
			// fails while starting: nothing has been bound yet, so this is the badRef case of the model (guard set,
			// everything still goes to the built-in logger) - whatever had already been started must not make the
			// Destroy that follows hang
			cf := c16ConfB()
			cf["logger.aux.bufferSize"] = "50"
			refresh(step, cf, "B", false, true, false)
		case opRefreshC:
			c16FilesUsed = true
			os.MkdirAll(c16Dir(), 0755)
			refresh(step, c16ConfC(), "C", false, false, false)
		case opRefreshD:
			refresh(step, c16ConfD(), "D", false, false, false)
		case opLogAllLevels:
			for _, ep := range entryPoints() {
				id := fmt.Sprintf("e%d", n)
				n++
				sinks := m.sinksFor("tag:_vfx_t1")
				if ep.level == "TRACE" || ep.level == "DEBUG" { // below the INFO level of every configured logger
					switch m.mode {
					case "none", "failedNone":
						sinks = []string{"console"}
					case "A", "B", "C", "D":
						sinks = []string{"nowhere"}
					default:
						sinks = []string{"console", "nowhere"}
					}
				}
				if pn := safeCall(func() { ep.call(ctx, tagVfx, id) }); pn != nil {
					fail("log-call-panicked", fmt.Sprintf("%s: %s through tag _vfx_t1 in state %s panicked: %v", step, ep.name, m.mode, pn))
					continue
				}
				sents = append(sents, sent{id, ep.name + ":_vfx_t1", sinks})
			}
		case opRegisterInvalid:
			before := len(log.GetAllTags())
			if pn := safeCall(func() { log.RegisterTag("Not A Tag") }); pn == nil {
				fail("invalid-tag-accepted", fmt.Sprintf("%s in state %s: RegisterTag accepted a name outside the documented language", step, m.mode))
			}
			if len(log.GetAllTags()) != before {
				fail("rejected-but-registered", step+": a rejected name changed the registry")
			}
		case opDestroy:
			if pn := safeCall(log.Destroy); pn != nil {
				fail("destroy-panicked", fmt.Sprintf("%s: %v", step, pn))
			}
			if pn := safeCall(log.Destroy); pn != nil {
				fail("destroy-not-idempotent", fmt.Sprintf("%s (second call): %v", step, pn))
			}
			m.guard, m.mode = false, "none"
		case opLogEnabled:
			logVia(tagVfx, "_vfx_t1", step)
		case opLogDisabled:
			// below the level of every configured logger (INFO); the built-in console logger accepts all levels
			id := fmt.Sprintf("t%d", n)
			n++
			sinks := []string{"nowhere"}
			switch m.mode {
			case "none", "failedNone":
				sinks = []string{"console"}
			case "failedA", "failedB", "failedC", "failedD":
				sinks = []string{"console", "nowhere"}
			case "D":
				sinks = []string{"console"} // _vfy_t1 is served by the built-in root, which accepts every level
			}
			if pn := safeCall(func() { log.Trace(ctx, tagVfy, func() []log.Field { return []log.Field{log.Msg(id)} }) }); pn != nil {
				fail("log-call-panicked", fmt.Sprintf("%s: %v", step, pn))
			} else {
				sents = append(sents, sent{id, "trace:_vfy_t1", sinks})
			}
		case opWriteHandle:
			for _, h := range []string{"root", "aux", "ghost"} {
				if handles[h] != nil {
					writeVia(h, step)
				}
			}
		case opRegisterTag:
			var t *log.Tag
			pn := safeCall(func() { t = log.RegisterTag("_vfz_new") })
			// refused while a configuration is live, possible when none has been loaded or after Destroy; between a
			// FAILED Refresh and the next Destroy no configuration is live and the statement does not say: either
			if m.guard != (pn != nil) && !strings.HasPrefix(m.mode, "failed") {
				fail("registration-guard", fmt.Sprintf("%s: panic=%v but a configuration live/guarded=%v", step, pn, m.guard))
			}
			if pn == nil {
				if newTag != nil && t != newTag {
					fail("registration-not-idempotent", step)
				}
				newTag, m.newTag = t, true
			}
		case opGetAux, opGetGhost:
			name := map[int]string{opGetAux: "aux", opGetGhost: "ghost"}[o]
			var h *log.LoggerWrapper
			pn := safeCall(func() { h = log.GetLogger(name) })
			if m.guard != (pn != nil) && !strings.HasPrefix(m.mode, "failed") {
				fail("registration-guard", fmt.Sprintf("%s: panic=%v but guarded=%v", step, pn, m.guard))
			}
			if pn == nil {
				if handles[name] != nil && handles[name] != h {
					fail("handle-not-identical", step+": a handle obtained twice is not the same handle")
				}
				handles[name] = h
				if name == "aux" {
					m.aux = true
				} else {
					m.ghost = true
				}
			}
		}
		tagsOK(step)
	}
	zzvrt.MapOrderSeed = 0
	tagsOK("after the operations")
	if afterOps != nil {
		hs := ""
		for _, h := range []string{"aux", "ghost"} {
			if handles[h] != nil {
				hs += h + ","
			}
		}
		afterOps(fmt.Sprintf("%+v handles=%s newTag=%v", *m, hs, newTag != nil))
	}
	// fixed probe
	logVia(tagVfx, "_vfx_t1", "probe")
	logVia(tagVfy, "_vfy_t1", "probe")
	if newTag != nil {
		logVia(newTag, "_vfz_new", "probe")
	}
	for _, h := range []string{"root", "aux", "ghost"} {
		if handles[h] != nil {
			writeVia(h, "probe")
		}
	}
	if pn := safeCall(log.Destroy); pn != nil {
		fail("destroy-panicked", fmt.Sprintf("final Destroy: %v", pn))
	}
	// Destroy followed by a Refresh with a valid configuration succeeds and routes as configured
	// (unless the ghost handle exists: then every Refresh fails late by the documented rule)
	if !m.ghost {
		m.guard, m.mode = false, "none"
		if err, pn := safeRefresh(c16ConfA()); err != nil || pn != nil {
			fail("refresh-after-destroy", fmt.Sprintf("Destroy then Refresh(A): err=%v panic=%v", err, pn))
		} else {
			m.mode = "A"
			logVia(tagVfx, "_vfx_t1", "after re-Refresh")
			logVia(tagVfy, "_vfy_t1", "after re-Refresh")
			safeCall(log.Destroy)
		}
	}
	// where did everything go?
	recMu.Lock()
	where := map[string][]string{}
	for app, items := range recStore {
		for _, it := range items {
			where[strings.TrimSpace(it.ID)] = append(where[strings.TrimSpace(it.ID)], app)
		}
	}
	recMu.Unlock()
	if c16FilesUsed {
		if es, err := os.ReadDir(c16Dir()); err == nil {
			for _, e := range es {
				b, _ := os.ReadFile(c16Dir() + "/" + e.Name())
				sink := "file:root"
				if strings.HasPrefix(e.Name(), "c16aux") {
					sink = "file:aux"
				}
				for _, line := range strings.Split(string(b), "\n") {
					if i := strings.Index(line, "msg="); i >= 0 {
						where[line[i+4:]] = append(where[line[i+4:]], sink)
					} else if strings.HasPrefix(line, "w") {
						where[line] = append(where[line], sink)
					}
				}
			}
		}
	}
	for _, line := range strings.Split(consoleBuf.String(), "\n") {
		if i := strings.Index(line, "msg="); i >= 0 {
			where[line[i+4:]] = append(where[line[i+4:]], "console")
		} else if strings.HasPrefix(line, "w") {
			where[line] = append(where[line], "console")
		}
	}
	var sb strings.Builder
	for _, s := range sents {
		got := where[s.id]
		fmt.Fprintf(&sb, "%s:%v ", s.via, got)
		ok := false
		for _, a := range s.sinks {
			if (len(got) == 1 && got[0] == a) || (a == "nowhere" && len(got) == 0) {
				ok = true
			}
		}
		if !ok {
			fail("wrong-sink", fmt.Sprintf("item %s sent via %s reached %v, allowed %v", s.id, s.via, got, s.sinks))
		}
	}
	return sb.String(), v, len(c.Ops) + len(sents)
}

var rootHandleEnum = log.GetLogger("root")

var c16Seq int

// confReset2 clears recorders / console without touching the registry (VerifReset was called).
func confReset2() {
	recMu.Lock()
	for k := range recStore {
		delete(recStore, k)
	}
	recMu.Unlock()
	consoleBuf.Reset()
	log.Stdout = &consoleBuf
	log.TimeNow = nil
}

// c16/reachable-states: explicit-state breadth-first search over the REAL package. A state is reached by
// replaying a shortest operation sequence on a reset package; its identity is the canonical deep hash of
// everything reachable from the package-level variables (zzvrt.DeepHash) together with the state of the
// lifecycle model. Every transition (state, operation) is evaluated with the full oracle of c16Check
// (step-by-step model comparison + fixed probe + Destroy + re-Refresh); a successor is expanded only if
// its identity is new. When the frontier becomes empty the search has covered every sequence of ANY
// length over the alphabet - up to the abstraction of the state identity (pool and cache contents,
// channel contents and closure variables are not part of it).
func init() {
	bfs := func(r *runCtx, p *Part) {
		// every shard runs the (small) search itself and then cross-checks its own slice of the unpruned sequences
		maxDepth := 12
		p.Bounds = fmt.Sprintf("breadth-first search over %d operations (the 12 of the enumeration + a configuration of file-owning loggers incl. an asynchronous rolling-file logger, all 15 entry points, an invalid registration; each Refresh under every iteration order of maps of <= 3 keys: 6 variants) from the reset package, successors deduplicated by (deep hash of the package state, model state), depth <= %d or until no new state appears", nOpsExt, maxDepth)
		seen := map[string]bool{}
		type node struct{ ops, seeds []int }
		nSeeds := func(o int) int {
			if o <= opRefreshBadProp || o == opRefreshC || o == opRefreshBadStart || o == opRefreshD {
				return 6 // the five Refresh operations: every iteration order of maps of <= 3 keys
			}
			return 1
		}
		eval := func(seq, seeds []int) string {
			key := ""
			cs := c16Case{Ops: seq, Seeds: seeds}
			arm(p, "c16/reachable-states", cs)
			obs, vs, tr := c16Run(cs, func(model string) {
				// asynchronous workers may still be delivering: take the identity when two consecutive hashes agree
				skip := func(n string) bool { return n == "Stdout" }
				h := log.VerifStateHash(skip)
				for try := 0; try < 50; try++ {
					time.Sleep(20 * time.Microsecond)
					h2 := log.VerifStateHash(skip)
					if h2 == h {
						break
					}
					h = h2
				}
				key = fmt.Sprintf("%016x|%s", h, model)
			})
			disarm()
			p.Executions++
			p.Transitions += int64(tr)
			p.addObs(obs)
			for _, v := range vs {
				p.fail(v, cs)
			}
			return key
		}
		var sample map[string]any
		seen[eval(nil, nil)] = true
		frontier := []node{{}}
		depth := 0
		perDepth := []int{1}
		const maxStates = 600 // a tree whose state carries ever-growing values (statistics counters) has no finite closure: stop, say so
		for depth < maxDepth && len(frontier) > 0 && !p.Capped {
			if len(seen) > maxStates {
				p.Capped = true
				break
			}
			depth++
			var next []node
			for _, h := range frontier {
				if r.expired() {
					p.Capped = true
					break
				}
				for o := 0; o < nOpsExt; o++ {
					for sd := 0; sd < nSeeds(o); sd++ {
						seq := append(append([]int(nil), h.ops...), o)
						seeds := append(append([]int(nil), h.seeds...), sd)
						if k := eval(seq, seeds); !seen[k] {
							seen[k] = true
							next = append(next, node{seq, seeds})
							var names []string
							for _, o := range seq {
								names = append(names, opNames[o])
							}
							sample = map[string]any{"part": "c16/reachable-states", "case": c16Case{Ops: seq, Seeds: seeds}, "operations": names,
								"observation": "a new state at depth " + fmt.Sprint(len(seq)) + ": identity (deep hash of the package state | model state) = " + k}
						}
					}
				}
			}
			frontier = next
			perDepth = append(perDepth, len(next))
		}
		// cross-check of the deduplication: every sequence of length <= 3 (thorough 4), enumerated without any
		// pruning, must end in a state the search has expanded
		crossLen, crossed, crossN, unexpanded := 3, 0, 0, 0
		if r.tier == "thorough" {
			crossLen = 4
		}
		if len(frontier) == 0 && !p.Capped {
			var rec func(cur, seeds []int)
			rec = func(cur, seeds []int) {
				if p.Capped {
					return
				}
				if len(cur) > 0 && crossN%r.nshards != r.shard {
					crossN++
				} else if len(cur) > 0 {
					crossN++
					crossed++
					if k := eval(cur, seeds); !seen[k] {
						unexpanded++
						if os.Getenv("VERIF_HASHTRACE") != "" {
							k2 := eval(cur, seeds)
							fmt.Fprintf(os.Stderr, "MISMATCH %v: key=%s again=%s\n", cur, k, k2)
							for sk := range seen {
								if strings.SplitN(sk, "|", 2)[1] == strings.SplitN(k, "|", 2)[1] {
									fmt.Fprintf(os.Stderr, "   seen with same model: %s\n", sk)
								}
							}
						}
						// not a verdict about the library: the state identity of THIS tree is not a function of the
						// operation sequence (timing-dependent or ever-growing values inside the package state), so
						// the closure claim is withdrawn for this run (capped, exhaustive=false); every transition
						// that was evaluated still went through the full oracle
						p.Capped = true
					}
					if crossed%256 == 0 && r.expired() {
						p.Capped = true
					}
				}
				if len(cur) < crossLen {
					for o := 0; o < nOpsExt; o++ {
						ns := nSeeds(o)
						if len(cur) >= 2 {
							ns = min(ns, 2) // from the third operation on: ascending and descending order only
						}
						for sd := 0; sd < ns; sd++ {
							rec(append(append([]int(nil), cur...), o), append(append([]int(nil), seeds...), sd))
						}
					}
				}
			}
			rec(nil, nil)
		}
		p.States = 0
		if r.shard == 0 {
			p.States = int64(len(seen))
		}
		closed := len(frontier) == 0 && !p.Capped
		p.Extra = map[string]any{"new_states_per_depth": fmt.Sprint(perDepth), "fixpoint_reached": closed, "unpruned_sequences_cross_checked": crossed, "cross_checked_sequences_ending_in_unexpanded_states": unexpanded}
		if r.shard == 0 { // numeric extras are summed over the shards: the search itself is reported once
			p.Extra["distinct_states"], p.Extra["depth_completed"] = len(seen), depth
		}
		if !closed {
			p.Bounds += fmt.Sprintf(" [stopped at depth %d with %d unexpanded states]", depth, len(frontier))
		} else {
			p.Bounds += fmt.Sprintf(" [fixpoint: %d states, no new state after depth %d: every longer sequence ends in a state already expanded]", len(seen), depth-1)
		}
		if len(p.Samples) == 0 && sample != nil {
			p.Samples = append(p.Samples, sample)
		}
	}
	replayBFS := func(raw json.RawMessage) []Violation {
		var c c16Case
		json.Unmarshal(raw, &c)
		obs, vs, _ := c16Check(c)
		fmt.Printf("case: %s\nobservation: %s\n", raw, obs)
		if os.Getenv("VERIF_HASHTRACE") != "" {
			// the state identity of this sequence, computed several times: lines that differ between runs
			var first []string
			for i := 0; i < 6; i++ {
				var tr []string
				c16Run(c, func(string) { _, tr = log.VerifStateHashTrace(func(n string) bool { return n == "Stdout" }) })
				if first == nil {
					first = tr
					continue
				}
				for j := 0; j < len(tr) && j < len(first); j++ {
					if tr[j] != first[j] {
						fmt.Printf("run %d differs at token %d: %q vs %q\n", i, j, first[j], tr[j])
						break
					}
				}
			}
		}
		return vs
	}
	parts = append(parts, partDef{prop: "C16", name: "c16/reachable-states", tiers: "qt", run: bfs, replay: replayBFS})
	// the same search registered for C18: the registry clauses (GetAllTags is exactly the set of registered
	// names, registration is idempotent, an invalid name registers nothing) hold in every lifecycle state
	parts = append(parts, partDef{prop: "C18", name: "c18/registry-through-the-lifecycle", tiers: "qt", run: func(r *runCtx, p *Part) {
		if r.shard%4 == 0 { // four shards share the cross-check; the others have the predicate enumerations
			r2 := *r
			r2.shard, r2.nshards = r.shard/4, (r.nshards+3)/4
			bfs(&r2, p)
		}
	}, replay: replayBFS})
	// and for C12: a raw write through a named handle reaches the appenders of the logger CONFIGURED under that name
	// (and nobody else) in every reachable lifecycle state - whatever the handle was bound to in earlier configurations
	parts = append(parts, partDef{prop: "C12", name: "c12/handle-through-the-lifecycle", tiers: "qt", run: func(r *runCtx, p *Part) {
		if r.shard%4 == 1 || r.nshards < 2 {
			r2 := *r
			r2.shard, r2.nshards = r.shard/4, (r.nshards+3)/4
			bfs(&r2, p)
		}
	}, replay: replayBFS})
}

func init() {
	definePart("C16", "c16/lifecycle-sequences", "qt", "all operation sequences of length <= 5 (thorough 6) over 13 operations + fixed probe, against the lifecycle model",
		func(tier string, yield func(c16Case)) {
			maxN := 5
			if tier == "thorough" {
				maxN = 6
			}
			var rec func(cur []int)
			rec = func(cur []int) {
				yield(c16Case{Ops: append([]int(nil), cur...)})
				if len(cur) == maxN {
					return
				}
				for o := 0; o < nOps; o++ {
					rec(append(cur, o))
				}
			}
			rec(nil)
		}, c16Check)
}
