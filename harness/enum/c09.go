package main

import (
	"bytes"
	"encoding/hex"
	"encoding/json"
	"errors"
	"fmt"
	"strings"
	"unicode/utf8"

	log "github.com/go-spring/log"
)

// ---------------------------------------------------------------------------------------------
// C09 - string escaping is total and exact.
//
// WriteLogString on EVERY byte string of length <= 3 (thorough: 4) over all 256 byte values and of
// length <= 6 (thorough 7) over a 14-symbol boundary alphabet; oracle: a strict hand-written JSON
// string decoder (cross-checked against encoding/json) must accept "out" and decode it to the
// input with each invalid UTF-8 byte replaced by U+FFFD; out is valid UTF-8 without raw control
// bytes. A composition check (esc(a+b) == esc(a)+esc(b) at rune boundaries) verifies that the
// escaper is memoryless, which is what extends the window to longer strings.
// ---------------------------------------------------------------------------------------------

// strictJSONString decodes the body of a JSON string literal (without the quotes) per RFC 8259.
func strictJSONString(b []byte) (string, error) {
	out := make([]byte, 0, len(b))
	for i := 0; i < len(b); {
		c := b[i]
		switch {
		case c < 0x20:
			return "", fmt.Errorf("raw control byte %#x at %d", c, i)
		case c == '"':
			return "", fmt.Errorf("unescaped quote at %d", i)
		case c == '\\':
			if i+1 >= len(b) {
				return "", fmt.Errorf("dangling backslash")
			}
			i++
			switch b[i] {
			case '"', '\\', '/':
				out = append(out, b[i])
			case 'b':
				out = append(out, '\b')
			case 'f':
				out = append(out, '\f')
			case 'n':
				out = append(out, '\n')
			case 'r':
				out = append(out, '\r')
			case 't':
				out = append(out, '\t')
			case 'u':
				r, n, err := hex4(b[i+1:])
				if err != nil {
					return "", err
				}
				i += n
				if r >= 0xD800 && r < 0xDC00 { // high surrogate: needs a low one
					if i+2 < len(b) && b[i+1] == '\\' && b[i+2] == 'u' {
						r2, n2, err := hex4(b[i+3:])
						if err == nil && r2 >= 0xDC00 && r2 < 0xE000 {
							r = 0x10000 + (r-0xD800)<<10 + (r2 - 0xDC00)
							i += 2 + n2
						} else {
							r = utf8.RuneError
						}
					} else {
						r = utf8.RuneError
					}
				} else if r >= 0xDC00 && r < 0xE000 {
					r = utf8.RuneError
				}
				out = utf8.AppendRune(out, r)
			default:
				return "", fmt.Errorf("invalid escape \\%c", b[i])
			}
			i++
		case c < utf8.RuneSelf:
			out = append(out, c)
			i++
		default:
			r, size := utf8.DecodeRune(b[i:])
			if r == utf8.RuneError && size == 1 {
				return "", fmt.Errorf("invalid UTF-8 at %d", i)
			}
			out = append(out, b[i:i+size]...)
			i += size
		}
	}
	return string(out), nil
}

func hex4(b []byte) (rune, int, error) {
	if len(b) < 4 {
		return 0, 0, fmt.Errorf("short \\u escape")
	}
	var r rune
	for _, c := range b[:4] {
		switch {
		case c >= '0' && c <= '9':
			r = r<<4 | rune(c-'0')
		case c >= 'a' && c <= 'f':
			r = r<<4 | rune(c-'a'+10)
		case c >= 'A' && c <= 'F':
			r = r<<4 | rune(c-'A'+10)
		default:
			return 0, 0, fmt.Errorf("bad hex digit %q", c)
		}
	}
	return r, 4, nil
}

// wantDecoded: the input with each invalid UTF-8 byte replaced by one U+FFFD (Go's string->[]rune
// conversion does exactly this).
func wantDecoded(s string) string { return string([]rune(s)) }

func c09Check(buf *bytes.Buffer, s string) (string, *Violation) {
	buf.Reset()
	log.WriteLogString(buf, s)
	out := buf.Bytes()
	if !utf8.Valid(out) {
		return "", &Violation{Clause: "output-not-utf8", Key: fmt.Sprintf("%q", s), Detail: fmt.Sprintf("WriteLogString(%q) = %q is not valid UTF-8", s, out)}
	}
	dec, err := strictJSONString(out)
	if err != nil {
		return "", &Violation{Clause: "not-a-json-string", Key: fmt.Sprintf("%q", s), Detail: fmt.Sprintf("WriteLogString(%q) = %q: %v", s, out, err)}
	}
	if want := wantDecoded(s); dec != want {
		return "", &Violation{Clause: "decodes-to-other-text", Key: fmt.Sprintf("%q", s), Detail: fmt.Sprintf("WriteLogString(%q) = %q decodes to %q, want %q", s, out, dec, want)}
	}
	return string(out), nil
}

var c09Boundary = []byte{'"', '\\', '/', 0x00, 0x1f, 0x20, 0x7f, 0x80, 0xbf, 0xc2, 0xe0, 0xed, 0xf4, 0xff}

func c09All(r *runCtx, p *Part, alphabet []byte, maxLen int, name string) {
	buf := &bytes.Buffer{}
	b := make([]byte, maxLen)
	var rec func(n, depth int)
	distinct := map[string]struct{}{}
	// shard on the first byte (length >= 1); the empty string goes to shard 0
	rec = func(n, depth int) {
		if depth == n {
			s := string(b[:n])
			out, v := c09Check(buf, s)
			p.Executions++
			p.Transitions += int64(n) + 1
			if v != nil {
				p.fail(*v, hexOf(s))
			} else if len(distinct) < 4096 {
				distinct[out] = struct{}{}
			}
			return
		}
		for _, c := range alphabet {
			b[depth] = c
			rec(n, depth+1)
		}
	}
	for n := 0; n <= maxLen; n++ {
		if n == 0 {
			if r.shard == 0 {
				rec(0, 0)
			}
			continue
		}
		for i, c := range alphabet {
			if i%r.nshards != r.shard {
				continue
			}
			if r.expired() {
				p.Capped = true
				return
			}
			b[0] = c
			rec(n, 1)
		}
	}
	p.States = p.Executions
	for o := range distinct {
		p.addObs(o)
	}
}

func init() {
	all := make([]byte, 256)
	for i := range all {
		all[i] = byte(i)
	}
	parts = append(parts, partDef{prop: "C09", name: "c09/all-bytes", tiers: "qt", run: func(r *runCtx, p *Part) {
		n := 3
		if r.tier == "thorough" {
			n = 4
		}
		p.Bounds = fmt.Sprintf("every byte string of length <= %d over all 256 byte values", n)
		c09All(r, p, all, n, "all")
		p.Samples = append(p.Samples, map[string]any{"input": "\x00\"\xff", "escaped": func() string { b := &bytes.Buffer{}; log.WriteLogString(b, "\x00\"\xff"); return b.String() }()})
	}, replay: c09Replay})
	parts = append(parts, partDef{prop: "C09", name: "c09/boundary-alphabet", tiers: "qt", run: func(r *runCtx, p *Part) {
		n := 6
		if r.tier == "thorough" {
			n = 7
		}
		p.Bounds = fmt.Sprintf("every string of length <= %d over the 14 boundary bytes %q", n, c09Boundary)
		c09All(r, p, c09Boundary, n, "boundary")
	}, replay: c09Replay})
	// memorylessness: esc(a+b) == esc(a)+esc(b) whenever the split is at a rune boundary of a+b
	parts = append(parts, partDef{prop: "C09", name: "c09/composition", tiers: "qt", run: func(r *runCtx, p *Part) {
		p.Bounds = "all a,b of length <= 3 over the boundary alphabet, split at rune boundaries"
		var strs []string
		var gen func(s []byte, n int)
		gen = func(s []byte, n int) {
			strs = append(strs, string(s))
			if n == 0 {
				return
			}
			for _, c := range c09Boundary {
				gen(append(s, c), n-1)
			}
		}
		gen(nil, 3)
		esc := func(s string) string { b := &bytes.Buffer{}; log.WriteLogString(b, s); return b.String() }
		for i, a := range strs {
			if i%r.nshards != r.shard {
				continue
			}
			ea := esc(a)
			for _, b := range strs {
				ab := a + b
				// rune boundary: decoding a+b consumes exactly len(a) bytes in whole steps
				pos, ok := 0, false
				for pos <= len(a) {
					if pos == len(a) {
						ok = true
						break
					}
					_, sz := utf8.DecodeRuneInString(ab[pos:])
					pos += sz
				}
				if !ok {
					continue
				}
				p.Executions++
				p.Transitions++
				if got, want := esc(ab), ea+esc(b); got != want {
					p.fail(Violation{Clause: "not-memoryless", Key: fmt.Sprintf("%q+%q", a, b), Detail: fmt.Sprintf("esc(%q)=%q but esc(a)+esc(b)=%q", ab, got, want)}, hexOf(ab))
				}
			}
		}
		p.States = p.Executions
		p.addObs("composition")
		p.addObs("ok")
	}, replay: c09Replay})
	// context independence: esc(pre + x + post) == pre + esc(x) + post for plain-ASCII pre/post of
	// lengths around every plausible word size; this is what rules out multi-byte-at-a-time fast paths
	// whose look-ahead exceeds the exhaustive window above
	parts = append(parts, partDef{prop: "C09", name: "c09/ascii-context", tiers: "qt", run: func(r *runCtx, p *Part) {
		lens := []int{0, 1, 3, 4, 7, 8, 9, 15, 16, 17, 31, 33}
		maxX := 2
		if r.tier == "thorough" {
			maxX = 3
			lens = []int{0, 1, 7, 8, 15, 16, 33}
		}
		p.Bounds = fmt.Sprintf("every byte string x of length <= %d embedded in plain ASCII: %d prefix lengths x %d suffix lengths", maxX, len(lens), len(lens))
		filler := "abcdefghijklmnopqrstuvwxyzABCDEFGHIJ"
		buf := &bytes.Buffer{}
		xb := make([]byte, maxX)
		var rec func(n, d int)
		one := func(x string) {
			ex, v := c09Check(buf, x)
			if v != nil {
				p.fail(*v, hexOf(x))
				return
			}
			for _, lp := range lens {
				for _, ls := range lens {
					p.Executions++
					in := filler[:lp] + x + filler[len(filler)-ls:]
					buf.Reset()
					log.WriteLogString(buf, in)
					if want := filler[:lp] + ex + filler[len(filler)-ls:]; buf.String() != want {
						p.fail(Violation{Clause: "context-dependent-escaping", Key: fmt.Sprintf("%q with %d+%d ASCII bytes around", x, lp, ls),
							Detail: fmt.Sprintf("WriteLogString(%q) = %q, want %q", in, buf.String(), want)}, hexOf(in))
					}
				}
			}
		}
		rec = func(n, d int) {
			if d == n {
				one(string(xb[:n]))
				return
			}
			for c := 0; c < 256; c++ {
				xb[d] = byte(c)
				rec(n, d+1)
			}
		}
		for n := 1; n <= maxX; n++ {
			for c := 0; c < 256; c++ {
				if c%r.nshards != r.shard {
					continue
				}
				if r.expired() {
					p.Capped = true
					return
				}
				xb[0] = byte(c)
				rec(n, 1)
			}
		}
		p.States, p.Transitions = p.Executions, p.Executions
		p.addObs("context")
		p.addObs("ok")
	}, replay: c09Replay})
	// position independence over long inputs: esc(pre + x + post) == esc(pre) + esc(x) + esc(post) where pre is
	// n repetitions of a plain byte, of a 2-byte escape, of a 6-byte escape, of a 2-byte rune or of an invalid byte,
	// for EVERY n up to 300 - so that x meets every alignment of any internal staging buffer / chunk of up to
	// 256 input or output bytes (a fixed-size scratch array that is flushed "when nearly full" fails at one offset only)
	parts = append(parts, partDef{prop: "C09", name: "c09/long-context", tiers: "qt", run: func(r *runCtx, p *Part) {
		maxN := 300
		if r.tier == "thorough" {
			maxN = 1100
		}
		units := []string{"a", "\n", "\x01", "\u00e9", "\xff", "\""}
		boundary := []byte{0x00, 0x1f, '\n', '"', '\\', 0x7f, 0x80, 0xbf, 0xc2, 0xe2, 0xed, 0xf0, 0xf4, 0xff}
		var xs []string
		for c := 0; c < 256; c++ {
			xs = append(xs, string([]byte{byte(c)}))
		}
		for _, a := range boundary {
			for _, b := range boundary {
				xs = append(xs, string([]byte{a, b}))
			}
		}
		xs = append(xs, "\u20ac", "\U0001F600", "\xe2\x82", "\xf0\x9f\x98")
		p.Bounds = fmt.Sprintf("%d strings x (all single bytes, all pairs over 14 boundary bytes, 4 runes/truncated runes) after n repetitions of each of %d units, every n in 0..%d, followed by a 2-byte tail", len(xs), len(units), maxN)
		buf := &bytes.Buffer{}
		esc := func(in string) string {
			buf.Reset()
			log.WriteLogString(buf, in)
			return buf.String()
		}
		exs := make([]string, len(xs))
		for i, x := range xs {
			ex, v := c09Check(buf, x)
			if v != nil {
				p.fail(*v, hexOf(x))
				return
			}
			exs[i] = ex
		}
		k := 0
		for _, u := range units {
			eu, v := c09Check(buf, u)
			if v != nil {
				p.fail(*v, hexOf(u))
				return
			}
			for n := 0; n <= maxN; n++ {
				if k++; k%r.nshards != r.shard {
					continue
				}
				if r.expired() {
					p.Capped = true
					return
				}
				pre, epre := strings.Repeat(u, n), strings.Repeat(eu, n)
				for i, x := range xs {
					p.Executions++
					in := pre + x + "z\n"
					if got, want := esc(in), epre+exs[i]+"z\\n"; got != want {
						p.fail(Violation{Clause: "position-dependent-escaping", Key: fmt.Sprintf("%q after %d x %q", x, n, u),
							Detail: fmt.Sprintf("WriteLogString of %d x %q + %q + \"z\\n\": output differs from the concatenation of the parts' escapes at byte %d (got ...%q, want ...%q)", n, u, x, firstDiff(got, want), tailAt(got, firstDiff(got, want)), tailAt(want, firstDiff(got, want)))}, hexOf(in))
					}
				}
			}
		}
		p.States, p.Transitions = p.Executions, p.Executions
		p.addObs("position")
		p.addObs("ok")
	}, replay: c09Replay})
	// every path that writes a string: keys and values of both encoders, top level and nested, for EVERY string
	// of <= 3 bytes (a whole rune of any width fits) - each must be the escaper's text for that string, which
	// c09/all-bytes checks against the reference decoder for exactly these strings
	parts = append(parts, partDef{prop: "C09", name: "c09/encoder-paths", tiers: "qt", run: func(r *runCtx, p *Part) {
		p.Bounds = "every byte string of length <= 3 as key and as value of the JSON encoder, of the text encoder at the top level and inside a nested array: identical to WriteLogString"
		wb, jb, tb := &bytes.Buffer{}, &bytes.Buffer{}, &bytes.Buffer{}
		je := log.NewJSONEncoder(jb)
		var x [3]byte
		one := func(sx string) {
			p.Executions++
			wb.Reset()
			log.WriteLogString(wb, sx)
			out := wb.String()
			jb.Reset()
			je.Reset()
			je.AppendObjectBegin()
			je.AppendKey(sx)
			je.AppendString(sx)
			je.AppendObjectEnd()
			if jb.Len() != 2*len(out)+7 || jb.String() != `{"`+out+`":"`+out+`"}` {
				p.fail(Violation{Clause: "json-encoder-escaping", Key: fmt.Sprintf("%q", sx), Detail: fmt.Sprintf("JSON encoder wrote %q for key and value %q, the escaper writes %q", jb.String(), sx, out)}, hexOf(sx))
			}
			tb.Reset()
			te := log.NewTextEncoder(tb, "||")
			te.AppendKey(sx)
			te.AppendString(sx)
			te.AppendKey("n")
			te.AppendArrayBegin()
			te.AppendString(sx)
			te.AppendArrayEnd()
			if want := out + "=" + out + `||n=["` + out + `"]`; tb.String() != want {
				p.fail(Violation{Clause: "text-encoder-escaping", Key: fmt.Sprintf("%q", sx), Detail: fmt.Sprintf("text encoder wrote %q, want %q", tb.String(), want)}, hexOf(sx))
			}
		}
		for a := 0; a < 256; a++ {
			if a%r.nshards != r.shard {
				continue
			}
			if r.expired() {
				p.Capped = true
				return
			}
			x[0] = byte(a)
			one(string(x[:1]))
			for b := 0; b < 256; b++ {
				x[1] = byte(b)
				one(string(x[:2]))
				for c := 0; c < 256; c++ {
					x[2] = byte(c)
					one(string(x[:3]))
				}
			}
		}
		p.States, p.Transitions = p.Executions, 3*p.Executions
		p.addObs("paths")
		p.addObs("ok")
	}, replay: c09Replay})
	// the reference decoder itself against encoding/json, and the encoders' key/string paths
	parts = append(parts, partDef{prop: "C09", name: "c09/encoders-and-reference", tiers: "qt", run: func(r *runCtx, p *Part) {
		p.Bounds = "all strings of length <= 2 over all bytes: reference decoder vs encoding/json; AppendKey/AppendString of both encoders vs WriteLogString"
		buf := &bytes.Buffer{}
		for a := 0; a < 257; a++ {
			if a%r.nshards != r.shard {
				continue
			}
			for b := 0; b < 257; b++ {
				var s string
				switch {
				case a == 256 && b == 256:
					s = ""
				case a == 256:
					continue
				case b == 256:
					s = string([]byte{byte(a)})
				default:
					s = string([]byte{byte(a), byte(b)})
				}
				p.Executions++
				out, v := c09Check(buf, s)
				if v != nil {
					p.fail(*v, hexOf(s))
					continue
				}
				p.addObs(out)
				// reference decoder agrees with encoding/json on the escaped text
				var js string
				if err := json.Unmarshal([]byte(`"`+out+`"`), &js); err != nil || js != wantDecoded(s) {
					p.fail(Violation{Clause: "encoding-json-disagrees", Key: fmt.Sprintf("%q", s), Detail: fmt.Sprintf("encoding/json on %q: %q, %v", out, js, err)}, hexOf(s))
				}
				// encoders
				jb := &bytes.Buffer{}
				je := log.NewJSONEncoder(jb)
				je.AppendObjectBegin()
				je.AppendKey(s)
				je.AppendString(s)
				je.AppendObjectEnd()
				if want := `{"` + out + `":"` + out + `"}`; jb.String() != want {
					p.fail(Violation{Clause: "json-encoder-escaping", Key: fmt.Sprintf("%q", s), Detail: fmt.Sprintf("JSON encoder wrote %q, want %q", jb.String(), want)}, hexOf(s))
				}
				// the text of a marshalling error goes through the same escaping (both encoders)
				rb := &bytes.Buffer{}
				re := log.NewJSONEncoder(rb)
				re.AppendReflect(c09Bad{s})
				if lit := rb.String(); len(lit) < 2 || lit[0] != '"' || lit[len(lit)-1] != '"' {
					p.fail(Violation{Clause: "reflect-error-not-a-json-string", Key: fmt.Sprintf("%q", s), Detail: fmt.Sprintf("AppendReflect of an unmarshallable value whose error text contains %q wrote %q", s, lit)}, hexOf(s))
				} else if dec, err := strictJSONString([]byte(lit[1 : len(lit)-1])); err != nil || !strings.HasSuffix(dec, wantDecoded(s)) {
					p.fail(Violation{Clause: "reflect-error-escaping", Key: fmt.Sprintf("%q", s), Detail: fmt.Sprintf("AppendReflect error text containing %q was written as %q: %v (decodes to %q)", s, lit, err, dec)}, hexOf(s))
				}
				xb := &bytes.Buffer{}
				xe := log.NewTextEncoder(xb, "||")
				xe.AppendKey("k")
				xe.AppendReflect(c09Bad{s})
				if got := xb.String(); !strings.HasSuffix(got, out) || !strings.HasPrefix(got, "k=") {
					p.fail(Violation{Clause: "reflect-error-escaping", Key: fmt.Sprintf("text %q", s), Detail: fmt.Sprintf("text encoder wrote %q for a marshalling error ending in %q, want it to end with %q", got, s, out)}, hexOf(s))
				}
				tb := &bytes.Buffer{}
				te := log.NewTextEncoder(tb, "||")
				te.AppendKey(s)
				te.AppendString(s)
				if want := out + "=" + out; tb.String() != want {
					p.fail(Violation{Clause: "text-encoder-escaping", Key: fmt.Sprintf("%q", s), Detail: fmt.Sprintf("text encoder wrote %q, want %q", tb.String(), want)}, hexOf(s))
				}
				p.Transitions += 4
			}
		}
		p.States = p.Executions
	}, replay: c09Replay})
}

func c09Replay(raw json.RawMessage) []Violation {
	var h string
	json.Unmarshal(raw, &h)
	bs, err := hex.DecodeString(h)
	if err != nil {
		bs = []byte(h)
	}
	s := string(bs)
	_, v := c09Check(&bytes.Buffer{}, hexOf(s))
	fmt.Printf("input %q\n", s)
	if v != nil {
		return []Violation{*v}
	}
	return nil
}

// c09Bad cannot be marshalled; its error text ends with an arbitrary byte string.
type c09Bad struct{ s string }

func (b c09Bad) MarshalJSON() ([]byte, error) { return nil, errors.New("E:" + b.s) }

func hexOf(s string) string { return hex.EncodeToString([]byte(s)) }

func firstDiff(a, b string) int {
	n := min(len(a), len(b))
	for i := 0; i < n; i++ {
		if a[i] != b[i] {
			return i
		}
	}
	return n
}

func tailAt(s string, i int) string {
	lo, hi := max(0, i-6), min(len(s), i+14)
	return s[lo:hi]
}

// ---------------------------------------------------------------------------------------------
// The escaper under every REGISTERED top-level property (discovered from the tree under test, like
// c10/wall-clock-through-the-lifecycle): a property may switch the escaper into another mode (escape
// non-ASCII, ...); whatever mode it is in, the output is a valid JSON string literal that decodes to the
// input. For every property x {"true", "1", "false"} the setter accepts (through Refresh, as a user
// would set it): every Unicode scalar value, every 1- and 2-byte string, the 14 boundary bytes to length 3.
// ---------------------------------------------------------------------------------------------

type c09PropCase struct {
	Prop  string `json:"property"`
	Value string `json:"value"`
}

func init() {
	definePart("C09", "c09/under-every-registered-property", "qt", "every registered top-level property x {true, 1, false}: every Unicode scalar value, every 1- and 2-byte string, 14 boundary bytes to length 3",
		func(tier string, yield func(c09PropCase)) {
			for _, p := range log.VerifPropertyNames() {
				for _, v := range []string{"true", "1", "false"} {
					yield(c09PropCase{p, v})
				}
			}
		},
		func(c c09PropCase) (string, []Violation, int) {
			confReset()
			conf := map[string]string{"appender.r0.type": "Rec", "logger.root.type": "Logger", "logger.root.appenderRef.ref": "r0", c.Prop: c.Value}
			if err, pn := safeRefresh(conf); err != nil || pn != nil {
				safeCall(log.Destroy)
				return "value-rejected", nil, 1 // the setter does not take this value
			}
			defer func() { safeCall(log.Destroy); log.VerifReset() }()
			var buf bytes.Buffer
			var v []Violation
			n := 0
			check := func(s string) {
				n++
				if len(v) < 5 {
					if _, viol := c09Check(&buf, s); viol != nil {
						viol.Key = fmt.Sprintf("%s=%s %s", c.Prop, c.Value, viol.Key)
						viol.Detail = fmt.Sprintf("with the property %s=%s: %s", c.Prop, c.Value, viol.Detail)
						v = append(v, *viol)
					}
				}
			}
			for r := rune(0); r <= 0x10FFFF; r++ {
				if r >= 0xD800 && r <= 0xDFFF {
					continue
				}
				check(string(r))
			}
			for a := 0; a < 256; a++ {
				check(string([]byte{byte(a)}))
				for b := 0; b < 256; b++ {
					check(string([]byte{byte(a), byte(b)}))
				}
			}
			for _, a := range c09Boundary {
				for _, b := range c09Boundary {
					for _, d := range c09Boundary {
						check(string([]byte{a, b, d}))
					}
				}
			}
			return fmt.Sprint(n), v, n
		})
}
