package main

import (
	"fmt"
	"strings"

	log "github.com/go-spring/log"
)

// ---------------------------------------------------------------------------------------------
// C08 / C03 - the line a layout hands out stays that event's line: it is still intact after further
// events have been formatted (a sink may take its time with the bytes; the buffers the layouts work in
// are pooled and recycled according to their capacity against the bufferCap property). Exhaustive over
// the line length: for every payload length from 0 to beyond the cap - so that the work buffer passes
// through every capacity the allocator produces around the cap, including exactly the cap - one event is
// formatted, then three more (same length, shorter, longer), and the first line is compared with the
// copy taken when it was returned. Both layouts; the payload as context string (one large write into
// a fresh buffer) and as a string field; caps 256 B, 1 KB, 8 KB and the default.
// ---------------------------------------------------------------------------------------------

type lineStableCase struct {
	Cap    int    `json:"buffer_cap"` // 0 = default
	Layout string `json:"layout"`
	Where  string `json:"payload_in"` // ctx | field
	N      int    `json:"payload_len"`
	More   int    `json:"further_events,omitempty"` // 0 = three (same length, shorter, longer); otherwise that many of cycling lengths
}

func init() {
	for _, prop := range []string{"C08", "C03", "C07"} {
		prop := prop
		definePart(prop, strings.ToLower(prop)+"/line-stays-intact", "qt",
			"every payload length 0..cap+cap/4 (cap: 256 B, 1 KB, 8 KB, default) x text/JSON layout x payload as context string / string field; 3 further events formatted before the first line is compared (1500 further events for 6 lengths per cap)",
			func(tier string, yield func(lineStableCase)) {
				for _, cp := range []int{256, 1024, 8192, 0} {
					limit := cp
					if cp == 0 {
						limit = int(log.BufferCap.Load())
					}
					step := 1
					if tier != "thorough" && limit > 2048 {
						step = 1 // every length in both tiers: the capacities an allocator produces are not the harness's to guess
					}
					for n := 0; n <= limit+limit/4; n += step {
						for _, l := range []string{"text", "json"} {
							for _, w := range []string{"ctx", "field"} {
								if w == "field" && limit > 2048 && n%2 == 1 && tier != "thorough" {
									continue
								}
								yield(lineStableCase{Cap: cp, Layout: l, Where: w, N: n})
							}
						}
					}
					// a sink that is slow for LONG: 1500 further events (any bounded set of recycled line buffers - a ring, a
					// free list - has come round by then) while the first line of a few representative lengths is held
					for _, n := range []int{0, 10, limit / 2, limit - 1, limit, limit + 1} {
						for _, l := range []string{"text", "json"} {
							for _, w := range []string{"ctx", "field"} {
								yield(lineStableCase{Cap: cp, Layout: l, Where: w, N: n, More: 1500})
							}
						}
					}
				}
			},
			func(c lineStableCase) (string, []Violation, int) {
				if c.N == 0 && c.Layout == "text" && c.Where == "ctx" {
					confReset() // once per cap: fresh pools, default tunables
				}
				if c.Cap > 0 {
					log.BufferCap.Store(int32(c.Cap))
				}
				var lay log.Layout = &log.TextLayout{BaseLayout: log.BaseLayout{FileLineLength: 48}}
				if c.Layout == "json" {
					lay = &log.JSONLayout{BaseLayout: log.BaseLayout{FileLineLength: 48}}
				}
				mk := func(ch byte, n int) *log.Event {
					e := &log.Event{Level: log.WarnLevel, Time: encTime, File: "dir/file.go", Line: 42, Tag: "_enc_tag"}
					p := strings.Repeat(string(ch), n)
					if c.Where == "ctx" {
						e.CtxString = p
						e.Fields = []log.Field{log.Int("n", n)}
					} else {
						e.Fields = []log.Field{log.String("p", p), log.Int("n", n)}
					}
					return e
				}
				key := fmt.Sprintf("cap=%d %s payload in %s", c.Cap, c.Layout, c.Where)
				first := lay.ToBytes(mk('a', c.N))
				keep := string(first)
				var v []Violation
				if !strings.HasSuffix(keep, "\n") || strings.Count(keep, "\n") != 1 || strings.Count(keep, "a") < c.N {
					v = append(v, Violation{Clause: "one-line", Key: key, Detail: fmt.Sprintf("payload length %d: the line is %q", c.N, trunc(keep, 200))})
				}
				further := []int{c.N, c.N / 2, c.N + 40}
				for len(further) < c.More {
					further = append(further, []int{c.N, 3, c.N / 2, c.N + 40, 64}[len(further)%5])
				}
				for i, n := range further {
					other := lay.ToBytes(mk(byte('b'+i%20), n))
					if string(first) != keep {
						v = append(v, Violation{Clause: "line-overwritten", Key: key,
							Detail: fmt.Sprintf("payload length %d (line of %d bytes, cap of the returned slice %d): after %d further event(s) had been formatted the first line reads %q", c.N, len(keep), cap(first), i+1, trunc(string(first), 120))})
						break
					}
					_ = other
				}
				return fmt.Sprintf("len=%d", len(keep)/512), v, 1 + len(further)
			})
	}
}

// ---------------------------------------------------------------------------------------------
// C03 / C07 - a line carries the name of ITS event's level: two levels may share a code (a built-in
// level and a user-registered alias), and whatever a layout remembers about levels must not be keyed
// by the code alone. Every sequence of 1-3 events over 6 levels (three codes, two names each) through
// both layouts, on fresh and on shared layout objects.
// ---------------------------------------------------------------------------------------------

type aliasSeqCase struct {
	Layout string `json:"layout"`
	Seq    []int  `json:"levels"`
}

func init() {
	lv := []log.Level{log.WarnLevel, lvWarning, log.ErrorLevel, lvSevere, log.DebugLevel, lvFine}
	for _, prop := range []string{"C03", "C07"} {
		definePart(prop, strings.ToLower(prop)+"/alias-level-names", "qt", "every sequence of 1-3 events over 6 levels (3 codes x 2 names) x text/JSON layout: each line names its own event's level",
			func(tier string, yield func(aliasSeqCase)) {
				for _, l := range []string{"json", "text"} {
					var rec func(cur []int)
					rec = func(cur []int) {
						if len(cur) > 0 {
							yield(aliasSeqCase{l, append([]int(nil), cur...)})
						}
						if len(cur) == 3 {
							return
						}
						for i := range lv {
							rec(append(cur, i))
						}
					}
					rec(nil)
				}
			},
			func(c aliasSeqCase) (string, []Violation, int) {
				confReset() // a fresh process state: whatever is cached about levels starts empty
				var lay log.Layout = &log.TextLayout{BaseLayout: log.BaseLayout{FileLineLength: 48}}
				if c.Layout == "json" {
					lay = &log.JSONLayout{BaseLayout: log.BaseLayout{FileLineLength: 48}}
				}
				var v []Violation
				var sb strings.Builder
				for i, li := range c.Seq {
					e := &log.Event{Level: lv[li], Time: encTime, File: "dir/file.go", Line: 42, Tag: "_enc_tag", Fields: []log.Field{log.Int("i", i)}}
					line := string(lay.ToBytes(e))
					sb.WriteString(line)
					want := "[" + lv[li].Name() + "]["
					if c.Layout == "json" {
						want = `{"level":"` + strings.ToLower(lv[li].Name()) + `",`
					}
					if !strings.HasPrefix(line, want) {
						v = append(v, Violation{Clause: "line-differs-from-solo-line", Key: fmt.Sprintf("%s levels=%v", c.Layout, c.Seq),
							Detail: fmt.Sprintf("event %d was logged at %s (code %d): its line starts %q, want %q", i, lv[li].Name(), lv[li].Code(), trunc(line, 60), want)})
					}
				}
				return sb.String(), v, len(c.Seq)
			})
	}
}
