package main

import (
	"bytes"
	"encoding/json"
	"fmt"
	"io"
	"os"
	"os/exec"
	"sort"
	"strings"
	"syscall"
	"time"

	"github.com/go-spring/log/expr"
)

// ---------------------------------------------------------------------------------------------
// C17 - the config-expression parser is total and flattens well-formed input exactly.
//
// Reference: a maximal-munch lexer transcribed from the token rules of expr/Expr.g4 and a
// recursive-descent recogniser/flattener for its parser rules. Enumerated: every token sequence
// of length <= 6 (thorough 7) over 15 representative lexemes (two spacings), every string of length
// <= 4 (thorough 5) over a 24-symbol alphabet (bare and wrapped in `T{k=...}`), nesting/width ladders.
// ---------------------------------------------------------------------------------------------

type tok struct {
	kind string // IDENT STRING INTEGER FLOAT or the punctuation itself
	text string
}

func isDigit(r rune) bool  { return r >= '0' && r <= '9' }
func isLetter(r rune) bool { return r >= 'a' && r <= 'z' || r >= 'A' && r <= 'Z' }
func isHex(r rune) bool    { return isDigit(r) || r >= 'a' && r <= 'f' || r >= 'A' && r <= 'F' }

// refLex tokenises by longest match (ties: the rule listed first in the grammar); any input that
// no rule matches makes the expression ill-formed. The input is a rune sequence (invalid UTF-8
// bytes are U+FFFD, as for any Go string converted to runes).
func refLex(in string) ([]tok, bool) {
	rs := []rune(in)
	var out []tok
	for i := 0; i < len(rs); {
		r := rs[i]
		if r == ' ' || r == '\t' || r == '\r' || r == '\n' {
			i++
			continue
		}
		best, kind := 0, ""
		try := func(n int, k string) {
			if n > best {
				best, kind = n, k
			}
		}
		// punctuation (implicit tokens precede the named rules)
		if strings.ContainsRune("{},=.[]", r) {
			try(1, string(r))
		}
		// IDENT
		if isLetter(r) || r == '_' {
			j := i + 1
			for j < len(rs) && (isLetter(rs[j]) || isDigit(rs[j]) || rs[j] == '_') {
				j++
			}
			try(j-i, "IDENT")
		}
		// STRING
		if r == '"' {
			j := i + 1
			for j < len(rs) {
				if rs[j] == '"' {
					try(j+1-i, "STRING")
					break
				}
				if rs[j] == '\\' {
					if j+1 < len(rs) && strings.ContainsRune(`"\/bfnrt`, rs[j+1]) {
						j += 2
						continue
					}
					break
				}
				j++
			}
		}
		// INTEGER: ('+'|'-')? DIGIT+ | '0x' HEX+
		{
			j := i
			if j < len(rs) && (rs[j] == '+' || rs[j] == '-') {
				j++
			}
			k := j
			for k < len(rs) && isDigit(rs[k]) {
				k++
			}
			if k > j {
				try(k-i, "INTEGER")
			}
			if r == '0' && i+1 < len(rs) && rs[i+1] == 'x' {
				k := i + 2
				for k < len(rs) && isHex(rs[k]) {
					k++
				}
				if k > i+2 {
					try(k-i, "INTEGER")
				}
			}
		}
		// FLOAT: sign? ( D+ ('.' D+)? | '.' D+ ) ([eE] sign? D+)?
		{
			j := i
			if j < len(rs) && (rs[j] == '+' || rs[j] == '-') {
				j++
			}
			k := j
			for k < len(rs) && isDigit(rs[k]) {
				k++
			}
			end := 0
			if k > j {
				end = k
				if k < len(rs) && rs[k] == '.' {
					m := k + 1
					for m < len(rs) && isDigit(rs[m]) {
						m++
					}
					if m > k+1 {
						end = m
					}
				}
			} else if k < len(rs) && rs[k] == '.' {
				m := k + 1
				for m < len(rs) && isDigit(rs[m]) {
					m++
				}
				if m > k+1 {
					end = m
				}
			}
			if end > 0 {
				if end < len(rs) && (rs[end] == 'e' || rs[end] == 'E') {
					m := end + 1
					if m < len(rs) && (rs[m] == '+' || rs[m] == '-') {
						m++
					}
					q := m
					for q < len(rs) && isDigit(rs[q]) {
						q++
					}
					if q > m {
						end = q
					}
				}
				// tie with INTEGER goes to INTEGER (listed first): only a strictly longer match wins
				try(end-i, "FLOAT")
			}
		}
		if best == 0 {
			return nil, false
		}
		out = append(out, tok{kind, string(rs[i : i+best])})
		i += best
	}
	return out, true
}

// refUnquote: the escapes the lexer admits, everything else verbatim.
func refUnquote(lit string) string {
	body := []rune(lit[1 : len(lit)-1])
	var sb strings.Builder
	for i := 0; i < len(body); i++ {
		if body[i] != '\\' {
			sb.WriteRune(body[i])
			continue
		}
		i++
		switch body[i] {
		case 'b':
			sb.WriteByte('\b')
		case 'f':
			sb.WriteByte('\f')
		case 'n':
			sb.WriteByte('\n')
		case 'r':
			sb.WriteByte('\r')
		case 't':
			sb.WriteByte('\t')
		default: // " \ /
			sb.WriteRune(body[i])
		}
	}
	return sb.String()
}

type refParser struct {
	toks []tok
	pos  int
	out  map[string]string
}

func (p *refParser) peek() string {
	if p.pos < len(p.toks) {
		return p.toks[p.pos].kind
	}
	return "EOF"
}
func (p *refParser) next() tok { t := p.toks[p.pos]; p.pos++; return t }

func (p *refParser) expr(key string) bool {
	if p.peek() != "IDENT" {
		return false
	}
	name := p.next().text
	if p.peek() != "{" {
		return false
	}
	p.next()
	tk := "type"
	if key != "" {
		tk = key + ".type"
	}
	p.out[tk] = name
	if p.peek() == "IDENT" {
		for {
			if !p.inner(key) {
				return false
			}
			if p.peek() != "," {
				break
			}
			p.next()
			if p.peek() != "IDENT" {
				break // trailing comma
			}
		}
	}
	if p.peek() != "}" {
		return false
	}
	p.next()
	return true
}

func (p *refParser) inner(key string) bool {
	// fieldAccess
	if p.peek() != "IDENT" {
		return false
	}
	fk := p.next().text
	for {
		if p.peek() == "." {
			p.next()
			if p.peek() != "IDENT" {
				return false
			}
			fk += "." + p.next().text
		} else if p.peek() == "[" {
			p.next()
			if p.peek() != "INTEGER" {
				return false
			}
			fk += "[" + p.next().text
			if p.peek() != "]" {
				return false
			}
			p.next()
			fk += "]"
		} else {
			break
		}
	}
	if key != "" {
		fk = key + "." + fk
	}
	if p.peek() != "=" {
		return false
	}
	p.next()
	switch p.peek() {
	case "STRING":
		p.out[fk] = refUnquote(p.next().text)
	case "INTEGER", "FLOAT":
		p.out[fk] = p.next().text
	case "IDENT":
		if p.pos+1 < len(p.toks) && p.toks[p.pos+1].kind == "{" {
			return p.expr(fk)
		}
		p.out[fk] = p.next().text
	default:
		return false
	}
	return true
}

// refParse: (map, true) for well-formed input, (nil, false) otherwise; empty input -> (nil, true).
func refParse(in string) (map[string]string, bool) {
	if strings.TrimSpace(in) == "" {
		return nil, true
	}
	toks, ok := refLex(strings.TrimSpace(in))
	if !ok {
		return nil, false
	}
	p := &refParser{toks: toks, out: map[string]string{}}
	if !p.expr("") || p.pos != len(toks) {
		return nil, false
	}
	return p.out, true
}

func fmtMap(m map[string]string) string {
	ks := make([]string, 0, len(m))
	for k := range m {
		ks = append(ks, k)
	}
	sort.Strings(ks)
	var sb strings.Builder
	for _, k := range ks {
		fmt.Fprintf(&sb, "%q=%q;", k, m[k])
	}
	return sb.String()
}

func c17Check(in string) (string, []Violation, int) {
	var got map[string]string
	var err error
	var pn any
	func() {
		defer func() { pn = recover() }()
		got, err = expr.Parse(in)
	}()
	key := fmt.Sprintf("%q", in)
	if pn != nil {
		return "panic", []Violation{{Clause: "parser-panicked", Key: key, Detail: fmt.Sprintf("Parse(%q) panicked: %v", in, pn)}}, 1
	}
	want, ok := refParse(in)
	var v []Violation
	switch {
	case got != nil && err != nil:
		v = append(v, Violation{Clause: "map-and-error", Key: key, Detail: fmt.Sprintf("Parse(%q) returned both a map and an error", in)})
	case ok && err != nil:
		v = append(v, Violation{Clause: "wellformed-rejected", Key: c17Class(in), Detail: fmt.Sprintf("Parse(%q) = error %q; the grammar accepts it with result %s", in, firstLine(err.Error()), fmtMap(want))})
	case !ok && err == nil:
		v = append(v, Violation{Clause: "illformed-accepted", Key: key, Detail: fmt.Sprintf("Parse(%q) = %s, nil; the grammar rejects the input", in, fmtMap(got))})
	case ok && fmtMap(got) != fmtMap(want):
		v = append(v, Violation{Clause: "wrong-flattening", Key: key, Detail: fmt.Sprintf("Parse(%q) = %s, want %s", in, fmtMap(got), fmtMap(want))})
	}
	if ok {
		return "ok:" + fmtMap(want), v, 1
	}
	return "err", v, 1
}

// c17Class groups well-formed-but-rejected inputs by cause, so that a known finding is identified
// by the construct, not by every single input.
func c17Class(in string) string {
	toks, _ := refLex(strings.TrimSpace(in))
	for _, t := range toks {
		if t.kind == "STRING" {
			if strings.Contains(t.text, `\/`) {
				return `string literal with escape \/`
			}
			for _, r := range t.text {
				if r == '\n' {
					return "string literal with a raw newline"
				}
			}
		}
	}
	return fmt.Sprintf("%q", in)
}

func firstLine(s string) string {
	if i := strings.IndexByte(s, '\n'); i >= 0 {
		return s[:i]
	}
	return s
}

var c17Spacer = strings.NewReplacer(".", " .\t", "[", " [ ", "]", "\n]", "=", " = ", "{", " {\r\n", "}", " } ", ",", " , ")

var c17Lexemes = []string{"T", "k", "k2", "{", "}", "=", ",", ".", "[", "]", `"s\n\/\\\""`, "7", "-0x1F", "+.5e-3", "\"é\\t☺\xff\""}

func init() {
	definePart("C17", "c17/token-sequences", "qt", "every sequence of <= 5 tokens over 15 lexemes (two spacings) and of 6 tokens over 10 of them (thorough: <= 7 over all 15)",
		func(tier string, yield func(string)) {
			// quick: every sequence of <= 5 tokens over all 15 lexemes, and of exactly 6 tokens over the 10
			// lexemes that can form a complete expression of that length; thorough: <= 7 over all 15
			n, full := 6, 5
			if tier == "thorough" {
				n, full = 7, 7
			}
			reduced := []int{0, 1, 3, 4, 5, 6, 7, 10, 11, 14}
			idx := make([]int, n)
			var rec func(l, d int)
			rec = func(l, d int) {
				if d == l {
					ps := make([]string, l)
					for i := 0; i < l; i++ {
						ps[i] = c17Lexemes[idx[i]]
					}
					yield(strings.Join(ps, " "))
					if l <= 5 {
						yield(" \n" + strings.Join(ps, "\t \n") + " ")
					}
					return
				}
				if l <= full {
					for i := range c17Lexemes {
						idx[d] = i
						rec(l, d+1)
					}
				} else {
					for _, i := range reduced {
						idx[d] = i
						rec(l, d+1)
					}
				}
			}
			for l := 0; l <= n; l++ {
				rec(l, 0)
			}
		}, c17Check)
	// grammar-generated expressions with key collisions across nesting depths ("later assignments to the
	// same key win" must hold in SOURCE order whatever the depth the key is written at)
	definePart("C17", "c17/colliding-assignments", "qt", "every list of <= 3 (thorough 4) assignments from 12 forms that all write into the key space {a, a.b, a.b.c, a.type, a.b.type}, as the body of T{...}, two spacings",
		func(tier string, yield func(string)) {
			forms := []string{`a=1`, `a="s"`, `a=U{}`, `a=U{b=2}`, `a=U{b=V{c=3}}`, `a=U{b=2,b=4}`, `a.b=5`, `a.b=W{c=6}`, `a.b.c=7`, `a.type=X`, `a.b.type=Y`, `a[0].b=8`}
			n := 3
			if tier == "thorough" {
				n = 4
			}
			var rec func(cur []string)
			rec = func(cur []string) {
				if len(cur) > 0 {
					yield("T{" + strings.Join(cur, ",") + "}")
					yield("T {\n " + strings.Join(cur, " ,\n ") + ",\n}")
					// blanks / line breaks between ALL tokens, also inside field paths
					yield(c17Spacer.Replace("T{" + strings.Join(cur, ",") + "}"))
				}
				if len(cur) == n {
					return
				}
				for _, f := range forms {
					rec(append(cur, f))
				}
			}
			rec(nil)
		}, c17Check)
	// characters of 2, 3 and 4 bytes inside string literals BEFORE bare values, nested type names and paths: whoever
	// takes token texts by offset must count in the unit the lexer counts in
	definePart("C17", "c17/non-ascii-before-tokens", "qt", "a string literal holding 2-, 3- and 4-byte characters followed by every list of <= 2 assignments from 16 forms (bare identifiers, numbers, nested types, dotted and indexed paths), three spacings, as top-level body and inside a nested block",
		func(tier string, yield func(string)) {
			forms := []string{`a=1`, `a="s"`, `a=U{}`, `a=U{b=2}`, `a=U{b=V{c=3}}`, `a=U{b=2,b=4}`, `a.b=5`, `a.b=W{c=6}`, `a.b.c=7`, `a.type=X`, `a.b.type=Y`, `a[0].b=8`,
				`lv=info`, `n=-12`, `f=1.5e3`, `t=true`}
			for _, pre := range []string{`s="é"`, `s="日志"`, `s="€€€€"`, `s="\U0001F600x"`, `s="aé日😀"`, `s="é",r="日"`} {
				var rec func(cur []string)
				rec = func(cur []string) {
					if len(cur) > 0 {
						body := pre + "," + strings.Join(cur, ",")
						yield("T{" + body + "}")
						yield("T {\n " + strings.ReplaceAll(body, ",", " ,\n ") + ",\n}")
						yield(c17Spacer.Replace("T{" + body + "}"))
						yield("T{z=Z{" + body + "}," + cur[0] + "}")
					}
					if len(cur) == 2 {
						return
					}
					for _, f := range forms {
						rec(append(cur, f))
					}
				}
				rec(nil)
			}
		}, c17Check)
	alphabet := []string{"A", "a", "_", "0", "9", "x", "e", "E", "+", "-", ".", `"`, `\`, "/", "n", "u", "{", "}", "=", ",", "[", "]", " ", "\n", "é", "\xff"}
	definePart("C17", "c17/byte-strings", "qt", "every string of length <= 4 (thorough 5) over a 26-symbol alphabet, bare and as the value in T{k=...}",
		func(tier string, yield func(string)) {
			n := 4
			if tier == "thorough" {
				n = 5
			}
			var rec func(s string, d int)
			rec = func(s string, d int) {
				yield(s)
				yield("T{k=" + s + "}")
				if d == n {
					return
				}
				for _, a := range alphabet {
					rec(s+a, d+1)
				}
			}
			rec("", 0)
		}, c17Check)
	definePart("C17", "c17/ladders", "qt", "closed and unclosed nesting of depth 1..300 (thorough 2000), 1..2000 (thorough 10000) assignments, long literals up to 64 KiB",
		func(tier string, yield func(string)) {
			depth, width := 300, 2000
			if tier == "thorough" {
				depth, width = 2000, 10000
			}
			for _, d := range ladder(depth) {
				yield(strings.Repeat("T{a=", d) + "1" + strings.Repeat("}", d))
				yield(strings.Repeat("T{a=", d) + "1")
				yield(strings.Repeat("T{a=", d))
				yield(strings.Repeat("{", d))
				yield(strings.Repeat("a.", d) + "b")
				yield("T{" + strings.Repeat("a[0].", d) + "b=1}")
			}
			for _, w := range ladder(width) {
				var sb strings.Builder
				sb.WriteString("T{")
				for i := 0; i < w; i++ {
					fmt.Fprintf(&sb, "k%d=%d,", i%7, i)
				}
				sb.WriteString("}")
				yield(sb.String())
			}
			for _, n := range []int{1, 100, 4096, 65535} {
				yield(`T{k="` + strings.Repeat("x", n) + `"}`)
				yield(`T{k="` + strings.Repeat("x", n))
				yield("T{" + strings.Repeat("k", n) + "=1}")
				yield("T{k=" + strings.Repeat("9", n) + "}")
				yield(strings.Repeat("\xff", n))
				yield(strings.Repeat("\xff{", n/2))
				yield(strings.Repeat("+ ", n/2))
			}
		}, c17CheckIsolated)
}

func ladder(max int) []int {
	var out []int
	for d := 1; d <= max; {
		out = append(out, d)
		switch {
		case d < 20:
			d++
		case d < 200:
			d += 20
		default:
			d += d / 2
		}
	}
	return out
}

// c17CheckIsolated runs one case in a child process with an address-space limit, so that an input
// that makes the parser exhaust memory (which no recover() can catch) is reported as a violation
// instead of killing the shard. A child that does not finish within a very generous limit is
// counted as not decided (capped), never as a violation.
func c17CheckIsolated(in string) (string, []Violation, int) {
	cmd := exec.Command(os.Args[0], "c17child")
	cmd.Stdin = strings.NewReader(in)
	var out bytes.Buffer
	cmd.Stdout = &out
	done := make(chan error, 1)
	if err := cmd.Start(); err != nil {
		fmt.Fprintln(os.Stderr, "enum: cannot start child:", err)
		os.Exit(2)
	}
	go func() { done <- cmd.Wait() }()
	key := fmt.Sprintf("%d bytes starting %q", len(in), trunc(in, 24))
	select {
	case err := <-done:
		if err != nil {
			return "crash", []Violation{{Clause: "parser-crashed-process", Key: key,
				Detail: fmt.Sprintf("Parse on an input of %d bytes (%q...) killed the process: %v", len(in), trunc(in, 40), err)}}, 1
		}
	case <-time.After(10 * time.Minute):
		cmd.Process.Kill()
		return "undecided", nil, 1
	}
	var res struct {
		Obs string
		V   []Violation
	}
	if err := json.Unmarshal(out.Bytes(), &res); err != nil {
		fmt.Fprintln(os.Stderr, "enum: bad child output:", err)
		os.Exit(2)
	}
	return res.Obs, res.V, 1
}

// c17Child is the child side of c17CheckIsolated.
func c17Child() {
	lim := syscall.Rlimit{Cur: 6 << 30, Max: 6 << 30}
	syscall.Setrlimit(syscall.RLIMIT_AS, &lim)
	in, _ := io.ReadAll(os.Stdin)
	obs, v, _ := c17Check(string(in))
	b, _ := json.Marshal(map[string]any{"Obs": trunc(obs, 200), "V": v})
	os.Stdout.Write(b)
}
