#!/bin/bash
# usage: process_round.sh <round dir with C01..C20/{patch.diff,demo_test.go}> [ids...]
# For every delivery: confirm (demo passes without / fails with the patch, pinned suite still passes) and run the
# quick check of its property against it. One compact block per delivery.
dir=$(readlink -f "$1"); shift
here=$(dirname "$0")
ids=("$@"); [ ${#ids[@]} -eq 0 ] && ids=($(ls "$dir" | grep -E '^C[0-9]+$'))
for id in "${ids[@]}"; do
  if [ ! -f "$dir/$id/patch.diff" ] && [ -d "$dir/$id/a" ]; then
    # a delivery with two changes: <id>/a and <id>/b
    "$0" "$dir" "$id/a" "$id/b"
    continue
  fi
  [ -f "$dir/$id/patch.diff" ] || { echo "## $id: no delivery yet"; continue; }
  echo "## $id"
  "$here/confirm_seeded.sh" "$dir/$id" 2>&1 | grep -E "^demo on unchanged|PATCH DOES NOT" | cut -c1-200
  "$here/trymutant.sh" "$dir/$id/patch.diff" "${id%%/*}" 2>&1 | grep -E "^C[0-9]+ exit|DOES NOT|^    \(|^        \(" | head -5 | cut -c1-260
done
