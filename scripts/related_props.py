#!/usr/bin/env python3
"""Prints the ids of the properties whose code a patch touches: the anchor files of properties.jsonl, widened by
the files the checks of that property also exercise. A patch that adds a file touches every property.
usage: related_props.py <patch.diff>"""
import json, os, re, sys
here = os.path.dirname(os.path.dirname(os.path.abspath(__file__)))
extra = {
    "C01": ["log_event.go"], "C03": ["field_encoder.go", "log.go"], "C05": ["log.go", "log_logger.go"],
    "C07": ["log_event.go"], "C08": ["field.go", "log_event.go"], "C09": ["field.go", "plugin_layout.go"],
    "C10": ["plugin_layout.go", "log_event.go", "plugin_logger.go", "log_refresh.go"], "C11": ["log_event.go", "log_refresh.go"],
    "C12": ["plugin_appender.go", "log.go"], "C13": ["plugin_logger.go"], "C16": ["plugin_appender.go", "plugin.go"],
    "C19": ["plugin_logger.go"], "C20": ["plugin_layout.go", "log.go", "log_refresh.go"],
}
touched, added = set(), False
prev = None
for l in open(sys.argv[1]):
    m = re.match(r"^diff --git a/(\S+) b/(\S+)", l)
    if m:
        touched.add(m.group(2))
    if l.startswith("new file mode"):
        added = True
out = []
for l in open(os.path.join(here, "properties.jsonl")):
    p = json.loads(l)
    files = set(p["anchors"]["files"]) | set(extra.get(p["id"], []))
    if added or files & touched:
        out.append(p["id"])
print(" ".join(out))
