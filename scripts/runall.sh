#!/bin/bash
# Runs every registered check (tier from $1, default quick) and prints one summary line each.
tier=${1:-quick}
cd "$(dirname "$0")/.."
rc=0
for p in C01 C02 C03 C04 C05 C06 C07 C08 C09 C10 C11 C12 C13 C14 C15 C16 C17 C18 C19 C20; do
  out=$(scripts/vcheck run $p --tier $tier 2>&1); e=$?
  echo "$p exit=$e $(echo "$out" | tail -1 | cut -c1-200)"
  echo "$out" | grep -E "^(VIOLATION|KNOWN-FINDING)" | cut -c1-160
  [ $e -ne 0 ] && rc=1
done
exit $rc
