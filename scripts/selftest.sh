#!/bin/bash
# Applies every seeded change (seeded/<id>/patch.diff) to a scratch worktree and expects the quick check of
# its property to report a VIOLATION. Prints one line per change; exit 0 iff all are detected.
cd "$(dirname "$0")/.."
rc=0
for d in seeded/C*/; do
  id=$(basename "$d"); id=${id%-[2-9]}
  out=$(scripts/trymutant.sh "$d/patch.diff" "$id" 2>&1)
  if echo "$out" | grep -q "^$id exit=1"; then echo "$id DETECTED  $(echo "$out" | grep "^$id exit" | cut -c1-150)"; else echo "$id NOT-DETECTED $(echo "$out" | tail -2 | tr '\n' ' ' | cut -c1-200)"; rc=1; fi
done
exit $rc
