#!/bin/bash
# Applies every seeded change (seeded/<id>/patch.diff) to a scratch worktree and expects the quick check of
# its property to report a VIOLATION. Prints one line per change; exit 0 iff all are detected.
cd "$(dirname "$0")/.."
rc=0
for d in seeded/C*/; do
  id=$(basename "$d"); id=${id%%-*}
  # meta.json may name another property whose check owns the change ("selftest_check") or say why the change is
  # not a violation of the statement as read ("selftest_skip")
  skip=$(python3 -c "import json,sys; print(json.load(open(sys.argv[1])).get('selftest_skip',''))" "$d/meta.json" 2>/dev/null)
  if [ -n "$skip" ]; then echo "$(basename "$d") SKIPPED  $skip"; continue; fi
  alt=$(python3 -c "import json,sys; print(json.load(open(sys.argv[1])).get('selftest_check',''))" "$d/meta.json" 2>/dev/null)
  [ -n "$alt" ] && id=$alt
  out=$(scripts/trymutant.sh "$d/patch.diff" "$id" 2>&1)
  if echo "$out" | grep -q "^$id exit=1"; then echo "$id DETECTED  $(echo "$out" | grep "^$id exit" | cut -c1-150)"; else echo "$id NOT-DETECTED $(echo "$out" | tail -2 | tr '\n' ' ' | cut -c1-200)"; rc=1; fi
done
exit $rc
