#!/bin/bash
# Applies every seeded change (seeded/<id>/patch.diff) to a scratch worktree and expects the quick check of
# its property to report a VIOLATION. Prints one line per change; exit 0 iff all are detected.
cd "$(dirname "$0")/.."
rc=0
# usage: selftest.sh [seeded dir names...]   (default: all)
dirs=(seeded/C*/)
[ $# -gt 0 ] && { dirs=(); for a in "$@"; do dirs+=("seeded/$a/"); done; }
for d in "${dirs[@]}"; do
  id=$(basename "$d"); id=${id%%-*}
  # meta.json may name another property whose check owns the change ("selftest_check") or say why the change is
  # not a violation of the statement as read ("selftest_skip")
  skip=$(python3 -c "import json,sys; print(json.load(open(sys.argv[1])).get('selftest_skip',''))" "$d/meta.json" 2>/dev/null)
  if [ -n "$skip" ]; then echo "$(basename "$d") SKIPPED  $skip"; continue; fi
  alt=$(python3 -c "import json,sys; print(json.load(open(sys.argv[1])).get('selftest_check',''))" "$d/meta.json" 2>/dev/null)
  [ -n "$alt" ] && id=$alt
  # a change pinned to the commit it was written against (a later fix: commit touches the same lines): what that commit
  # ALONE makes the check report does not count - the change has to add a (scenario, clause) of its own
  base=$(python3 -c "import json,sys; print(json.load(open(sys.argv[1])).get('apply_to','HEAD'))" "$d/meta.json" 2>/dev/null)
  if [ -n "$base" ] && [ "$base" != "HEAD" ] && ! git -C /repo diff --quiet "$base" HEAD -- . 2>/dev/null; then
    bf=/tmp/selftest_base_${base}_${id}.txt
    [ -f "$bf" ] || { : > "$bf"; TRY_BASELINE=1 TRY_DUMP="$bf" scripts/trymutant.sh "$d/patch.diff" "$id" >/dev/null 2>&1; }
    mf=$(mktemp /tmp/selftest_mut_XXXX); out=$(TRY_DUMP="$mf" scripts/trymutant.sh "$d/patch.diff" "$id" 2>&1)
    own=$(sort -u "$mf" | comm -23 - <(sort -u "$bf") | head -3 | tr '\n' ';'); rm -f "$mf"
    if [ -n "$own" ]; then echo "$id DETECTED  (pinned to $base; beyond what the base alone reports: $own)"; else echo "$id NOT-DETECTED (pinned to $base: nothing beyond what the base alone reports) $(echo "$out" | tail -2 | tr '\n' ' ' | cut -c1-160)"; rc=1; fi
    continue
  fi
  out=$(scripts/trymutant.sh "$d/patch.diff" "$id" 2>&1)
  if echo "$out" | grep -q "^$id exit=1"; then echo "$id DETECTED  $(echo "$out" | grep "^$id exit" | cut -c1-150)"; else echo "$id NOT-DETECTED $(echo "$out" | tail -2 | tr '\n' ' ' | cut -c1-200)"; rc=1; fi
done
exit $rc
