#!/usr/bin/env python3
"""Run the repository's pinned test suite (guard off: plain `go test`) and compare with BASELINE.json.
usage: baseline.py [repo-dir]   exit 0 iff every stable_pass test passes."""
import json, os, subprocess, sys
repo = sys.argv[1] if len(sys.argv) > 1 else "/repo"
env = dict(os.environ, GOFLAGS="-mod=mod", GOPROXY="off")
env.pop("GOTOOLCHAIN", None); env.pop("GOSUMDB", None)
base = json.load(open("/root/.vp/BASELINE.json"))
want = set(base["stable_pass"])
p = subprocess.run(["go", "test", "-json", "-vet=off", "-count=1", "-timeout", "25m", "./..."], cwd=repo, env=env,
                   stdout=subprocess.PIPE, stderr=subprocess.PIPE, text=True)
res = {}
for line in p.stdout.splitlines():
    try:
        e = json.loads(line)
    except Exception:
        continue
    if e.get("Test") and e.get("Action") in ("pass", "fail", "skip"):
        res[e["Package"] + "::" + e["Test"]] = e["Action"]
missing = sorted(t for t in want if res.get(t) != "pass")
newfail = sorted(t for t, a in res.items() if a == "fail" and t not in want)
print("baseline: %d/%d stable tests pass; other failing tests: %s" % (len(want) - len(missing), len(want), newfail))
if missing:
    print("NOT PASSING:", missing)
    if not res:
        print(p.stdout[-3000:], p.stderr[-3000:])
    sys.exit(1)
