#!/usr/bin/env python3
"""Writes the prompts handed to the independent sub-agents of a seeded round (one per property):
the property text from properties.jsonl, the path of the agent's own scratch worktree, and one line per
EARLIER seeded change of that property (its mechanism, from seeded/<id>*/meta.json) so that the new
changes look elsewhere. Nothing else from /verif goes into a prompt.
usage: mkprompts.py <round number> <out dir, e.g. /tmp/r9> <worktree dir, e.g. /tmp/r9wt>"""
import json, os, sys, glob

rnd, out, wt = sys.argv[1], sys.argv[2], sys.argv[3]
here = os.path.dirname(os.path.dirname(os.path.abspath(__file__)))
props = [json.loads(l) for l in open(os.path.join(here, 'properties.jsonl'))]
os.makedirs(os.path.join(out, 'prompts'), exist_ok=True)

TEMPLATE = open(os.path.join(here, 'scripts', 'prompt_seeded.txt')).read()

def num(d):
    b = os.path.basename(d)
    return int(b.split('-')[1]) if '-' in b else 1

for p in props:
    pid = p['id']
    earlier = []
    for d in sorted(glob.glob(os.path.join(here, 'seeded', pid + '*')), key=num):
        b = os.path.basename(d)
        if b != pid and not b.startswith(pid + '-'):
            continue
        try:
            m = json.load(open(os.path.join(d, 'meta.json')))
        except Exception:
            continue
        earlier.append('  - ' + m.get('needs_to_manifest', '').strip())
    anchors = (p.get('anchors') or {}).get('files', [])
    txt = TEMPLATE
    for k, v in {
        '@ID@': pid, '@OUT@': out, '@WT@': wt, '@TITLE@': p.get('title', ''),
        '@STATEMENT@': p.get('statement') or p.get('description') or '',
        '@QUANT@': (p.get('quantifier') or {}).get('text', ''),
        '@ANCHORS@': ', '.join(anchors), '@EARLIER@': '\n'.join(earlier), '@ROUND@': rnd,
    }.items():
        txt = txt.replace(k, str(v))
    open(os.path.join(out, 'prompts', pid + '.txt'), 'w').write(txt)
    os.makedirs(os.path.join(out, pid), exist_ok=True)
print('wrote', len(props), 'prompts to', os.path.join(out, 'prompts'))
