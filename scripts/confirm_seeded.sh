#!/bin/bash
# usage: confirm_seeded.sh <dir with patch.diff + demo_test.go> [go test flags...]
# Confirms in a scratch worktree of /repo HEAD: demo passes on the unchanged tree, patch applies, the
# pinned suite still passes with the patch, demo fails with the patch. Removes the worktree afterwards.
dir=$(readlink -f "$1"); shift
export GOFLAGS=-mod=mod GOPROXY=off
wt=$(mktemp -d /tmp/wt_conf_XXXX); rmdir "$wt"
# the tree the change was written against: meta.json "apply_to" next to the patch (default HEAD)
base=HEAD
[ -f "$dir/meta.json" ] && base=$(python3 -c "import json,sys; print(json.load(open(sys.argv[1])).get('apply_to','HEAD'))" "$dir/meta.json")
git -C /repo worktree add -q --detach "$wt" "$base" || exit 2
out=$(mktemp /tmp/confirm_out_XXXX)
trap 'git -C /repo worktree remove --force "$wt"; rm -f "$out"' EXIT
pkg=.
if [ -f "$dir/demo/main.go" ]; then
  put() { mkdir -p "$wt/zz_demo" && cp "$dir/demo/main.go" "$wt/zz_demo/main.go"; }
  unput() { rm -rf "$wt/zz_demo"; }
  run() { ( cd "$wt" && timeout 900 go run ./zz_demo "$@" >"$out" 2>&1 ); }
else
  head -30 "$dir/demo_test.go" | grep -q "^package expr" && pkg=./expr
  put() { cp "$dir/demo_test.go" "$wt/$pkg/zz_demo_test.go"; }
  unput() { rm -f "$wt/$pkg/zz_demo_test.go"; }
  run() { ( cd "$wt" && timeout 900 go test -vet=off -count=1 -run 'Test.*Demo|TestMut' "$@" $pkg >"$out" 2>&1 ); }
fi
put
run "$@"; a=$?
git -C "$wt" apply "$dir/patch.diff" || { echo "PATCH DOES NOT APPLY"; exit 2; }
unput
base=$("$(dirname "$0")/baseline.py" "$wt" | head -1)
put
run "$@"; b=$?
echo "demo on unchanged tree: exit=$a (want 0); with patch: exit=$b (want !=0); $base"
tail -5 "$out" | cut -c1-200
[ $a -eq 0 ] && [ $b -ne 0 ]
