#!/usr/bin/env python3
"""Generates MANIFEST.json from the table below (single source of truth for the registered checks)."""
import json, os
V = os.path.dirname(os.path.dirname(os.path.abspath(__file__)))
props = [json.loads(l) for l in open(os.path.join(V, "properties.jsonl"))]

SCHED_NOTE = ("Trusted: the Go toolchain; the instrumenter's rewrite rules and the shims in vrt/ (channels, sync.Pool, atomics, "
              "in-memory filesystem, virtual clock); steps between two scheduling points are atomic (plain-memory races finer than "
              "the hooked operations are not modelled); 2-3 threads and the stated preemption/deviation bounds, not 64 goroutines.")

CHECKS = {
 "C03": dict(
    text="Stateless model checking of the real layouts/appenders/loggers under a cooperative scheduler: every schedule of 2-3 "
         "logging goroutines (1-2 events each, short and beyond-cap lines) with <=2 preemptions (thorough: 3 + one sync.Pool miss) "
         "over console/file/rolling/fan-out/built-in sinks x both layouts, with a sink that consumes the slice in two steps. "
         "Oracle: multiset of sink writes and file contents == lines of the same events formatted alone. Exhaustive within the bounds.",
    note=SCHED_NOTE, technique="stateless model checking (controlled scheduler, preemption-bounded DFS over the instrumented implementation)",
    design="DESIGN.md section 3 C03"),
 "C04": dict(
    text="Stateless model checking of the real AsyncLogger (minimum buffer 100) under the cooperative scheduler: all schedules (<=2 preemptions, thorough 3) of 2-3 producers x 1-2 operations (events, events below the logger's level, raw writes) racing the worker at occupancies 0/98/99/100 for the three overflow policies, with a free, token-gated or parked (slow appender) worker; after Stop: no item twice, no unknown item, delivered + GetDiscardCounter() == submitted, Block => counter 0 and everything delivered.",
    note=SCHED_NOTE, technique="stateless model checking (controlled scheduler, preemption-bounded DFS over the instrumented implementation)", design="DESIGN.md section 3 C04"),
 "C05": dict(
    text="Stateless model checking: (a) AsyncLogger.Stop against the draining worker at occupancies 0,1,2,50,98,99,100 (thorough: every 0..100) x 3 policies x worker idle / mid-append / parked behind a gate a helper opens: no deadlock, everything accepted is at the appender when Stop returns; (c) RollingFileAppender under rotation on the in-memory filesystem: no descriptor left after Stop (called twice), at most 2 descriptors whenever no write is in progress.",
    note=SCHED_NOTE, technique="stateless model checking (controlled scheduler, preemption/tick-bounded DFS over the instrumented implementation)", design="DESIGN.md section 3 C05"),
 "C06": dict(
    text="Stateless model checking of the real AsyncLogger: the C04 schedules with the per-producer-order oracle (delivered items of one goroutine are a subsequence in submission order, events and raw writes alike) and, with the appender parked for the whole production phase, Discard/DiscardOldest log calls still return (a waiting call is a deadlock outcome).",
    note=SCHED_NOTE, technique="stateless model checking (controlled scheduler, preemption-bounded DFS over the instrumented implementation)", design="DESIGN.md section 3 C06"),
 "C12": dict(
    text="Stateless model checking of raw Write through the AsyncLogger with callers that overwrite their buffer after every call: 1-2 writers x 2-3 writes, 1-2 appenders, appender-reference level settings '', ERROR, INFO~WARN, 3 policies, a slow appender; every appender sees each payload exactly once, unaltered, in per-writer order.",
    note=SCHED_NOTE, technique="stateless model checking (controlled scheduler, preemption-bounded DFS over the instrumented implementation)", design="DESIGN.md section 3 C12"),
 "C13": dict(
    text="Stateless model checking of the real RollingFileAppender on an in-memory filesystem and virtual clock: all schedules (<=2 preemptions) x all placements of <=2-3 interval boundaries (the clock may cross a boundary at any time.Now call) of 1-2 writers x 2-3 writes, a pre-existing file, a Stop/Start cycle; every id exactly once over all files, file names name.<14 digits>, append-only opens, no write older than its file's name, single writer: a write after a boundary lands in a file of the new interval. Two known findings (writer or rotation suspended across two rotations) are matched by history predicates.",
    note=SCHED_NOTE, technique="stateless model checking (controlled scheduler + virtual clock, preemption/tick-bounded DFS over the instrumented implementation)", design="DESIGN.md section 3 C13"),
 "C19": dict(
    text="Fault enumeration on top of the C13 model checking: every filesystem call (open, write, sync, close, readdir, remove) may fail (ENOENT / EIO / short write) within a fault budget of 2 (thorough 3), combined with boundary placements and schedules: no panic, no blocked call; when only creations fail nothing is lost and a later interval attempts creation again.",
    note=SCHED_NOTE, technique="stateless model checking with exhaustive fault injection (deviation-bounded DFS)", design="DESIGN.md section 3 C19"),
}

m = {
 "version": 1,
 "setup_cmd": "scripts/vcheck setup",
 "hooks": {
  "guard": "none: instrumentation is generated from /repo's working tree at check time and substituted with `go build -overlay`; nothing is committed to go-spring/log",
  "enable": "scripts/vcheck runs cmd/instrument (type-directed source rewriting of sync/atomic/os/time imports, channels, select, go, map ranges) and builds the harness with -overlay, adding the virtual package github.com/go-spring/log/zzvrt and in-package reset/accessor files",
  "baseline_off_cmd": "cd /repo && GOFLAGS=-mod=mod GOPROXY=off go test -json -vet=off -count=1 -timeout 25m ./...",
  "source_commits": [],
  "add_only": True,
 },
 "engines": [
  {"name": "zzvrt", "path": "vrt/", "serves_properties": ["C03","C04","C05","C06","C12","C13","C14","C19","C20"],
   "kind_free_text": "hand-written stateless model checker for Go: cooperative scheduler + preemption/deviation-bounded DFS over choice prefixes, shims for channels/select/sync/atomic/os/time, virtual clock and in-memory filesystem with fault and crash injection"},
  {"name": "instrument", "path": "cmd/instrument", "serves_properties": ["C03","C04","C05","C06","C12","C13","C14","C19","C20"],
   "kind_free_text": "go/types-directed source-to-source instrumenter; output substituted by go build -overlay"},
 ],
 "checks": [], "not_applicable": [],
 "notes": "All checks: scripts/vcheck run <ID> [--tier quick|thorough]; VERIF_REPO selects the tree (default /repo). Exit 2 = check broken (never a verdict).",
}
for p in props:
    pid = p["id"]
    if pid in CHECKS:
        c = CHECKS[pid]
        m["checks"].append({
            "property_id": pid,
            "quick_cmd": "scripts/vcheck run %s --tier quick" % pid,
            "thorough_cmd": "scripts/vcheck run %s --tier thorough" % pid,
            "evidence_file": "/verif/evidence/%s.json" % pid,
            "replay_cmd_template": "scripts/vcheck replay {path}",
            "engine": c.get("engine", "zzvrt"),
            "level_claimed": {"category": "model_checking", "text": c["text"], "design_ref": c["design"]},
            "level_note": c["note"],
            "technique": c["technique"],
        })
    else:
        m["not_applicable"].append({"property_id": pid, "reason": "check not built yet (work in progress; see DESIGN.md section 7 for the order of work)"})
json.dump(m, open(os.path.join(V, "MANIFEST.json"), "w"), indent=1)
print("checks:", [c["property_id"] for c in m["checks"]])
