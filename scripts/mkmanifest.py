#!/usr/bin/env python3
"""Generates MANIFEST.json from the table below (single source of truth for the registered checks)."""
import json, os
V = os.path.dirname(os.path.dirname(os.path.abspath(__file__)))
props = [json.loads(l) for l in open(os.path.join(V, "properties.jsonl"))]

SCHED_NOTE = ("Trusted: the Go toolchain; the instrumenter's rewrite rules and the shims in vrt/ (channels, sync.Pool, atomics, "
              "in-memory filesystem, virtual clock); scheduling points sit before every hooked operation and after every publishing "
              "atomic / sync.Map operation, the code between two points is one atomic step (plain-memory races finer than that are "
              "left to the complementary free-running -race pass); 2-3 threads and the stated preemption/deviation bounds, not 64 goroutines.")

CHECKS = {
 "C03": dict(
    text="Stateless model checking of the real layouts/appenders/loggers under a cooperative scheduler: every schedule of 2-3 "
         "logging goroutines (1-2 events each, short and beyond-cap lines) with <=2 preemptions (thorough: 3 + one sync.Pool miss) "
         "over console/file/rolling/fan-out/built-in sinks x both layouts, with a sink that consumes the slice in two steps. "
         "Oracle: multiset of sink writes and file contents == lines of the same events formatted alone. Exhaustive within the bounds. Complementary (sampling, separately labelled): the same kind of bodies run free with 8 real goroutines on the uninstrumented package under the race detector; a race report with a library frame or a line that differs from the solo line is a violation.",
    note=SCHED_NOTE, technique="stateless model checking (controlled scheduler, preemption-bounded DFS over the instrumented implementation)",
    design="DESIGN.md section 3 C03"),
 "C04": dict(
    text="Stateless model checking of the real AsyncLogger (minimum buffer 100) under the cooperative scheduler: all schedules (<=2 preemptions, thorough 3) of 2-3 producers x 1-2 operations (events, events below the logger's level, raw writes) racing the worker at occupancies 0/98/99/100 for the three overflow policies, with a free, token-gated or parked (slow appender) worker; after Stop: no item twice, no unknown item, delivered + GetDiscardCounter() == submitted, Block => counter 0 and everything delivered.",
    note=SCHED_NOTE, technique="stateless model checking (controlled scheduler, preemption-bounded DFS over the instrumented implementation)", design="DESIGN.md section 3 C04"),
 "C05": dict(
    text="Stateless model checking: (a) AsyncLogger.Stop against the draining worker at occupancies 0,1,2,50,98,99,100 (thorough: every 0..100) x 3 policies x worker idle / mid-append / parked behind a gate a helper opens: no deadlock, everything accepted is at the appender when Stop returns; (b) every logger kind reachable through Refresh (sync, async, Console, File, Discard, RollingFile x separate x async x policies) on the in-memory filesystem: events + raw write, Destroy (twice): everything accepted is readable from the target, no descriptor left; (c) RollingFileAppender under rotation: no descriptor left after Stop (called twice), at most 2 descriptors whenever no write is in progress.",
    note=SCHED_NOTE, technique="stateless model checking (controlled scheduler, preemption/tick-bounded DFS over the instrumented implementation)", design="DESIGN.md section 3 C05"),
 "C06": dict(
    text="Stateless model checking of the real AsyncLogger: the C04 schedules with the per-producer-order oracle (delivered items of one goroutine are a subsequence in submission order, events and raw writes alike) and, with the appender parked for the whole production phase, Discard/DiscardOldest log calls still return (a waiting call is a deadlock outcome).",
    note=SCHED_NOTE, technique="stateless model checking (controlled scheduler, preemption-bounded DFS over the instrumented implementation)", design="DESIGN.md section 3 C06"),
 "C12": dict(
    text="Stateless model checking of raw Write through the AsyncLogger with callers that overwrite their buffer after every call: 1-2 writers x 2-3 writes, 1-2 appenders, appender-reference level settings '', ERROR, INFO~WARN, 3 policies, a slow appender; every appender sees each payload exactly once, unaltered, in per-writer order. Sequential part (enumeration): all sequences of <=3 writes over 5 payloads (empty, binary, multi-line, 12 KB) with buffer reuse x sync/async x layout x 1-2 references x level settings, handle identity, Refresh fails for an unconfigured requested name; raw writes through every logger kind (logger-kinds family).",
    note=SCHED_NOTE, technique="stateless model checking (controlled scheduler, preemption-bounded DFS over the instrumented implementation)", design="DESIGN.md section 3 C12"),
 "C13": dict(
    text="Stateless model checking of the real RollingFileAppender on an in-memory filesystem and virtual clock: all schedules (<=2 preemptions) x all placements of <=2-3 interval boundaries (the clock may cross a boundary at any time.Now call) of 1-2 writers x 2-3 writes, a pre-existing file, a Stop/Start cycle; every id exactly once over all files, file names name.<14 digits>, append-only opens, no write older than its file's name, single writer: a write after a boundary lands in a file of the new interval. Model<->OS: every execution of three conformance scenarios (14 k traces in the quick tier) is replayed call by call against a real temporary directory (same error class per call, same directory listing and file contents at the end).",
    note=SCHED_NOTE, technique="stateless model checking (controlled scheduler + virtual clock, preemption/tick-bounded DFS over the instrumented implementation)", design="DESIGN.md section 3 C13"),
 "C19": dict(
    text="Fault enumeration on top of the C13 model checking: every filesystem call (open, write, sync, close, readdir, remove) may fail (ENOENT / EIO / short write) within a fault budget of 2 (thorough 3), combined with boundary placements and schedules: no panic, no blocked call; when only creations fail nothing is lost and a later interval attempts creation again. Second clause: a family of 15 appender kind x target state cases (File/RollingFile never started, Start failed on a missing directory, stopped, stopped twice, directory removed, healthy; console stream that errors / writes short) x Append/Write x boundaries x failing creations: no panic, every call returns.",
    note=SCHED_NOTE, technique="stateless model checking with exhaustive fault injection (deviation-bounded DFS)", design="DESIGN.md section 3 C19"),
 "C14": dict(
    text="Stateless model checking over a family of directory populations: every set of <=3 (thorough 4) entries from a 13-name alphabet (own rotated files, name.wf.<ts>, name.audit.<ts>, name.bak, name.1.gz, 13/15-digit and non-digit suffixes, bare name, foreign file, look-alike directory) x 4 ages around the cut-off x max ages 1/24/168/720 h, for the appender and its .wf sibling; the cleanup is triggered by a real rotation on the in-memory filesystem and its goroutine is interleaved with a further write (P<=1). Oracle: exact survivor set.",
    note=SCHED_NOTE, technique="explicit enumeration of directory states + stateless model checking of the cleanup goroutine (controlled scheduler)", design="DESIGN.md section 3 C14"),
 "C20": dict(
    text="Crash-point enumeration: every scheduling point of every schedule (P<=1, thorough 2) of 1-2 threads x 2-3 log calls through a synchronous logger onto File / RollingFile / console stream (backed by an in-memory file) x both layouts is tried as the point where the process dies (no deferred code, no Stop); every acknowledged line must be in the target, whole, and the target holds only whole lines. Model<->OS: 30 uninstrumented child processes on real files (3 appender kinds x 2 layouts) are SIGKILLed after exactly k = 0..4 acknowledged calls and checked with the same oracle; the vfs call logs of three scenarios are replayed on the real filesystem.",
    note=SCHED_NOTE + " Process death only (what completed write calls left in the file), not power loss.", engine="zzvrt+enum", technique="stateless model checking with exhaustive crash-point injection", design="DESIGN.md section 3 C20"),
 "C01": dict(
    text="Bounded-exhaustive enumeration through the public Refresh/Record API against a level-range reference model: the range language (all 'A', 'A~B' over 11 names in three cases + unknown names, Enable on 17 codes); every sequence of 1-3 (thorough 4) appender references over 31 level shapes x 6 logger ranges x 11 event levels with exact delivery counts; 15 entry points x ranges cutting below/at/above their level; async/layout kinds; plus the logger-kinds family (Console, File, RollingFile with/without separate .wf and async) on the in-memory filesystem under the scheduler.",
    note="Trusted: the reference model in harness/enum/c01.go; explicit '~MAX' upper bounds, one appender referenced twice and ranges with inner blanks are excluded as ambiguous. " + SCHED_NOTE,
    technique="explicit-state enumeration of configurations x events against a reference model (real code driven through the public API)", design="DESIGN.md section 3 C01", engine="enum+zzvrt"),
 "C02": dict(
    text="Bounded-exhaustive enumeration of routing configurations: 10 registered tags sharing prefixes x every assignment of tag lists (<=2 patterns from 16 literals/wildcards/malformed wildcards, with blanks and duplicate separators) to 2 loggers, single patterns to 3 (thorough: <=2 on 3 loggers, single on 4) x root none/plain/with-tags; Refresh error-ness and the serving logger of every tag compared with a longest-prefix router model (exactly one recorder receives each event). Map iteration order: in the instrumented build every `for range` over a map inside Refresh/Destroy goes through an explorer-controlled order; 456 routing configurations are run under EVERY single deviation (thorough: pairs on a subset) of every map iteration and must give the same verdict.",
    note="Trusted: the router model in harness/enum/c02.go and harness/sched/maporder.go. The empty-prefix wildcard '_*' is excluded. Map-order exploration covers single (thorough: some double) deviations from ascending order, not all permutations.",
    technique="explicit-state enumeration of configurations against a reference router model", design="DESIGN.md section 3 C02", engine="enum+zzvrt"),
 "C07": dict(
    text="Bounded-exhaustive enumeration: every field list of <=2 (thorough 3) fields over 130+ constructor cases (every public constructor, every Any dispatch arm, boundary numbers, NaN/Inf, hostile keys/strings, Reflect, custom Array, Object to depth 4, FieldsFromMap) x context string/fields through the real JSON layout; the line is tokenised order- and duplicate-preserving with encoding/json and compared with a reference value tree (integers exact, floats bit-exact, strings with U+FFFD replacement). Plus every grammatical encoder call sequence of <=9 (thorough 11) calls against a reference writer.",
    note="Trusted: encoding/json's tokenizer, the reference value tree in harness/enum/enc.go. Values outside the alphabet are not covered.",
    technique="explicit-state enumeration (encoder call sequences) + small-scope input enumeration against a reference writer", design="DESIGN.md section 3 C07", engine="enum"),
 "C08": dict(
    text="The same field lists through the real text layout: the line must equal the fixed header plus key=value pairs derived from the JSON layout's own tokens for the same event (string-like values unquoted, everything else byte-identical), contain no raw control byte; every grammatical encoder call sequence at the top level of the text encoder (twice, so a missing reset shows); 8 levels x 6 instants x 4 zones; file:line lengths 2..62 x widths -5..12,47,48,49,200 with the '...'+last max(W-3,0) rule and no panic.",
    note="Trusted: the JSON tokens of C07 as reference. A trailing '||' after the context string when there are no fields is tolerated.",
    technique="explicit-state enumeration + differential check against the JSON layout", design="DESIGN.md section 3 C08", engine="enum"),
 "C09": dict(
    text="Exhaustive: WriteLogString on every byte string of length <=3 (thorough <=4: 4.3e9) over all 256 byte values and of length <=6 (7) over 14 UTF-8 boundary bytes, decoded by a strict hand-written JSON string decoder (cross-checked against encoding/json) and compared with the input under U+FFFD replacement; memorylessness (esc(a+b)=esc(a)+esc(b) at rune boundaries); AppendKey/AppendString of both encoders on all strings of length <=2; context independence (every x of <=2 bytes inside plain-ASCII prefixes/suffixes of 12 lengths up to 33, which rules out wider look-ahead); a complementary free-running -race pass (8 goroutines escaping concurrently; sampling) for shared scratch state.",
    note="Trusted: the 60-line reference decoder in harness/enum/c09.go (itself checked against encoding/json). Longer strings are covered by the memorylessness argument, not enumerated.",
    technique="exhaustive input enumeration against a reference decoder", design="DESIGN.md section 3 C09", engine="enum"),
 "C10": dict(
    text="Complete finite product: 15 entry points x serving logger (built-in before Refresh, sync, async, sync whose reference filters the event) x range below/at/above x 8 hook subsets x 4 contexts incl. nil: hook and lazy-generator call counts, the context they receive, the hook's time / string / fields in the recorded event and their order in the formatted line.",
    note="Trusted: counting hooks; async loggers are observed after Destroy.", technique="exhaustive enumeration of a finite product of configurations", design="DESIGN.md section 3 C10", engine="enum"),
 "C11": dict(
    text="Complete finite product over generated call sites: 16 entry-point forms (Record with skip 1 and 2) x 7 call shapes (plain, closure, deferred closure, goroutine, method value, generic helper, inlinable helper) x {default, fast} x {first, repeated call = cache hit} x enableCaller on/off set through Refresh, each case after a history of records logged with caller lookup on (recycled events, cached frames); oracle: runtime.Caller evaluated on the line directly above the call (inlining left on).",
    note="Trusted: runtime.Caller; the generated file harness/enum/c11_sites.go.", technique="exhaustive enumeration of a finite product of programs x configurations", design="DESIGN.md section 3 C11", engine="enum"),
 "C15": dict(
    text="Bounded-exhaustive enumeration around 5 base configurations covering every registered appender and logger type and element shape: all single deviations (thorough: all pairs) - key respelled kebab/snake, ${prop} present/absent, attribute removed (default or error), ill-typed values incl. int32 overflow, alternative values, sub-tree inline as a name! expression - with expected error-ness and a reflection dump of the instantiated plugins compared with the base; totality: every key deleted / every value replaced by 14 hostile strings / every key mangled 10 ways -> nil or error, never a panic, and a valid configuration loads after Destroy; every registered type from its minimal configuration; the logger-kinds family and a map-iteration-order family (properties applied, routing unchanged under every single deviation of every map iteration in Refresh) under the scheduler.",
    note="Trusted: the deviation table (expected defaults) in harness/enum/c15.go. Contradictory duplicates (same key under two spellings) are excluded. " + SCHED_NOTE,
    technique="small-scope enumeration of configurations against expected outcomes + differential comparison", design="DESIGN.md section 3 C15", engine="enum+zzvrt"),
 "C16": dict(
    text="Explicit-state enumeration: ALL operation sequences of length <=5 (thorough 6) over 12 operations (Refresh valid sync / valid async / failing early / failing after validation / failing after binding, Destroy, log enabled/disabled, write via handle, register tag, obtain handle aux / ghost), each replayed on a reset package and followed by a fixed probe, compared step by step with a lifecycle model: no panic, guard behaviour, idempotent Destroy, sink of every item, Destroy+Refresh(valid) routes as configured.",
    note="Trusted: the lifecycle model in harness/enum/c16.go. After a failed Refresh an item may reach the console or the failed configuration's sink (the statement is silent); async sinks are observed after the final Destroy.",
    technique="explicit-state search over operation sequences against a reference lifecycle model", design="DESIGN.md section 3 C16", engine="enum"),
 "C17": dict(
    text="Bounded-exhaustive enumeration against a reference lexer + recursive-descent flattener transcribed from Expr.g4: every token sequence of <=6 (thorough 7) tokens over 14 lexemes in two spacings, every string of length <=4 (5) over a 26-symbol alphabet bare and inside T{k=...}, every list of <=3 (4) assignments from 12 forms that write into one key space at several nesting depths (source-order 'later wins'), nesting/width ladders and 64 KiB inputs run in child processes with an address-space limit (a process crash is a violation).",
    note="Trusted: the reference grammar in harness/enum/c17.go. Inputs are compared as rune sequences (invalid bytes read as U+FFFD). 64 KiB inputs only along one-parameter ladders.",
    technique="small-scope input enumeration against a reference parser", design="DESIGN.md section 3 C17", engine="enum"),
 "C18": dict(
    text="Exhaustive: the tag predicate on every string of length <=7 (thorough 8) over a 10-symbol alphabet against the documented language; all segment compositions of total length 2..38 into 1..5 segments with leading/trailing/doubled underscores; every byte 0..255 at each position of 3 valid tags; RegisterTag on every string of length <=4 (5) twice with the registry compared with a set model; app/biz/rpc helpers on a 7-part alphabet.",
    note="Trusted: the hand-written recogniser (cross-checked with a regular expression).", technique="exhaustive input enumeration against a reference recogniser + registry model", design="DESIGN.md section 3 C18", engine="enum"),
}

# additions of later rounds, appended to the texts above
EXTRA = {
 "C03": " Also 2 threads x 2 events on a rolling appender while the clock crosses up to two interval boundaries at any clock read (P<=1, thorough 2): every acknowledged line present exactly once, no foreign line.",
 "C05": " (d) Destroy after a Refresh that failed half-way: for every file-touching logger kind (plus an async logger next to a second logger) file creations fail at any point of Refresh (F<=1, thorough 2); the Destroy that follows returns, the same configuration then loads, and what is logged through it is readable after its Destroy.",
 "C06": " The directed operation sequences also submit events of TRACE / ERROR / PANIC / FATAL level (op 'F', sequences one shorter): the queue treats every level alike.",
 "C07": " With context fields the slice handed to the layout is a prefix of a longer backing array (spare capacity) shared with a parent event that is formatted first: a layout that writes into the slices it is given corrupts the event under test.",
 "C08": " Context-field slices share a backing array with spare capacity with a parent event formatted first (see C07).",
 "C10": " Two further serving loggers (sync and async) fan out to the recorder plus one appender of every built-in type (Console, File, RollingFile, Discard): 7680 cases.",
 "C11": " Cache populations: P distinct call sites (the 112 generated ones plus up to 1500 generated fillers) log once each and then each again, P on a ladder 1..1612, both modes. Under the scheduler: two goroutines logging from different statements (two records each, cold/warm cache, both modes, P<=2).",
 "C13": " Further scenarios let a clock tick land exactly on a boundary, 1 ms after it or 45 minutes into the interval, and let file creations (only) fail.",
 "C14": " Histories: (i) an appender quiet for longer than the maximum age while creations fail: the live file stays; (ii) one appender over up to 4 (thorough 5) half-interval clock steps (landing 1 ms or 15 min after the step) and 5 (6) writes, i.e. several cleanups racing the writes (P<=1): every removal in the filesystem log concerns an own rotated file that is not the one being written and whose modification time AT THAT MOMENT is older than the maximum age; at the end every own file older than (last rotation - max age) is gone and every line younger than the maximum age is readable.",
 "C15": " Absolute reference for 'else its declared default': the declaration is read from the struct tags of the live plugin instances; every attribute/element the configuration does not mention holds its declared default (string/integer/bool kinds, default element type and its own defaults, optional elements nil) and no element instance is shared between plugins; every case starts after a history that configured a layout away from its defaults.",
 "C18": " Histories: all strings of length <=5 evaluated ascending and then descending in one process (the second pass after every other string has been evaluated); composition groups are checked in one process and once more at the end; RegisterTag on every string of length <=3 (4) after every valid name of that length has been registered.",
 "C20": " Further scenarios: interval boundaries with failing creations before the crash point; one (thorough two) write calls refused as a whole (EIO) before the crash point - only the refused call's own line is excused.",
}
# round 5
EXTRA5 = {
 "C03": " Every scheduler scenario also yields AFTER each publishing atomic / sync.Map operation (post-publication points), so that 'publish, then initialise' windows are explored.",
 "C04": " Stop racing the drain: backlog 0/2/50/99 plus one producer (free worker), backlog 3 with a slow worker released at an explored moment: the conservation equation at the moment Stop returns.",
 "C05": " (e) one appender shared by two loggers (sync+async on a File, two async on a RollingFile, async+sync on the console): Destroy's stop order is an explored choice (map-iteration seam), everything accepted by either logger is readable afterwards.",
 "C07": " json.Marshaler / TextMarshaler values (indented, blank-padded RawMessage, invalid, truncated, empty, two values, raw line break, pointer receiver, nested in a struct, map keys) through Reflect and Any: one valid line, compacted like encoding/json, invalid output described by a string.",
 "C08": " The marshaler cases of C07 as well.",
 "C09": " Position independence over long inputs: 456 strings (every single byte, all pairs over 14 boundary bytes, runes and truncated runes) after n repetitions of each of 6 units (plain byte, 2-byte escape, 6-byte escape, 2-byte rune, invalid byte, quote) for EVERY n in 0..300 (thorough 1100): the output equals the concatenation of the parts' escapes, so any staging buffer of up to 256 (1024) bytes is crossed at every alignment.",
 "C10": " Histories: the built-in logger after a configuration with a range below/at/above the event's level was live and destroyed; a sync (async) logger after an async (sync) configuration with the opposite verdict for the level: 28000 cases.",
 "C11": " Two goroutines reaching the SAME cold / warm call site together, with a scheduling point after every publishing atomic / sync.Map operation (P<=2, thorough 3).",
 "C16": " Explicit-state breadth-first search over the real package (c16/reachable-states): a state is identified by a canonical deep hash of everything reachable from the package-level variables plus the model state; every (state, operation) transition runs the full oracle, each Refresh under all 6 iteration orders of maps of <=3 keys; the search reaches a FIXPOINT (no new state after depth 5), i.e. every sequence of any length ends in an expanded state (up to the stated abstraction: pool/cache/channel contents and closure variables are not part of the identity); unpruned sequences of length <=3 are cross-checked to end in expanded states.",
 "C18": " Registry growth: 1100 distinct valid names registered in sequence; at 40 checkpoints around every power of two all earlier names are registered again (pointer identity with the first registration) and GetAllTags is the exact set; after a Refresh the tags handed out first are served by the configured logger.",
 "C19": " Long outages: one writer, intervals of 1 s / 1 min / 1 h, up to 4 (thorough 5) consecutive boundaries at which the creation fails, the clock landing on or just after the boundary: a creation is attempted at every later boundary.",
 "C20": " Two threads with an interval boundary crossed at any clock read and the crash at any point (P<=1, thorough P<=2 and two boundaries).",
}
# round 6
EXTRA6 = {
 "C01": " Rolling-file logger family: 11 logger ranges (lower bound below / at / above WARN, bounded and unbounded) x separate on/off x sync/async, one event per level through the public entry points on the in-memory filesystem (P<=1): each event in exactly one of the normal / .wf files iff the logger's range contains its level.",
 "C02": " Every 1- and 2-logger configuration also with its tag lists given through ${property} placeholders (same verdict, same routing).",
 "C03": " The events carry scalar, array and nested-object fields (every encoder path).",
 "C04": " Zero-length raw writes (nil, empty, buf[:0]) among the other items, free worker and nearly full buffer: counted in the conservation equation, delivered like any payload.",
 "C05": " Zero-length raw writes before a Stop that races the drain.",
 "C06": " Zero-length raw writes among events and raw writes (order, policies).",
 "C07": " Pairs of a bad and a good value of one top-level type (map[string]any / []any / struct with an interface field / pointer, reaching a func or chan only for some values).",
 "C10": " Scheduler scenarios: an asynchronous logger (3 policies) whose buffer has overflowed behind a parked worker, then two goroutines logging together: every delivered record carries the hook results of ITS call, hooks ran once per call (P<=2). The pool shim ends an execution in which an object is put back while it is already in the pool.",
 "C12": " Zero-length raw writes through the asynchronous logger.",
 "C14": " Every third population once more with Append calls whose event time is 90 min / 36 h ahead of or 3 h behind the clock: the cut-off stays 'clock - max age'.",
 "C15": " Totality also for placeholders that lead to placeholders (self-reference, cycles of two and three properties, a chain ending in a missing key) on every attribute: Refresh returns.",
 "C16": " The alphabet has a 13th operation: a valid configuration whose START phase fails (an asynchronous logger refuses its buffer size after other plugins have been started). The breadth-first search adds three operations of its own (file-owning loggers incl. an asynchronous rolling-file logger on a real directory, all 15 entry points, an invalid registration): fixpoint of 68 states; 62 k unpruned sequences cross-checked.",
 "C18": " Every Unicode code point U+0000..U+10FFFF at four positions of valid tags and tripled on its own (the language is ASCII only).",
 "C20": " The rolling-file LOGGER kind (owns its appenders) with and without a separate .wf file, INFO and ERROR events, both layouts.",
}
# round 7
EXTRA7 = {
 "C01": " A user-registered level above the built-in MAX (1200) takes part as name, as explicit upper bound of references and as event level.",
 "C03": " One goroutine publishes events it has built itself (GetEvent, its own kept field slice, Logger.Append on a synchronous logger) next to another using log.Info: the library neither keeps nor writes the slice it was lent.",
 "C04": " A second life of the same logger object (Start, Stop, Start, three items, Stop): conservation and order over both lives.",
 "C05": " Restarted logger objects with Stop racing the drain.",
 "C08": " Complementary free-running -race pass (sampling): 8 goroutines through ONE text layout, a different hook time per call - every header carries its own call's time.",
 "C09": " Every string of <= 3 bytes (a whole rune of any width) as key and as value of the JSON encoder and of the text encoder, top level and nested: identical to the escaper's text.",
 "C10": " Complementary free-running -race pass (sampling): the context-fields hook hands the SAME slice with spare capacity to every call; every line carries the time, context string and own fields of its call.",
 "C11": " Record with skip 1..12, 50 and 1000 from three call depths, after other lookups in the same mode, against runtime.Caller for that frame (empty beyond the stack), both modes. Complementary free-running -race pass: 8 goroutines released onto one cold call site.",
 "C13": " Writes through Append with events stamped by another clock (2 h behind, 90 min ahead); payloads of 64 KiB, 1 byte and several lines handed to the file in one write call.",
 "C14": " Through the rolling-file LOGGER (owns its appenders): every population of <= 2 entries x max ages 1/24 h with separate off (app.log.wf.<ts> is somebody else's) and on (both patterns are own, an INFO and an ERROR event rotate both appenders).",
 "C15": " Indexed lists appenderRef[0..n-1] for n = 1..13 (two-digit indexes): all n resolved, a dangling reference or an ill-typed level at every position rejected.",
 "C18": " Helper parts of 12..17 and 28..32 bytes so that the built names cross the 36-character limit with and without an action.",
}
# round 8
EXTRA8 = {
 "C02": " The tag-lists-through-properties variants also obtain a named handle for logger l0 before Refresh (a handle does not excuse a logger from listing tags).",
 "C03": " Rolling boundaries with file creations failing at up to two consecutive boundaries (nothing accepted is dropped); the free-running pass also hands one context-field slice with spare capacity to every call.",
 "C05": " fsync failing at a rotation or at Stop: the descriptor is closed all the same.",
 "C06": " The logger-kinds family with a per-target order clause (events and raw writes of one goroutine, through every logger kind incl. the asynchronous rolling-file logger with separate files); the order clause also covers the items queued before the producers start.",
 "C07": " Every field-list case is preceded by an event whose custom array encoder / marshaler PANICS half-way (recovered by the caller): nothing the layouts pool may carry that state over. Nil values of every nilable kind (chan, func, typed nil slice / map with a value-receiver marshaler, pointer).",
 "C08": " The same history and nil values as C07.",
 "C10": " The time hook returning the zero instant (it is still the hook's time).",
 "C11": " A Refresh rejected for an ill-typed enableCaller / fastCaller value must leave both switches as the last valid configuration set them; call sites at source lines 65532..4294969 (//line directives), miss and hits, both modes.",
 "C13": " Local zones UTC-8 / UTC-11 / UTC+5:30 with a maximum age below the zone offset (names are local wall-clock time); rotation intervals of 1.5 s, 2.5 s, 90 s, 2.5 h.",
 "C14": " The zone scenarios of C13 with the retention oracle.",
 "C15": " Keys and ${placeholders} ending in or consisting of separators ('-', '_'), empty names.",
 "C16": " After every operation GetAllTags() is compared with the set of registered names.",
 "C17": " String literals holding 2-, 3- and 4-byte characters in front of bare identifiers / numbers / nested type names / dotted and indexed paths (token texts taken by offset).",
 "C18": " The lifecycle state search is also registered here: GetAllTags is exactly the set of registered names, registration is idempotent and an invalid name registers nothing in EVERY lifecycle state.",
 "C19": " A target that can be created but refuses every write (full disk): every call returns.",
 "C20": " A rolling appender in a process west / east of UTC with a retention shorter than the zone offset.",
}
# round 9
EXTRA9 = {
 "C01": " Through the asynchronous path: two references with disjoint ranges behind an AsyncLogger, events of two levels, a buffer overflow in between, all interleavings (P<=2). References naming built-in levels and user-registered ALIASES of the same codes.",
 "C02": " A non-root logger whose level excludes the event or is empty still owns its tags and obeys the error rules.",
 "C03": " Two appenders with layouts of different file:line widths (absolute check of the column); the line a layout hands out is still intact after three further events have been formatted, for every payload length 0..cap+cap/4 and four buffer caps.",
 "C04": " Lives that see only raw writes / only events / only disabled events / only empty writes; the overflow policies through every asynchronous logger kind Refresh can build (stalled disk).",
 "C05": " Pending timers of the code under test may fire at any scheduling point (a time-limited wait in Stop / Destroy is cut off there).",
 "C06": " The three policies through every asynchronous logger kind Refresh can build (rolling-file logger with async=true, with separate files, AsyncLogger on a file): the disk is stalled, 100 lines are buffered, three more items arrive.",
 "C08": " The line-stays-intact enumeration of C03.",
 "C10": " Every sequence of 1-3 time-hook answers over 7 instants / zones through 4 paths. With NO hook set: the virtual clock is moved 90 min before every probe, for every registered top-level property (discovered from the tree) with the values true / false / 1 - while the configuration is live, after Destroy, under a second configuration, after the second Destroy.",
 "C12": " Loggers that no registered tag resolves to (the handle is their only user), 7 kinds incl. the file-owning ones; the lifecycle state search of C16 is also registered here (a write through a handle reaches the appenders of the logger configured under that name NOW).",
 "C15": " An OPTIONAL element (logger-level layout) configured with an unknown or empty type is an error.",
 "C19": " The atomic shim mirrors the panics of atomic.Value (nil, inconsistently typed value); the read-write mutex shim holds new readers back while a writer waits.",
 "C20": " A level on the way (rolling-file logger with a level, logger-level layout in front of references with a level); with separate=true the line of an event at WARN or above is in the .wf file. Raw descriptor calls (syscall.Write ...) are part of the in-memory filesystem. Garbage collections as environment events on real files: a full collection with its finalizers after the k-th of 4 calls, every k, 5 file-writing kinds x 2 layouts.",
}
# round 10
EXTRA10 = {
 "C01": " Layout / asynchronous kinds also with a logger range that contains NONE and the user levels above MAX; events at a level registered after the logger was started.",
 "C02": " The list GetAllTags handed out is overwritten before Refresh; a non-root logger that cannot start: Refresh fails or routes as configured.",
 "C03": " A 70 KB line next to a short one, compared as a STREAM (pieces of one line stay together); the first line is also held while 1500 further events are formatted.",
 "C04": " Events at levels registered after Start.",
 "C05": " Rolling scenarios with failing creations: what was accepted before Stop is readable after it.",
 "C07": " Named scalar types with and without marshalling methods, json.Number; hostile strings as level name / file / tag / context string.",
 "C08": " Paths with 2-, 3- and 4-byte characters x every length x width (the cut is by bytes).",
 "C09": " Hostile strings in the header positions of the JSON layout (user-registered level name, file, tag, context string).",
 "C10": " Calls WITHOUT own fields (3 shapes x 8 hook subsets x 4 paths); the overflowing call and a late call of the async scenario go through Debug / Trace with a counting generator.",
 "C11": " Every pair of 64 (thorough 192) call sites through Refresh, and every pair of 384 (thorough 768) call sites of the exported fast lookup with irregular code sizes in front of the call, cold cache, two goroutines (P<=2).",
 "C12": " Every payload length 0..1100 and 2^k-1, 2^k, 2^k+1 (k = 11..16) through 4 logger kinds; handle identity for 9 spellings of a name.",
 "C13": " 'Issued one at a time' judged per call; two writers followed by calls of the main thread; maximum ages around 2^31 seconds and 2^63 nanoseconds (keep for ever).",
 "C14": " Maximum ages around 2^31 s / 2^63 ns; two appenders sharing a directory with different maximum ages; a relative log directory and a process that changes its working directory; removals judged by the clock at the removal.",
 "C16": " A configuration WITHOUT a root logger as an operation of the state search.",
 "C18": " Every comparison of GetAllTags with the registry is followed by overwriting the list received and asking again.",
 "C20": " The built-in logger after a configuration without root has come and gone; the interval's file already holding an acknowledged line of an earlier life.",
}
# round 11
EXTRA11 = {
 "C01": " One appender referenced twice by a logger, with disjoint ranges.",
 "C03": " Two levels that share a code (a built-in one and its alias) in every sequence of 1-3 events, both layouts.",
 "C05": " What the appender holds is counted at the moment each Stop returns, in every life of the logger object.",
 "C07": " The alias-level sequences of C03.",
 "C15": " A level name / rotation policy that is registered between a failed and a second Refresh; a policy re-registered with another interval.",
 "C20": " A second life of the same configuration in one process, with an absolute and with a relative log directory.",
}
# round 12
EXTRA12 = {
 "C06": " The directed sequences also on a logger with a past (97..101 / 197 / 198 items delivered before the buffer is filled).",
 "C07": " The line-stays-intact enumeration of C03 / C08.",
 "C09": " Every Unicode scalar value and every 1- and 2-byte string under every registered top-level property (discovered from the tree) x {true, 1, false}.",
 "C19": " A creation that fails while expired own files sit in the directory (quiet period longer than the maximum age).",
}
for e in (EXTRA, EXTRA5, EXTRA6, EXTRA7, EXTRA8, EXTRA9, EXTRA10, EXTRA11, EXTRA12):
    for k, v in e.items():
        CHECKS[k]["text"] += v
CHECKS["C15"]["note"] = CHECKS["C15"]["note"].replace("Trusted: the deviation table (expected defaults) in harness/enum/c15.go.", "Trusted: the deviation table in harness/enum/c15.go (expected defaults of integer/boolean/word attributes are read from the live plugin's struct tag, so a tree that declares other defaults is not an alarm).")
CHECKS["C16"]["technique"] = "explicit-state search: exhaustive operation sequences to depth 5/6 and breadth-first search with canonical state hashing to a fixpoint, against a reference lifecycle model"
CHECKS["C16"]["note"] += " The state identity of the breadth-first search leaves out sync.Pool / sync.Map contents, channel contents, variables captured by closures and the order of slices of plugin references."

m = {
 "version": 1,
 "setup_cmd": "scripts/vcheck setup",
 "hooks": {
  "guard": "none: instrumentation is generated from /repo's working tree at check time and substituted with `go build -overlay`; nothing is committed to go-spring/log",
  "enable": "scripts/vcheck runs cmd/instrument (scheduler group: type-directed source rewriting of sync/atomic/os/time imports, channels, select, go, map ranges; enumeration group: map ranges only, for a harness-controlled iteration order) and builds the harness with -overlay, adding the virtual package github.com/go-spring/log/zzvrt, a generated table of the package-level variables (deep in-place snapshot/restore, canonical state hash) and in-package accessor files that name no private identifier",
  "baseline_off_cmd": "cd /repo && GOFLAGS=-mod=mod GOPROXY=off go test -json -vet=off -count=1 -timeout 25m ./...",
  "source_commits": [],
  "add_only": True,
 },
 "engines": [
  {"name": "zzvrt", "path": "vrt/", "serves_properties": ["C01","C03","C04","C05","C06","C10","C11","C12","C13","C14","C15","C19","C20"],
   "kind_free_text": "hand-written stateless model checker for Go: cooperative scheduler + preemption/deviation-bounded DFS over choice prefixes, shims for channels/select/sync/atomic/os/time, virtual clock and in-memory filesystem with fault and crash injection"},
  {"name": "enum", "path": "harness/enum/", "serves_properties": ["C01","C02","C03","C07","C08","C09","C10","C11","C12","C15","C16","C17","C18","C20"],
   "kind_free_text": "bounded-exhaustive enumeration harness: complete enumeration of configurations / inputs / operation sequences within stated bounds on the real package (plus in-package accessors by overlay), compared with reference models written in Go"},
  {"name": "instrument", "path": "cmd/instrument", "serves_properties": ["C03","C04","C05","C06","C12","C13","C14","C19","C20"],
   "kind_free_text": "go/types-directed source-to-source instrumenter; output substituted by go build -overlay"},
 ],
 "checks": [], "not_applicable": [],
 "notes": "All checks: scripts/vcheck run <ID> [--tier quick|thorough]; VERIF_REPO selects the tree (default /repo). Exit 2 = check broken (never a verdict).",
}
for p in props:
    pid = p["id"]
    if pid in CHECKS:
        c = CHECKS[pid]
        m["checks"].append({
            "property_id": pid,
            "quick_cmd": "scripts/vcheck run %s --tier quick" % pid,
            "thorough_cmd": "scripts/vcheck run %s --tier thorough" % pid,
            "evidence_file": "/verif/evidence/%s.json" % pid,
            "replay_cmd_template": "scripts/vcheck replay {path}",
            "engine": c.get("engine", "zzvrt"),
            "level_claimed": {"category": "model_checking", "text": c["text"], "design_ref": c["design"]},
            "level_note": c["note"],
            "technique": c["technique"],
        })
    else:
        m["not_applicable"].append({"property_id": pid, "reason": "check not built yet (work in progress; see DESIGN.md section 7 for the order of work)"})
json.dump(m, open(os.path.join(V, "MANIFEST.json"), "w"), indent=1)
print("checks:", [c["property_id"] for c in m["checks"]])
