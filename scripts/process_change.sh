#!/bin/bash
# usage: process_change.sh <delivery dir (patch.diff, demo_test.go | demo/main.go)> <prop> [<prop>...]
# Confirms a delivered seeded change (confirm_seeded.sh) and then runs the quick checks of the given
# properties against it (trymutant.sh). Prints both results; the change is kept only if confirmed.
d=$(readlink -f "$1"); shift
here=$(dirname "$0")
echo "== confirm $d"
"$here/confirm_seeded.sh" "$d" 2>&1 | tail -8
echo "== checks: $*"
"$here/trymutant.sh" "$d/patch.diff" "$@" 2>&1 | tail -14
