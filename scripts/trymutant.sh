#!/bin/bash
# usage: trymutant.sh <patch.diff> <prop> [<prop>...]   - applies the patch to a scratch worktree of /repo HEAD,
# runs the pinned test suite, then the given quick checks against it; removes the worktree afterwards.
patch=$(readlink -f "$1"); shift
# the tree the change is applied to: meta.json "apply_to" next to the patch (default HEAD)
base=HEAD
meta="$(dirname "$patch")/meta.json"
[ -f "$meta" ] && base=$(python3 -c "import json,sys; print(json.load(open(sys.argv[1])).get('apply_to','HEAD'))" "$meta")
wt=$(mktemp -d /tmp/wt_try_XXXX); rmdir "$wt"
git -C /repo worktree add -q --detach "$wt" "$base" || exit 2
echo "applying to $base"
ev=$(mktemp -d /tmp/verif-evidence-alt-XXXX)
trap 'git -C /repo worktree remove --force "$wt"; rm -rf "$ev"' EXIT
# TRY_BASELINE=1: the tree the change was written against, WITHOUT the change (what its base alone makes the checks report)
if [ -z "$TRY_BASELINE" ]; then
  git -C "$wt" apply "$patch" || { echo "PATCH DOES NOT APPLY"; exit 2; }
fi
( cd "$wt" && GOFLAGS=-mod=mod GOPROXY=off go build ./... ) || { echo "DOES NOT BUILD"; exit 2; }
"$(dirname "$0")/baseline.py" "$wt" | head -3
for p in "$@"; do
  out=$(VERIF_REPO="$wt" VERIF_EVIDENCE="$ev" "$(dirname "$0")/vcheck" run "$p" 2>&1); e=$?
  echo "$p exit=$e $(echo "$out" | tail -1 | cut -c1-160)"
  if [ $e -eq 1 ]; then
    python3 - "$p" "$ev" "$TRY_DUMP" <<'PY'
import json,glob,sys,re
seen={}
pairs=set()
for f in sorted(glob.glob("%s/replays/%s-*.json"%(sys.argv[2],sys.argv[1]))):
    r=json.load(open(f)); v=r['finding']['violation']
    pairs.add("%s %s %s"%(sys.argv[1],r['scenario'],v['clause']))
if len(sys.argv)>3 and sys.argv[3]:
    open(sys.argv[3],'a').write("".join(x+"\n" for x in sorted(pairs)))
for f in sorted(glob.glob("%s/replays/%s-*.json"%(sys.argv[2],sys.argv[1]))):
    r=json.load(open(f)); v=r['finding']['violation']
    seen.setdefault((r['scenario'],v['clause']),[]).append((v['key'][:80],v['detail'][:220]))
for k,v in list(seen.items())[:4]:
    print("   ",k,len(v)); print("       ",v[0])
PY
  fi
done
