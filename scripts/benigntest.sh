#!/bin/bash
# Applies every property-PRESERVING change (benign/<id>/patch.diff: refactorings, optimisations, harmless
# features written by independent sub-agents that were given the 20 property texts and asked to keep them
# all) to a scratch worktree and expects EVERY quick check to stay silent (exit 0). An exit 1 is a false
# alarm, an exit 2 a check that does not survive the refactoring. usage: benigntest.sh [ids...]
cd "$(dirname "$0")/.."
rc=0
ids=("$@"); [ ${#ids[@]} -eq 0 ] && ids=($(ls benign))
for id in "${ids[@]}"; do
  out=$(scripts/trymutant.sh benign/$id/patch.diff C01 C02 C03 C04 C05 C06 C07 C08 C09 C10 C11 C12 C13 C14 C15 C16 C17 C18 C19 C20 2>&1)
  bad=$(echo "$out" | grep -E "^C[0-9]+ exit=[^0]|DOES NOT|NOT PASSING|PATCH DOES NOT" | cut -c1-200)
  n=$(echo "$out" | grep -c "^C[0-9]* exit=0")
  if [ -z "$bad" ] && [ "$n" -eq 20 ]; then echo "$id SILENT (20/20 checks exit 0)"; else echo "$id ALARM-OR-BROKEN ($n/20 exit 0)"; echo "$bad"; rc=1; fi
done
exit $rc
