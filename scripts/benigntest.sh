#!/bin/bash
# Applies every property-PRESERVING change (benign/<id>/patch.diff: refactorings, optimisations, harmless
# features written by independent sub-agents that were given the 20 property texts and asked to keep them
# all) to a scratch worktree and expects EVERY quick check to stay silent (exit 0). An exit 1 is a false
# alarm, an exit 2 a check that does not survive the refactoring. usage: benigntest.sh [ids...]
cd "$(dirname "$0")/.."
rc=0
ids=("$@"); [ ${#ids[@]} -eq 0 ] && ids=($(ls benign))
for id in "${ids[@]}"; do
  props="C01 C02 C03 C04 C05 C06 C07 C08 C09 C10 C11 C12 C13 C14 C15 C16 C17 C18 C19 C20"
  # BENIGN_RELATED=1: only the checks of the properties whose code the change touches (anchor files of the property,
  # widened by what its checks exercise; a change that adds a file counts for all) - for re-runs under time pressure
  [ -n "$BENIGN_RELATED" ] && props=$(scripts/related_props.py benign/$id/patch.diff)
  want=$(echo $props | wc -w)
  out=$(scripts/trymutant.sh benign/$id/patch.diff $props 2>&1)
  bad=$(echo "$out" | grep -E "^C[0-9]+ exit=[^0]|DOES NOT|NOT PASSING|PATCH DOES NOT" | cut -c1-200)
  n=$(echo "$out" | grep -c "^C[0-9]* exit=0")
  if [ -z "$bad" ] && [ "$n" -eq "$want" ]; then echo "$id SILENT ($n/$want checks exit 0: $props)"; else echo "$id ALARM-OR-BROKEN ($n/$want exit 0)"; echo "$bad"; rc=1; fi
done
exit $rc
