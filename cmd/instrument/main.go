// Command instrument generates, from the current working tree of the module under test, the
// instrumented copies of package log's source files and the overlay.json that substitutes them
// (plus the virtual runtime package zzvrt and extra in-package files) in a `go build -overlay`.
//
// Rewrites (type-directed, using go/types on the original sources):
//
//	import "sync" | "sync/atomic" | "os" | "time"   -> shim packages under .../zzvrt/
//	chan T                                          -> *zzvrt.Chan[T]
//	make(chan T, n)                                 -> zzvrt.MakeChan[T](n)
//	c <- v ; <-c ; v, ok := <-c ; close/len/cap(c)  -> methods of *zzvrt.Chan
//	for v := range c                                -> loop over c.Recv2()
//	select { ... }                                  -> switch zzvrt.Select(...)
//	go f(x)                                         -> zzvrt.Go(func() { f(x) })
//	for k, v := range m   (m a map)                 -> loop over zzvrt.MapOrder(m)
//
// Anything it cannot handle is reported as INSTRUMENTATION-GAP and exit code 2.
package main

import (
	"encoding/json"
	"flag"
	"fmt"
	"go/ast"
	"go/importer"
	"go/parser"
	"go/token"
	"go/types"
	"io"
	"os"
	"os/exec"
	"path/filepath"
	"sort"
	"strconv"
	"strings"
)

const modPath = "github.com/go-spring/log"

var shimImports = map[string]string{
	"sync":        modPath + "/zzvrt/vsync",
	"sync/atomic": modPath + "/zzvrt/vatomic",
	"os":          modPath + "/zzvrt/vos",
	"time":        modPath + "/zzvrt/vtime",
}

func gap(format string, args ...any) {
	fmt.Fprintf(os.Stderr, "INSTRUMENTATION-GAP "+format+"\n", args...)
	os.Exit(2)
}

type edit struct {
	pos, end int
	text     func() string
}

type fileCtx struct {
	onlyMaps  bool // plain mode: only map ranges are rewritten (deterministic, harness-controlled iteration order)
	fset      *token.FileSet
	file      *ast.File
	tf        *token.File
	src       []byte
	info      *types.Info
	edits     []edit
	usesVrt   bool
	fpName    string // local name of the path/filepath import when filepath.Abs was rewritten
	sysName   string // local name of the syscall import when a raw descriptor call was rewritten (kept alive at the end of the file)
	handled   map[ast.Node]bool
	recv2     map[*ast.UnaryExpr]bool
	nsel      int
	rendering []bool
}

func (c *fileCtx) off(p token.Pos) int { return c.tf.Offset(p) }

func (c *fileCtx) add(pos, end token.Pos, f func() string) {
	c.edits = append(c.edits, edit{c.off(pos), c.off(end), f})
}

// R renders the source text of node n with all nested edits applied.
func (c *fileCtx) R(n ast.Node) string { return c.render(c.off(n.Pos()), c.off(n.End())) }

func (c *fileCtx) render(a, b int) string {
	var sb strings.Builder
	cur := a
	for i := 0; i < len(c.edits); i++ {
		e := c.edits[i]
		if e.pos < cur || e.end > b || e.pos < a {
			continue
		}
		if c.rendering[i] {
			continue
		}
		sb.Write(c.src[cur:e.pos])
		c.rendering[i] = true
		sb.WriteString(e.text())
		c.rendering[i] = false
		cur = e.end
	}
	sb.Write(c.src[cur:b])
	return sb.String()
}

// sysCalls: the raw descriptor calls the in-memory filesystem implements (zzvrt.Sys<Name>).
var sysCalls = map[string]bool{"Write": true, "Pwrite": true, "Read": true, "Close": true, "Fsync": true, "Fdatasync": true, "Seek": true, "Ftruncate": true, "Open": true}

func isChan(t types.Type) bool {
	if t == nil {
		return false
	}
	_, ok := t.Underlying().(*types.Chan)
	return ok
}

func isMap(t types.Type) bool {
	if t == nil {
		return false
	}
	_, ok := t.Underlying().(*types.Map)
	return ok
}

func (c *fileCtx) isBuiltin(fun ast.Expr, name string) bool {
	id, ok := fun.(*ast.Ident)
	if !ok || id.Name != name {
		return false
	}
	_, ok = c.info.Uses[id].(*types.Builtin)
	return ok
}

func simpleOperand(e ast.Expr) bool {
	switch x := e.(type) {
	case *ast.Ident:
		return true
	case *ast.SelectorExpr:
		return simpleOperand(x.X)
	case *ast.ParenExpr:
		return simpleOperand(x.X)
	case *ast.StarExpr:
		return simpleOperand(x.X)
	}
	return false
}

func (c *fileCtx) collect() {
	pos := func(n ast.Node) string { return c.fset.Position(n.Pos()).String() }
	// pre-pass: mark `v, ok := <-ch`
	ast.Inspect(c.file, func(n ast.Node) bool {
		switch s := n.(type) {
		case *ast.AssignStmt:
			if len(s.Lhs) == 2 && len(s.Rhs) == 1 {
				if u, ok := ast.Unparen(s.Rhs[0]).(*ast.UnaryExpr); ok && u.Op == token.ARROW {
					c.recv2[u] = true
				}
			}
		case *ast.ValueSpec:
			if len(s.Names) == 2 && len(s.Values) == 1 {
				if u, ok := ast.Unparen(s.Values[0]).(*ast.UnaryExpr); ok && u.Op == token.ARROW {
					c.recv2[u] = true
				}
			}
		}
		return true
	})
	ast.Inspect(c.file, func(n ast.Node) bool {
		if n == nil || c.handled[n] {
			return true
		}
		if c.onlyMaps {
			if rs, ok := n.(*ast.RangeStmt); !ok || !isMap(c.info.TypeOf(rs.X)) {
				return true
			}
		}
		switch s := n.(type) {
		case *ast.ImportSpec:
			p, _ := strconv.Unquote(s.Path.Value)
			if shim, ok := shimImports[p]; ok {
				name := filepath.Base(p)
				if s.Name != nil {
					name = s.Name.Name
				}
				c.add(s.Pos(), s.End(), func() string { return name + " " + strconv.Quote(shim) })
			}
		case *ast.SelectorExpr:
			// raw descriptor calls (syscall.Write(fd, b) ...) go to the in-memory filesystem like the os calls do
			if id, ok := s.X.(*ast.Ident); ok {
				if pn, ok := c.info.Uses[id].(*types.PkgName); ok && pn.Imported().Path() == "syscall" && sysCalls[s.Sel.Name] {
					c.usesVrt = true
					c.sysName = id.Name
					c.add(s.Pos(), s.End(), func() string { return "zzvrt.Sys" + s.Sel.Name })
				} else if ok && pn.Imported().Path() == "path/filepath" && s.Sel.Name == "Abs" {
					// the working directory is the modelled process's, not the harness's
					c.usesVrt = true
					c.fpName = id.Name
					c.add(s.Pos(), s.End(), func() string { return "zzvrt.FilepathAbs" })
				}
			}
		case *ast.ChanType:
			c.usesVrt = true
			c.add(s.Pos(), s.End(), func() string { return "*zzvrt.Chan[" + c.R(s.Value) + "]" })
		case *ast.CallExpr:
			switch {
			case c.isBuiltin(s.Fun, "make") && len(s.Args) >= 1 && isChan(c.info.TypeOf(s.Args[0])):
				ct, ok := s.Args[0].(*ast.ChanType)
				if !ok {
					gap("%s: make of a named channel type", pos(s))
				}
				c.usesVrt = true
				c.handled[ct] = true
				c.add(s.Pos(), s.End(), func() string {
					n := "0"
					if len(s.Args) > 1 {
						n = c.R(s.Args[1])
					}
					return "zzvrt.MakeChan[" + c.R(ct.Value) + "](" + n + ")"
				})
			case len(s.Args) == 1 && isChan(c.info.TypeOf(s.Args[0])) &&
				(c.isBuiltin(s.Fun, "close") || c.isBuiltin(s.Fun, "len") || c.isBuiltin(s.Fun, "cap")):
				m := map[string]string{"close": "Close", "len": "Len", "cap": "Cap"}[s.Fun.(*ast.Ident).Name]
				c.add(s.Pos(), s.End(), func() string { return "(" + c.R(s.Args[0]) + ")." + m + "()" })
			}
		case *ast.SendStmt:
			c.add(s.Pos(), s.End(), func() string { return "(" + c.R(s.Chan) + ").Send(" + c.R(s.Value) + ")" })
		case *ast.UnaryExpr:
			if s.Op == token.ARROW {
				m := "Recv"
				if c.recv2[s] {
					m = "Recv2"
				}
				c.add(s.Pos(), s.End(), func() string { return "(" + c.R(s.X) + ")." + m + "()" })
			}
		case *ast.GoStmt:
			c.usesVrt = true
			c.add(s.Pos(), s.Call.Pos(), func() string { return "zzvrt.Go(func() { " })
			c.add(s.End(), s.End(), func() string { return " })" })
		case *ast.RangeStmt:
			t := c.info.TypeOf(s.X)
			switch {
			case isChan(t):
				c.add(s.Pos(), s.Body.Lbrace+1, func() string {
					key := "_"
					if s.Key != nil {
						key = c.R(s.Key)
					}
					if s.Tok == token.ASSIGN {
						return "for { var zzvrtOK bool; " + key + ", zzvrtOK = (" + c.R(s.X) + ").Recv2(); if !zzvrtOK { break };"
					}
					return "for { " + key + ", zzvrtOK := (" + c.R(s.X) + ").Recv2(); if !zzvrtOK { break };"
				})
			case isMap(t):
				if !simpleOperand(s.X) {
					fmt.Fprintf(os.Stderr, "instrument: note: %s: map range over a non-trivial operand left as is\n", pos(s))
					break
				}
				c.usesVrt = true
				c.add(s.Pos(), s.Body.Lbrace+1, func() string {
					x := c.R(s.X)
					as := ":="
					if s.Tok == token.ASSIGN {
						as = "="
					}
					h := "for _, zzvrtK := range zzvrt.MapOrder(" + x + ") {"
					if s.Key != nil {
						if id, ok := s.Key.(*ast.Ident); !ok || id.Name != "_" {
							h += " " + c.R(s.Key) + " " + as + " zzvrtK;"
						}
					}
					if s.Value != nil {
						if id, ok := s.Value.(*ast.Ident); !ok || id.Name != "_" {
							h += " " + c.R(s.Value) + " " + as + " (" + x + ")[zzvrtK];"
						}
					}
					return h
				})
			}
		case *ast.SelectStmt:
			c.usesVrt = true
			c.nsel++
			id := c.nsel
			hasDefault := false
			type cl struct {
				cc   *ast.CommClause
				idx  int
				decl string // declaration before the switch
				expr string // case expression
				pre  string // statement at the start of the clause body
			}
			var cls []*cl
			j := 0
			for _, st := range s.Body.List {
				cc := st.(*ast.CommClause)
				if cc.Comm == nil {
					hasDefault = true
					cls = append(cls, &cl{cc: cc, idx: -1})
					continue
				}
				c.handled[cc.Comm] = true
				cls = append(cls, &cl{cc: cc, idx: j})
				j++
			}
			// mark the receive expressions of the comm statements as handled
			for _, k := range cls {
				if k.idx < 0 {
					continue
				}
				switch cm := k.cc.Comm.(type) {
				case *ast.ExprStmt:
					c.handled[ast.Unparen(cm.X)] = true
				case *ast.AssignStmt:
					c.handled[ast.Unparen(cm.Rhs[0])] = true
				}
			}
			c.add(s.Pos(), s.Body.Lbrace+1, func() string {
				var decls, exprs []string
				for _, k := range cls {
					if k.idx < 0 {
						continue
					}
					v := fmt.Sprintf("zzvrtS%d_%d", id, k.idx)
					switch cm := k.cc.Comm.(type) {
					case *ast.SendStmt:
						decls = append(decls, v+" := ("+c.R(cm.Chan)+").SendCase("+c.R(cm.Value)+")")
					case *ast.ExprStmt:
						u := ast.Unparen(cm.X).(*ast.UnaryExpr)
						decls = append(decls, v+" := ("+c.R(u.X)+").RecvCase()")
					case *ast.AssignStmt:
						u := ast.Unparen(cm.Rhs[0]).(*ast.UnaryExpr)
						decls = append(decls, v+" := ("+c.R(u.X)+").RecvCase()")
					default:
						gap("%s: unsupported select clause", pos(k.cc))
					}
					exprs = append(exprs, v)
				}
				return "{ " + strings.Join(decls, "; ") + "; switch zzvrt.Select(" + strconv.FormatBool(hasDefault) +
					func() string {
						if len(exprs) == 0 {
							return ""
						}
						return ", " + strings.Join(exprs, ", ")
					}() + ") {"
			})
			for _, k := range cls {
				k := k
				if k.idx < 0 {
					continue // `default:` stays
				}
				c.add(k.cc.Pos(), k.cc.Colon+1, func() string {
					v := fmt.Sprintf("zzvrtS%d_%d", id, k.idx)
					h := "case " + strconv.Itoa(k.idx) + ":"
					if as, ok := k.cc.Comm.(*ast.AssignStmt); ok {
						tok := as.Tok.String()
						lhs := c.R(as.Lhs[0])
						if len(as.Lhs) == 2 {
							h += " " + lhs + ", " + c.R(as.Lhs[1]) + " " + tok + " " + v + ".Val, " + v + ".OK;"
						} else {
							h += " " + lhs + " " + tok + " " + v + ".Val;"
						}
					}
					return h
				})
			}
			c.add(s.Body.Rbrace, s.Body.Rbrace+1, func() string { return "}}" })
		}
		return true
	})
}

type listPkg struct {
	ImportPath string
	Export     string
	Dir        string
	GoFiles    []string
	Standard   bool
}

func goList(dir string, args ...string) []listPkg {
	cmd := exec.Command("go", append([]string{"list", "-json=ImportPath,Export,Dir,GoFiles,Standard"}, args...)...)
	cmd.Dir = dir
	cmd.Stderr = os.Stderr
	out, err := cmd.Output()
	if err != nil {
		fmt.Fprintf(os.Stderr, "instrument: go list failed: %v\n", err)
		os.Exit(2)
	}
	var pkgs []listPkg
	dec := json.NewDecoder(strings.NewReader(string(out)))
	for {
		var p listPkg
		if err := dec.Decode(&p); err == io.EOF {
			break
		} else if err != nil {
			fmt.Fprintf(os.Stderr, "instrument: go list output: %v\n", err)
			os.Exit(2)
		}
		pkgs = append(pkgs, p)
	}
	return pkgs
}

type multiFlag []string

func (m *multiFlag) String() string     { return strings.Join(*m, ",") }
func (m *multiFlag) Set(s string) error { *m = append(*m, s); return nil }

// prepareExtra applies the `// verif:needs a,b,T.f` line guards of an in-package harness file: a line
// carrying the marker is dropped when one of the named package-level identifiers (or struct fields
// T.f) does not exist in the tree under test, so that a refactoring of private names there degrades
// the harness (less is reset / an accessor reports "unavailable") instead of breaking its build.
// The processed copy is written to out/src and its path returned.
func prepareExtra(absRepo, out, extra string) string {
	have := map[string]bool{}
	fs := token.NewFileSet()
	names, _ := filepath.Glob(filepath.Join(absRepo, "*.go"))
	for _, n := range names {
		if strings.HasSuffix(n, "_test.go") {
			continue
		}
		f, err := parser.ParseFile(fs, n, nil, parser.SkipObjectResolution)
		if err != nil {
			continue
		}
		for _, d := range f.Decls {
			switch d := d.(type) {
			case *ast.FuncDecl:
				if d.Recv == nil {
					have[d.Name.Name] = true
				}
			case *ast.GenDecl:
				for _, sp := range d.Specs {
					switch sp := sp.(type) {
					case *ast.ValueSpec:
						for _, id := range sp.Names {
							have[id.Name] = true
						}
					case *ast.TypeSpec:
						have[sp.Name.Name] = true
						if st, ok := sp.Type.(*ast.StructType); ok {
							for _, fl := range st.Fields.List {
								for _, id := range fl.Names {
									have[sp.Name.Name+"."+id.Name] = true
								}
							}
						}
					}
				}
			}
		}
	}
	b, err := os.ReadFile(extra)
	if err != nil {
		fmt.Fprintln(os.Stderr, "instrument:", err)
		os.Exit(2)
	}
	var outLines []string
	dropped := 0
	for _, line := range strings.Split(string(b), "\n") {
		if i := strings.Index(line, "// verif:needs "); i >= 0 {
			ok := true
			for _, n := range strings.Split(strings.TrimSpace(line[i+len("// verif:needs "):]), ",") {
				if !have[strings.TrimSpace(n)] {
					ok = false
				}
			}
			if !ok {
				dropped++
				continue
			}
		}
		outLines = append(outLines, line)
	}
	dst := filepath.Join(out, "src", "extra_"+filepath.Base(extra))
	if err := os.WriteFile(dst, []byte(strings.Join(outLines, "\n")), 0644); err != nil {
		fmt.Fprintln(os.Stderr, "instrument:", err)
		os.Exit(2)
	}
	if dropped > 0 {
		fmt.Fprintf(os.Stderr, "instrument: %s: %d guarded line(s) dropped (private names not present in this tree)\n", filepath.Base(extra), dropped)
	}
	adst, _ := filepath.Abs(dst)
	return adst
}

func main() {
	repo := flag.String("repo", "/repo", "module under test")
	out := flag.String("out", "", "output directory")
	vrt := flag.String("vrt", "/verif/vrt", "runtime sources")
	mode := flag.String("mode", "sched", "sched: instrument; plain: only add the extra files and the runtime package")
	var extras multiFlag
	flag.Var(&extras, "extra", "extra file to add to package log (repeatable)")
	flag.Parse()
	if *out == "" {
		fmt.Fprintln(os.Stderr, "instrument: -out required")
		os.Exit(2)
	}
	absRepo, _ := filepath.Abs(*repo)
	os.MkdirAll(filepath.Join(*out, "src"), 0755)
	overlay := map[string]string{}
	extraDst := map[string]string{} // processed copy -> name in the package
	for i, ex := range extras {
		pc := prepareExtra(absRepo, *out, ex)
		extraDst[pc] = "zz_verif_" + filepath.Base(ex)
		extras[i] = pc
	}

	// the virtual runtime package
	for sub, dst := range map[string]string{"core": "zzvrt", "vsync": "zzvrt/vsync", "vatomic": "zzvrt/vatomic", "vos": "zzvrt/vos", "vtime": "zzvrt/vtime"} {
		fs, _ := filepath.Glob(filepath.Join(*vrt, sub, "*.go"))
		for _, f := range fs {
			af, _ := filepath.Abs(f)
			overlay[filepath.Join(absRepo, dst, filepath.Base(f))] = af
		}
	}

	self := goList(absRepo, ".")
	if len(self) != 1 {
		fmt.Fprintln(os.Stderr, "instrument: cannot list package")
		os.Exit(2)
	}
	deps := goList(absRepo, "-export", "-deps", ".")
	exports := map[string]string{}
	for _, p := range deps {
		if p.Export != "" {
			exports[p.ImportPath] = p.Export
		}
	}
	fset := token.NewFileSet()
	type srcFile struct {
		path, dst string
		src       []byte
		f         *ast.File
	}
	var files []*srcFile
	for _, name := range self[0].GoFiles {
		files = append(files, &srcFile{path: filepath.Join(absRepo, name), dst: filepath.Join(absRepo, name)})
	}
	// the in-package harness files are added as they are (they only use the generated table, reflection and
	// the public API; they are neither type-checked here nor instrumented)
	for _, ex := range extras {
		af, _ := filepath.Abs(ex)
		overlay[filepath.Join(absRepo, extraDst[ex])] = af
	}
	var asts []*ast.File
	for _, sf := range files {
		b, err := os.ReadFile(sf.path)
		if err != nil {
			fmt.Fprintln(os.Stderr, "instrument:", err)
			os.Exit(2)
		}
		sf.src = b
		f, err := parser.ParseFile(fset, sf.path, b, parser.ParseComments|parser.SkipObjectResolution)
		if err != nil {
			fmt.Fprintln(os.Stderr, "instrument: parse:", err)
			os.Exit(2)
		}
		sf.f = f
		asts = append(asts, f)
	}
	imp := importer.ForCompiler(fset, "gc", func(path string) (io.ReadCloser, error) {
		e, ok := exports[path]
		if !ok {
			return nil, fmt.Errorf("no export data for %q", path)
		}
		return os.Open(e)
	})
	info := &types.Info{Types: map[ast.Expr]types.TypeAndValue{}, Uses: map[*ast.Ident]types.Object{}, Defs: map[*ast.Ident]types.Object{}}
	conf := types.Config{Importer: imp, Error: func(err error) { fmt.Fprintln(os.Stderr, "instrument: typecheck:", err) }}
	if _, err := conf.Check(modPath, fset, asts, info); err != nil {
		fmt.Fprintln(os.Stderr, "instrument: type errors in the module under test")
		os.Exit(2)
	}
	nedits := 0
	for _, sf := range files {
		c := &fileCtx{fset: fset, file: sf.f, tf: fset.File(sf.f.Pos()), src: sf.src, info: info,
			handled: map[ast.Node]bool{}, recv2: map[*ast.UnaryExpr]bool{}, onlyMaps: *mode == "plain"}
		c.collect()
		if len(c.edits) == 0 {
			if sf.path != sf.dst {
				overlay[sf.dst] = sf.path
			}
			continue
		}
		if c.sysName != "" {
			e := sf.f.End()
			name := c.sysName
			c.edits = append(c.edits, edit{c.off(e), c.off(e), func() string { return "\nvar _ = " + name + ".EINVAL // (instrumenter) keeps the import in use\n" }})
		}
		if c.fpName != "" {
			e := sf.f.End()
			name := c.fpName
			c.edits = append(c.edits, edit{c.off(e), c.off(e), func() string { return "\nvar _ = " + name + ".Clean // (instrumenter) keeps the import in use\n" }})
		}
		if c.usesVrt {
			// import on the package clause line keeps line numbers intact
			e := sf.f.Name.End()
			c.edits = append(c.edits, edit{c.off(e), c.off(e), func() string { return "; import zzvrt " + strconv.Quote(modPath+"/zzvrt") }})
		}
		sort.SliceStable(c.edits, func(i, j int) bool {
			if c.edits[i].pos != c.edits[j].pos {
				return c.edits[i].pos < c.edits[j].pos
			}
			return c.edits[i].end > c.edits[j].end
		})
		c.rendering = make([]bool, len(c.edits))
		nedits += len(c.edits)
		text := "//line " + sf.path + ":1\n" + c.render(0, len(sf.src))
		dst := filepath.Join(*out, "src", filepath.Base(sf.dst))
		if err := os.WriteFile(dst, []byte(text), 0644); err != nil {
			fmt.Fprintln(os.Stderr, "instrument:", err)
			os.Exit(2)
		}
		adst, _ := filepath.Abs(dst)
		overlay[sf.dst] = adst
	}
	// generated: snapshot / restore of EVERY package-level variable (also ones a change to the tree adds),
	// so that each explored execution starts from the same state
	var names []string
	for _, sf := range files {
		if strings.HasPrefix(filepath.Base(sf.dst), "zz_verif_") {
			continue
		}
		names = append(names, fileVars(sf.f)...)
	}
	overlay[filepath.Join(absRepo, "zz_verif_globals.go")] = writeGlobals(*out, files[0].f.Name.Name, names)
	writeOverlay(*out, overlay)
	fmt.Fprintf(os.Stderr, "instrument: %d files, %d edits, %d package-level variables\n", len(files), nedits, len(names))
}

// fileVars lists the package-level variables declared in f.
func fileVars(f *ast.File) []string {
	var names []string
	for _, d := range f.Decls {
		gd, ok := d.(*ast.GenDecl)
		if !ok || gd.Tok != token.VAR {
			continue
		}
		for _, sp := range gd.Specs {
			for _, n := range sp.(*ast.ValueSpec).Names {
				if n.Name != "_" {
					names = append(names, n.Name)
				}
			}
		}
	}
	return names
}

// writeGlobals generates zz_verif_globals.go: the table of all package-level variables and the deep
// snapshot / in-place restore built on it. Returns the absolute path of the generated file.
func writeGlobals(out, pkgName string, names []string) string {
	sort.Strings(names)
	var gb strings.Builder
	gb.WriteString("package " + pkgName + "\n\nimport zzvrt " + strconv.Quote(modPath+"/zzvrt") + "\n\n")
	gb.WriteString("// VerifGlobals returns a pointer to every package-level variable, by name (generated).\nfunc VerifGlobals() map[string]any {\n\treturn map[string]any{\n")
	for _, n := range names {
		gb.WriteString("\t\t" + strconv.Quote(n) + ": &" + n + ",\n")
	}
	gb.WriteString("\t}\n}\n\nvar zzvrtHeap *zzvrt.HeapSnap\n\n")
	gb.WriteString("// VerifResetGlobals restores everything reachable from the package-level variables to the state it had at\n// the first call (generated; deep, in place - see zzvrt.HeapSnap).\nfunc VerifResetGlobals() {\n\tif zzvrtHeap == nil {\n\t\tzzvrtHeap = zzvrt.DeepSnapshot(VerifGlobals(), " + strconv.Quote(modPath) + ")\n\t\treturn\n\t}\n\tzzvrtHeap.Restore()\n}\n\n")
	gb.WriteString("// VerifHeap returns the snapshot (nil before the first VerifResetGlobals).\nfunc VerifHeap() *zzvrt.HeapSnap { return zzvrtHeap }\n")
	gdst := filepath.Join(out, "src", "zz_verif_globals.go")
	if err := os.WriteFile(gdst, []byte(gb.String()), 0644); err != nil {
		fmt.Fprintln(os.Stderr, "instrument:", err)
		os.Exit(2)
	}
	agdst, _ := filepath.Abs(gdst)
	return agdst
}

func writeOverlay(out string, overlay map[string]string) {
	b, _ := json.MarshalIndent(map[string]any{"Replace": overlay}, "", " ")
	if err := os.WriteFile(filepath.Join(out, "overlay.json"), b, 0644); err != nil {
		fmt.Fprintln(os.Stderr, "instrument:", err)
		os.Exit(2)
	}
}
