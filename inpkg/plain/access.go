package log

import (
	"reflect"
	"unsafe"

	zzvrt "github.com/go-spring/log/zzvrt"
)

// Accessors added to package log by overlay for the enumeration harness (not part of the library).
// They name no private identifier of the tree under test except where marked `verif:needs` (such a
// line is dropped by the instrumenter when the tree no longer has the name, and the accessor falls back
// to the public API): package-level state is reached through the generated VerifGlobals() table and
// reflection, so that a refactoring of private names / data structures does not break the harness.

// VerifReset brings the package back to the state it had when the harness started: stops whatever is
// running (best effort) and restores everything reachable from the package-level variables, in place
// (generated VerifResetGlobals: registries, lifecycle record, tunables, hooks, pools, caches).
func VerifReset() (panicked any) {
	func() {
		defer func() { panicked = recover() }()
		Destroy()
	}()
	VerifResetGlobals()
	return
}

// VerifIsValidTag exposes the tag-name predicate (through RegisterTag when the private predicate is gone).
func VerifIsValidTag(s string) (valid bool) {
	direct := false
	valid, direct = isValidTag(s), true // verif:needs isValidTag
	if direct {
		return valid
	}
	defer func() {
		if recover() != nil {
			valid = false
		}
	}()
	RegisterTag(s)
	return true
}

func verifBool(name string) *bool {
	p, _ := VerifGlobals()[name].(*bool)
	return p
}

// VerifCallerMode reads the caller-lookup switches (ok=false: the tree has no such switches any more).
func VerifCallerMode() (enable, fast, ok bool) {
	e, f := verifBool("enableCaller"), verifBool("fastCaller")
	if e == nil || f == nil {
		return false, false, false
	}
	return *e, *f, true
}

// VerifLive returns the live logger and appender instances (plugin structs): every element of every
// slice field of every struct-typed package-level variable (the lifecycle record, whatever it and its
// fields are called), sorted into loggers and appenders by the interface it implements.
func VerifLive() (ls []Logger, as []Appender) {
	seenL, seenA := map[Logger]bool{}, map[Appender]bool{}
	for _, p := range VerifGlobals() {
		gv := reflect.ValueOf(p).Elem()
		if gv.Kind() != reflect.Struct || gv.Type().PkgPath() != "" && gv.Type().PkgPath() != reflect.TypeOf(Tag{}).PkgPath() {
			continue
		}
		for i := 0; i < gv.NumField(); i++ {
			f := gv.Field(i)
			if f.Kind() != reflect.Slice || !f.CanAddr() {
				continue
			}
			k := f.Type().Elem().Kind()
			if k != reflect.Interface && k != reflect.Ptr {
				continue
			}
			f = reflect.NewAt(f.Type(), unsafe.Pointer(f.UnsafeAddr())).Elem()
			for k := 0; k < f.Len(); k++ {
				if !f.Index(k).CanInterface() {
					continue
				}
				x := f.Index(k).Interface()
				switch y := x.(type) {
				case Logger:
					if !seenL[y] {
						seenL[y] = true
						ls = append(ls, y)
					}
				case Appender:
					if !seenA[y] {
						seenA[y] = true
						as = append(as, y)
					}
				}
			}
		}
	}
	return
}

// VerifStateHash is the canonical hash of the implementation state reachable from the package-level
// variables (zzvrt.DeepHash); skip names variables that are left out.
func VerifStateHash(skip func(name string) bool) uint64 {
	return zzvrt.DeepHash(VerifGlobals(), reflect.TypeOf(Tag{}).PkgPath(), skip)
}

// VerifStateHashTrace: the hash with one line per token (debugging).
func VerifStateHashTrace(skip func(name string) bool) (uint64, []string) {
	return zzvrt.DeepHashTrace(VerifGlobals(), reflect.TypeOf(Tag{}).PkgPath(), skip)
}
