package log

import "sync"

// Accessors added to package log by overlay for the enumeration harness (not part of the library).

// VerifReset brings the package back to its initial state: stops whatever is running (best
// effort), unbinds every tag and handle, forgets tags/handles not in keepTags/keepHandles and
// restores the tunables.
func VerifReset(keepTag func(string) bool, keepHandle func(string) bool) (panicked any) {
	func() {
		defer func() { panicked = recover() }()
		Destroy()
	}()
	global.init = false
	global.loggers = nil
	global.appenders = nil
	for name, t := range tagRegistry {
		t.logger = nil
		if keepTag != nil && !keepTag(name) {
			delete(tagRegistry, name)
		}
	}
	for name, l := range loggerMap {
		l.logger = nil
		if keepHandle != nil && !keepHandle(name) {
			delete(loggerMap, name)
		}
	}
	BufferCap.Store(10 * 1024)
	enableCaller = true
	fastCaller = false
	TimeNow = nil
	StringFromContext = nil
	FieldsFromContext = nil
	return
}

// VerifIsValidTag exposes the tag-name predicate.
func VerifIsValidTag(s string) bool { return isValidTag(s) }

// VerifCallerMode reads the caller-lookup switches.
func VerifCallerMode() (enable, fast bool) { return enableCaller, fastCaller }

// VerifSetCallerMode sets the caller-lookup switches directly.
func VerifSetCallerMode(enable, fast bool) { enableCaller, fastCaller = enable, fast }

// VerifClearFrameCache empties the fast-caller cache.
func VerifClearFrameCache() { frameCache = sync.Map{} }

// VerifGlobal reports the lifecycle flag and the number of live loggers/appenders.
func VerifGlobal() (init bool, loggers, appenders int) {
	return global.init, len(global.loggers), len(global.appenders)
}

// VerifLive returns the live logger and appender instances (plugin structs).
func VerifLive() ([]Logger, []Appender) { return global.loggers, global.appenders }

// VerifTagLogger returns the logger bound to a registered tag (nil if unbound).
func VerifTagLogger(tag string) Logger {
	if t, ok := tagRegistry[tag]; ok {
		return t.logger
	}
	return nil
}

// VerifToCamelKey exposes the key normalisation.
func VerifToCamelKey(s string) string { return toCamelKey(s) }
