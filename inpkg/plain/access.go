package log

import (
	"reflect"
	"sync"
	"unsafe"
)

// Accessors added to package log by overlay for the enumeration harness (not part of the library).

// VerifReset brings the package back to its initial state: stops whatever is running (best
// effort), unbinds every tag and handle, forgets tags/handles not in keepTags/keepHandles and
// restores the tunables.
func VerifReset(keepTag func(string) bool, keepHandle func(string) bool) (panicked any) {
	func() {
		defer func() { panicked = recover() }()
		Destroy()
	}()
	// the whole lifecycle record back to its zero value, whatever its fields are called
	gv := reflect.ValueOf(&global).Elem()
	gv.Set(reflect.Zero(gv.Type()))
	for name, t := range tagRegistry {
		t.logger = nil
		if keepTag != nil && !keepTag(name) {
			delete(tagRegistry, name)
		}
	}
	for name, l := range loggerMap {
		l.logger = nil
		if keepHandle != nil && !keepHandle(name) {
			delete(loggerMap, name)
		}
	}
	BufferCap.Store(10 * 1024)
	enableCaller = true // verif:needs enableCaller
	fastCaller = false  // verif:needs fastCaller
	TimeNow = nil
	StringFromContext = nil
	FieldsFromContext = nil
	return
}

// VerifIsValidTag exposes the tag-name predicate.
func VerifIsValidTag(s string) bool { return isValidTag(s) }

// Lines marked `verif:needs` are dropped by the instrumenter when the tree under test no longer has
// the private name, so that a refactoring there degrades an accessor instead of breaking the build.

// VerifCallerMode reads the caller-lookup switches (ok=false: the tree has no such switches any more).
func VerifCallerMode() (enable, fast, ok bool) {
	n := 0
	enable, n = enableCaller, n+1 // verif:needs enableCaller
	fast, n = fastCaller, n+1     // verif:needs fastCaller
	return enable, fast, n == 2
}

// VerifSetCallerMode sets the caller-lookup switches directly.
func VerifSetCallerMode(enable, fast bool) {
	enableCaller = enable // verif:needs enableCaller
	fastCaller = fast     // verif:needs fastCaller
}

// VerifClearFrameCache empties the fast-caller cache.
func VerifClearFrameCache() {
	frameCache = sync.Map{} // verif:needs frameCache
}

var _ = sync.Map{}

// VerifLive returns the live logger and appender instances (plugin structs): every element of
// every slice in the package's lifecycle record, whatever its fields are called, sorted into loggers
// and appenders by the interface it implements.
func VerifLive() (ls []Logger, as []Appender) {
	gv := reflect.ValueOf(&global).Elem()
	for i := 0; i < gv.NumField(); i++ {
		f := gv.Field(i)
		if f.Kind() != reflect.Slice {
			continue
		}
		f = reflect.NewAt(f.Type(), unsafe.Pointer(f.UnsafeAddr())).Elem()
		for k := 0; k < f.Len(); k++ {
			switch x := f.Index(k).Interface().(type) {
			case Logger:
				ls = append(ls, x)
			case Appender:
				as = append(as, x)
			}
		}
	}
	return
}

// VerifTagLogger returns the logger bound to a registered tag (nil if unbound).
func VerifTagLogger(tag string) Logger {
	if t, ok := tagRegistry[tag]; ok {
		return t.logger
	}
	return nil
}

// VerifToCamelKey exposes the key normalisation.
func VerifToCamelKey(s string) string { return toCamelKey(s) }
