package log

import (
	"reflect"
	"sort"
)

// VerifPropertyNames lists the top-level configuration properties the tree under test has registered
// (RegisterProperty): the keys of every package-level map from string to a setter func(string) error,
// found through the generated VerifGlobals() table - no private name is used.
func VerifPropertyNames() []string {
	var out []string
	setter := reflect.TypeOf((func(string) error)(nil))
	for _, p := range VerifGlobals() {
		v := reflect.ValueOf(p)
		if v.Kind() != reflect.Ptr || v.IsNil() {
			continue
		}
		m := v.Elem()
		if m.Kind() != reflect.Map || m.Type().Key().Kind() != reflect.String || m.Type().Elem() != setter {
			continue
		}
		for _, k := range m.MapKeys() {
			out = append(out, k.String())
		}
	}
	sort.Strings(out)
	return out
}
