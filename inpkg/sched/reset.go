package log

import (
	"os"
	"reflect"
	"sync"
)

// VerifReset restores every piece of package-level state, so that each execution explored by the
// verification harness starts from the same state. (Added by overlay; not part of the library.)
// Lines marked `verif:needs` are dropped by the instrumenter when the tree under test no longer has
// the private name (the generated VerifResetGlobals restores every package-level variable anyway).
func VerifReset() {
	// the whole lifecycle record back to its zero value, whatever its fields are called
	gv := reflect.ValueOf(&global).Elem()
	gv.Set(reflect.Zero(gv.Type()))
	for _, t := range tagRegistry {
		t.logger = nil
	}
	for _, l := range loggerMap {
		l.logger = nil
	}
	bufferPool = sync.Pool{}                                   // verif:needs bufferPool
	eventPool = sync.Pool{New: func() any { return &Event{} }} // verif:needs eventPool
	frameCache = sync.Map{}                                    // verif:needs frameCache
	BufferCap.Store(10 * 1024)
	enableCaller = true // verif:needs enableCaller
	fastCaller = false  // verif:needs fastCaller
	TimeNow = nil
	StringFromContext = nil
	FieldsFromContext = nil
	Stdout = os.Stdout
}

// VerifCallerMode reads the caller-lookup switches (ok=false: the tree has no such switches any more).
func VerifCallerMode() (enable, fast, ok bool) {
	n := 0
	enable, n = enableCaller, n+1 // verif:needs enableCaller
	fast, n = fastCaller, n+1     // verif:needs fastCaller
	return enable, fast, n == 2
}

var _ = sync.Pool{}
