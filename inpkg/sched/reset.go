package log

import (
	"os"
	"reflect"
	"sync"
)

// VerifReset restores every piece of package-level state, so that each execution explored by the
// verification harness starts from the same state. (Added by overlay; not part of the library.)
func VerifReset() {
	// the whole lifecycle record back to its zero value, whatever its fields are called
	gv := reflect.ValueOf(&global).Elem()
	gv.Set(reflect.Zero(gv.Type()))
	for _, t := range tagRegistry {
		t.logger = nil
	}
	for _, l := range loggerMap {
		l.logger = nil
	}
	bufferPool = sync.Pool{}
	eventPool = sync.Pool{New: func() any { return &Event{} }}
	frameCache = sync.Map{}
	BufferCap.Store(10 * 1024)
	enableCaller = true
	fastCaller = false
	TimeNow = nil
	StringFromContext = nil
	FieldsFromContext = nil
	Stdout = os.Stdout
}

// VerifCallerMode reads the caller-lookup switches.
func VerifCallerMode() (enable, fast bool) { return enableCaller, fastCaller }
