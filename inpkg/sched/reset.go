package log

// Added to package log by overlay for the scheduler harness (not part of the library). Every execution
// starts from the generated VerifResetGlobals() (deep, in-place restore of everything reachable from
// the package-level variables); nothing here names a private identifier of the tree under test, and
// since the deep restore was built there is nothing left to do by hand.
