// Package vtime replaces "time" in instrumented sources. Under the scheduler Now() reads the
// execution's virtual clock; the explorer may move the clock past the next interval boundary at
// any Now() call (seam "tick").
package vtime

import (
	"time"

	zzvrt "github.com/go-spring/log/zzvrt"
)

type (
	Time       = time.Time
	Duration   = time.Duration
	Month      = time.Month
	Weekday    = time.Weekday
	Location   = time.Location
	ParseError = time.ParseError
)

const (
	Nanosecond  = time.Nanosecond
	Microsecond = time.Microsecond
	Millisecond = time.Millisecond
	Second      = time.Second
	Minute      = time.Minute
	Hour        = time.Hour

	Layout      = time.Layout
	ANSIC       = time.ANSIC
	RFC3339     = time.RFC3339
	RFC3339Nano = time.RFC3339Nano
	RFC1123     = time.RFC1123
	Kitchen     = time.Kitchen
	Stamp       = time.Stamp
	StampMilli  = time.StampMilli
	StampMicro  = time.StampMicro
	StampNano   = time.StampNano
	DateTime    = time.DateTime
	DateOnly    = time.DateOnly
	TimeOnly    = time.TimeOnly

	January   = time.January
	February  = time.February
	March     = time.March
	April     = time.April
	May       = time.May
	June      = time.June
	July      = time.July
	August    = time.August
	September = time.September
	October   = time.October
	November  = time.November
	December  = time.December
)

var (
	UTC   = time.UTC
	Local = time.Local
)

// Now reads the virtual clock (a scheduling point; the explorer may tick first).
func Now() Time {
	x := zzvrt.Cur()
	if x == nil {
		return time.Now()
	}
	zzvrt.Point(zzvrt.KTime, nil)
	if k := zzvrt.Choose(zzvrt.SeamTick, 1+len(x.TickLands)); k > 0 {
		x.Now = x.Now.Truncate(x.TickStep).Add(x.TickStep).Add(x.TickLands[k-1])
		zzvrt.Tracef("clock ticks to %s", x.Now.Format("2006-01-02T15:04:05.000"))
	}
	fire(x)
	return x.Now
}

func Since(t Time) Duration { return Now().Sub(t) }
func Until(t Time) Duration { return t.Sub(Now()) }

// Sleep advances the virtual clock.
func Sleep(d Duration) {
	x := zzvrt.Cur()
	if x == nil {
		time.Sleep(d)
		return
	}
	zzvrt.Point(zzvrt.KTime, nil)
	x.Now = x.Now.Add(d)
	fire(x)
}

func Unix(sec, nsec int64) Time { return time.Unix(sec, nsec) }
func UnixMilli(ms int64) Time   { return time.UnixMilli(ms) }
func UnixMicro(us int64) Time   { return time.UnixMicro(us) }
func Date(y int, m Month, d, h, mi, s, ns int, loc *Location) Time {
	return time.Date(y, m, d, h, mi, s, ns, loc)
}
func Parse(layout, v string) (Time, error) { return time.Parse(layout, v) }
func ParseInLocation(layout, v string, loc *Location) (Time, error) {
	return time.ParseInLocation(layout, v, loc)
}
func ParseDuration(s string) (Duration, error)    { return time.ParseDuration(s) }
func FixedZone(name string, off int) *Location    { return time.FixedZone(name, off) }
func LoadLocation(name string) (*Location, error) { return time.LoadLocation(name) }

// ---- timers on the virtual clock ----------------------------------------------------------------
//
// A timer fires when the virtual clock has reached its deadline: at a clock read / Sleep at or after
// it, or - real time passes however slow the rest of the system is - at ANY scheduling point: the first
// timer of an execution starts a "timekeeper" thread which the explorer may schedule like any other
// thread (running it while another thread could run costs a preemption; when every other thread is
// blocked it runs for free: time passes while everybody waits). When it runs it moves the virtual clock
// to the earliest pending deadline and fires what is due. It fires at most maxKeeperFirings times per
// execution (periodic timers would otherwise never let an execution end). Outside the scheduler the
// real package is used through thin wrappers whose channel is fed by a goroutine.

type Timer struct {
	C      *zzvrt.Chan[Time]
	when   Time
	period Duration
	f      func()
	live   bool
	x      *zzvrt.Exec
	real   *time.Timer
}

type Ticker struct {
	C *zzvrt.Chan[Time]
	t *Timer
}

var (
	timersOf    *zzvrt.Exec
	timers      []*Timer
	keeperAlive bool
	keeperFired int
)

const maxKeeperFirings = 4

// earliest returns the live timer with the earliest deadline.
func earliest() *Timer {
	var e *Timer
	for _, t := range timers {
		if t.live && (e == nil || t.when.Before(e.when)) {
			e = t
		}
	}
	return e
}

// ensureKeeper starts the timekeeper thread of the current execution if a live timer has none.
func ensureKeeper(x *zzvrt.Exec) {
	if keeperAlive || keeperFired >= maxKeeperFirings {
		return
	}
	keeperAlive = true
	zzvrt.GoNamed("timekeeper", func() {
		defer func() { keeperAlive = false }()
		for keeperFired < maxKeeperFirings && timersOf == x {
			if earliest() == nil {
				return
			}
			zzvrt.Point(zzvrt.KTime, nil) // the others may run first (or be preempted here)
			t := earliest()
			if t == nil {
				return
			}
			if x.Now.Before(t.when) {
				x.Now = t.when
				zzvrt.Tracef("time passes: clock at %s (timer due)", x.Now.Format("2006-01-02T15:04:05.000"))
			}
			keeperFired++
			fire(x)
		}
	})
}

func addTimer(d Duration, period Duration, f func()) *Timer {
	x := zzvrt.Cur()
	t := &Timer{C: zzvrt.MakeChan[Time](1), period: period, f: f, live: true, x: x}
	if x == nil {
		// pass-through: a real timer feeding the shim channel
		if f != nil {
			t.real = time.AfterFunc(d, f)
			return t
		}
		t.real = time.AfterFunc(d, func() { zzvrt.Select(true, t.C.SendCase(time.Now())) })
		return t
	}
	if timersOf != x {
		timersOf, timers, keeperAlive, keeperFired = x, nil, false, 0
	}
	t.when = x.Now.Add(d)
	timers = append(timers, t)
	ensureKeeper(x)
	return t
}

// fire runs every live timer of the current execution whose deadline has been reached.
func fire(x *zzvrt.Exec) {
	if timersOf != x {
		return
	}
	for _, t := range timers {
		for t.live && !t.when.After(x.Now) {
			if t.f != nil {
				zzvrt.Go(t.f)
			} else {
				zzvrt.Select(true, t.C.SendCase(x.Now))
			}
			if t.period > 0 {
				// a ticker drops ticks its receiver is too slow for: after a long jump of the clock one tick is
				// delivered and the next is due one period after the current instant's grid point
				t.when = t.when.Add(t.period)
				if behind := x.Now.Sub(t.when); behind > 0 {
					t.when = t.when.Add((behind/t.period + 1) * t.period)
				}
			} else {
				t.live = false
			}
		}
	}
}

func NewTimer(d Duration) *Timer            { return addTimer(d, 0, nil) }
func AfterFunc(d Duration, f func()) *Timer { return addTimer(d, 0, f) }
func After(d Duration) *zzvrt.Chan[Time]    { return addTimer(d, 0, nil).C }
func NewTicker(d Duration) *Ticker          { t := addTimer(d, d, nil); return &Ticker{C: t.C, t: t} }
func Tick(d Duration) *zzvrt.Chan[Time]     { return NewTicker(d).C }

func (t *Timer) Stop() bool {
	if t.real != nil {
		return t.real.Stop()
	}
	was := t.live
	t.live = false
	return was
}

func (t *Timer) Reset(d Duration) bool {
	if t.real != nil {
		return t.real.Reset(d)
	}
	was := t.live
	t.live = true
	if x := zzvrt.Cur(); x != nil {
		t.when = x.Now.Add(d)
		if timersOf == x {
			ensureKeeper(x)
		}
	}
	return was
}

func (t *Ticker) Stop()            { t.t.Stop() }
func (t *Ticker) Reset(d Duration) { t.t.period = d; t.t.Reset(d) }
