// Package vsync replaces "sync" in instrumented sources.
package vsync

import (
	"fmt"
	"reflect"
	"sort"

	zzvrt "github.com/go-spring/log/zzvrt"
)

// Locker mirrors sync.Locker.
type Locker interface {
	Lock()
	Unlock()
}

// Pool mirrors sync.Pool. Default answer of Get: the most recently Put object (maximal aliasing);
// deviation (seam poolmiss): behave as if the pool were empty.
type Pool struct {
	New   func() any
	items []any
}

func (p *Pool) Get() any {
	zzvrt.Point(zzvrt.KPool, nil)
	if n := len(p.items); n > 0 {
		if zzvrt.Choose(zzvrt.SeamPoolMiss, 2) == 0 {
			v := p.items[n-1]
			p.items[n-1] = nil
			p.items = p.items[:n-1]
			return v
		}
	}
	if p.New != nil {
		return p.New()
	}
	return nil
}

func (p *Pool) Put(v any) {
	zzvrt.Point(zzvrt.KPool, nil)
	if v == nil {
		return
	}
	// an object that is put back while it is already in the pool will be handed to two callers: whatever
	// the order in which the pool returns its objects, that is a defect of the code under test (the real
	// sync.Pool would show it only for some orders), so the execution ends with an outcome of its own
	if rv := reflect.ValueOf(v); rv.Kind() == reflect.Ptr {
		for _, it := range p.items {
			if it == v {
				zzvrt.Abort(fmt.Sprintf("panic: pooled object %T put back while it is already in the pool (two later Get calls would share it)", v))
			}
		}
	}
	p.items = append(p.items, v)
}

// Len reports the number of pooled objects (oracle use).
func (p *Pool) Len() int { return len(p.items) }

// Mutex mirrors sync.Mutex.
type Mutex struct{ locked bool }

func (m *Mutex) Lock() {
	zzvrt.Point(zzvrt.KMutex, func() bool { return !m.locked })
	m.locked = true
}
func (m *Mutex) TryLock() bool {
	zzvrt.Point(zzvrt.KMutex, nil)
	if m.locked {
		return false
	}
	m.locked = true
	return true
}
func (m *Mutex) Unlock() {
	zzvrt.Point(zzvrt.KMutex, nil)
	if !m.locked {
		panic("sync: unlock of unlocked mutex")
	}
	m.locked = false
}

// RWMutex mirrors sync.RWMutex.
type RWMutex struct {
	w       bool
	readers int
	pending int // writers waiting in Lock: like the real type, a pending writer holds back NEW readers
}

func (m *RWMutex) Lock() {
	m.pending++
	zzvrt.Point(zzvrt.KMutex, func() bool { return !m.w && m.readers == 0 })
	m.pending--
	m.w = true
}
func (m *RWMutex) Unlock() {
	zzvrt.Point(zzvrt.KMutex, nil)
	if !m.w {
		panic("sync: Unlock of unlocked RWMutex")
	}
	m.w = false
}
func (m *RWMutex) RLock() {
	// (a reader that arrives while a writer waits queues behind it: a goroutine that takes the read lock twice
	// deadlocks when a writer arrives in between - as it does on the real type)
	zzvrt.Point(zzvrt.KMutex, func() bool { return !m.w && m.pending == 0 })
	m.readers++
}
func (m *RWMutex) RUnlock() {
	zzvrt.Point(zzvrt.KMutex, nil)
	if m.readers <= 0 {
		panic("sync: RUnlock of unlocked RWMutex")
	}
	m.readers--
}
func (m *RWMutex) TryLock() bool {
	zzvrt.Point(zzvrt.KMutex, nil)
	if m.w || m.readers > 0 {
		return false
	}
	m.w = true
	return true
}
func (m *RWMutex) TryRLock() bool {
	zzvrt.Point(zzvrt.KMutex, nil)
	if m.w || m.pending > 0 {
		return false
	}
	m.readers++
	return true
}
func (m *RWMutex) RLocker() Locker { return rlocker{m} }

type rlocker struct{ m *RWMutex }

func (r rlocker) Lock()   { r.m.RLock() }
func (r rlocker) Unlock() { r.m.RUnlock() }

// WaitGroup mirrors sync.WaitGroup.
type WaitGroup struct{ n int }

func (w *WaitGroup) Add(d int) {
	zzvrt.Point(zzvrt.KMutex, nil)
	w.n += d
	if w.n < 0 {
		panic("sync: negative WaitGroup counter")
	}
}
func (w *WaitGroup) Done() { w.Add(-1) }
func (w *WaitGroup) Wait() { zzvrt.Point(zzvrt.KMutex, func() bool { return w.n == 0 }) }
func (w *WaitGroup) Go(f func()) {
	w.Add(1)
	zzvrt.Go(func() {
		defer w.Done()
		f()
	})
}

// Once mirrors sync.Once.
type Once struct {
	m    Mutex
	done bool
}

func (o *Once) Do(f func()) {
	o.m.Lock()
	defer o.m.Unlock()
	if !o.done {
		defer func() { o.done = true }()
		f()
	}
}

// OnceFunc / OnceValue mirror the sync helpers.
func OnceFunc(f func()) func() {
	var o Once
	return func() { o.Do(f) }
}
func OnceValue[T any](f func() T) func() T {
	var o Once
	var v T
	return func() T { o.Do(func() { v = f() }); return v }
}

// Cond mirrors sync.Cond.
type Cond struct {
	L       Locker
	waiters []*bool
}

func NewCond(l Locker) *Cond { return &Cond{L: l} }
func (c *Cond) Wait() {
	woken := false
	c.waiters = append(c.waiters, &woken)
	c.L.Unlock()
	zzvrt.Point(zzvrt.KMutex, func() bool { return woken })
	c.L.Lock()
}
func (c *Cond) Signal() {
	zzvrt.Point(zzvrt.KMutex, nil)
	if len(c.waiters) > 0 {
		*c.waiters[0] = true
		c.waiters = c.waiters[1:]
	}
}
func (c *Cond) Broadcast() {
	zzvrt.Point(zzvrt.KMutex, nil)
	for _, w := range c.waiters {
		*w = true
	}
	c.waiters = nil
}

// Map mirrors sync.Map (insertion-ordered so that Range is deterministic).
type Map struct {
	m    map[any]any
	keys []any
}

func (m *Map) init() {
	if m.m == nil {
		m.m = map[any]any{}
	}
}
func (m *Map) Load(k any) (any, bool) {
	zzvrt.Point(zzvrt.KMap, nil)
	v, ok := m.m[k]
	return v, ok
}
func (m *Map) Store(k, v any) {
	zzvrt.Point(zzvrt.KMap, nil)
	m.store(k, v)
	zzvrt.PostPoint()
}
func (m *Map) store(k, v any) {
	m.init()
	if _, ok := m.m[k]; !ok {
		m.keys = append(m.keys, k)
	}
	m.m[k] = v
}
func (m *Map) LoadOrStore(k, v any) (any, bool) {
	zzvrt.Point(zzvrt.KMap, nil)
	if old, ok := m.m[k]; ok {
		return old, true
	}
	m.store(k, v)
	zzvrt.PostPoint()
	return v, false
}
func (m *Map) LoadAndDelete(k any) (any, bool) {
	zzvrt.Point(zzvrt.KMap, nil)
	v, ok := m.m[k]
	m.del(k)
	return v, ok
}
func (m *Map) Delete(k any) {
	zzvrt.Point(zzvrt.KMap, nil)
	m.del(k)
}
func (m *Map) del(k any) {
	if _, ok := m.m[k]; ok {
		delete(m.m, k)
		for i, q := range m.keys {
			if q == k {
				m.keys = append(m.keys[:i:i], m.keys[i+1:]...)
				break
			}
		}
	}
}
func (m *Map) Swap(k, v any) (any, bool) {
	zzvrt.Point(zzvrt.KMap, nil)
	old, ok := m.m[k]
	m.store(k, v)
	zzvrt.PostPoint()
	return old, ok
}
func (m *Map) CompareAndSwap(k, old, new any) bool {
	zzvrt.Point(zzvrt.KMap, nil)
	if cur, ok := m.m[k]; ok && cur == old {
		m.m[k] = new
		zzvrt.PostPoint()
		return true
	}
	return false
}
func (m *Map) CompareAndDelete(k, old any) bool {
	zzvrt.Point(zzvrt.KMap, nil)
	if cur, ok := m.m[k]; ok && cur == old {
		m.del(k)
		return true
	}
	return false
}
func (m *Map) Range(f func(k, v any) bool) {
	zzvrt.Point(zzvrt.KMap, nil)
	for _, k := range append([]any(nil), m.keys...) {
		if v, ok := m.m[k]; ok {
			if !f(k, v) {
				return
			}
		}
	}
}
func (m *Map) Clear() {
	zzvrt.Point(zzvrt.KMap, nil)
	m.m, m.keys = nil, nil
}

// Len reports the number of entries (oracle use).
func (m *Map) Len() int { return len(m.m) }

var _ = fmt.Sprint
var _ = sort.Strings
