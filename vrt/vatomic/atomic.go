// Package vatomic replaces "sync/atomic" in instrumented sources: every operation is a scheduling
// point and takes effect atomically (Go's atomics are sequentially consistent).
package vatomic

import (
	"reflect"
	"unsafe"

	zzvrt "github.com/go-spring/log/zzvrt"
)

func pt() { zzvrt.Point(zzvrt.KAtomic, nil) }
func pp() { zzvrt.PostPoint() }

type integer interface {
	~int32 | ~int64 | ~uint32 | ~uint64 | ~uintptr
}

type num[T integer] struct{ v T }

func (x *num[T]) Load() T    { pt(); return x.v }
func (x *num[T]) Store(v T)  { pt(); x.v = v; pp() }
func (x *num[T]) Swap(v T) T { pt(); o := x.v; x.v = v; pp(); return o }
func (x *num[T]) Add(d T) T  { pt(); x.v += d; n := x.v; pp(); return n }
func (x *num[T]) And(m T) T  { pt(); o := x.v; x.v &= m; pp(); return o }
func (x *num[T]) Or(m T) T   { pt(); o := x.v; x.v |= m; pp(); return o }
func (x *num[T]) CompareAndSwap(o, n T) bool {
	pt()
	if x.v == o {
		x.v = n
		pp()
		return true
	}
	return false
}

// Peek reads the value without a scheduling point (oracle use).
func (x *num[T]) Peek() T { return x.v }

type Int32 struct{ num[int32] }
type Int64 struct{ num[int64] }
type Uint32 struct{ num[uint32] }
type Uint64 struct{ num[uint64] }
type Uintptr struct{ num[uintptr] }

type Bool struct{ v bool }

func (x *Bool) Load() bool       { pt(); return x.v }
func (x *Bool) Store(v bool)     { pt(); x.v = v; pp() }
func (x *Bool) Swap(v bool) bool { pt(); o := x.v; x.v = v; pp(); return o }
func (x *Bool) CompareAndSwap(o, n bool) bool {
	pt()
	if x.v == o {
		x.v = n
		pp()
		return true
	}
	return false
}

type Pointer[T any] struct{ p *T }

func (x *Pointer[T]) Load() *T     { pt(); return x.p }
func (x *Pointer[T]) Store(p *T)   { pt(); x.p = p; pp() }
func (x *Pointer[T]) Swap(p *T) *T { pt(); o := x.p; x.p = p; pp(); return o }
func (x *Pointer[T]) Peek() *T     { return x.p }
func (x *Pointer[T]) CompareAndSwap(o, n *T) bool {
	pt()
	if x.p == o {
		x.p = n
		pp()
		return true
	}
	return false
}

type Value struct{ v any }

// The panics of the real type are part of its behaviour (a nil value, a value whose concrete type differs
// from the one stored first): code that stores two kinds of error into one Value crashes in production.
func (x *Value) check(v any, op string) {
	if v == nil {
		panic("sync/atomic: " + op + " of nil value into Value")
	}
	if x.v != nil && reflect.TypeOf(x.v) != reflect.TypeOf(v) {
		panic("sync/atomic: " + op + " of inconsistently typed value into Value")
	}
}

func (x *Value) Load() any   { pt(); return x.v }
func (x *Value) Store(v any) { pt(); x.check(v, "store"); x.v = v; pp() }
func (x *Value) Swap(v any) any {
	pt()
	x.check(v, "swap")
	o := x.v
	x.v = v
	pp()
	return o
}
func (x *Value) CompareAndSwap(o, n any) bool {
	pt()
	if n == nil {
		panic("sync/atomic: compare and swap of nil value into Value")
	}
	if o != nil && reflect.TypeOf(o) != reflect.TypeOf(n) {
		panic("sync/atomic: compare and swap of inconsistently typed values")
	}
	if x.v == nil {
		if o != nil {
			return false
		}
		x.v = n
		pp()
		return true
	}
	if reflect.TypeOf(x.v) != reflect.TypeOf(n) {
		panic("sync/atomic: compare and swap of inconsistently typed value into Value")
	}
	if x.v == o {
		x.v = n
		pp()
		return true
	}
	return false
}

func LoadInt32(p *int32) int32                         { pt(); return *p }
func LoadInt64(p *int64) int64                         { pt(); return *p }
func LoadUint32(p *uint32) uint32                      { pt(); return *p }
func LoadUint64(p *uint64) uint64                      { pt(); return *p }
func LoadUintptr(p *uintptr) uintptr                   { pt(); return *p }
func LoadPointer(p *unsafe.Pointer) unsafe.Pointer     { pt(); return *p }
func StoreInt32(p *int32, v int32)                     { pt(); *p = v; pp() }
func StoreInt64(p *int64, v int64)                     { pt(); *p = v; pp() }
func StoreUint32(p *uint32, v uint32)                  { pt(); *p = v; pp() }
func StoreUint64(p *uint64, v uint64)                  { pt(); *p = v; pp() }
func StoreUintptr(p *uintptr, v uintptr)               { pt(); *p = v; pp() }
func StorePointer(p *unsafe.Pointer, v unsafe.Pointer) { pt(); *p = v; pp() }
func AddInt32(p *int32, d int32) int32                 { pt(); *p += d; n := *p; pp(); return n }
func AddInt64(p *int64, d int64) int64                 { pt(); *p += d; n := *p; pp(); return n }
func AddUint32(p *uint32, d uint32) uint32             { pt(); *p += d; n := *p; pp(); return n }
func AddUint64(p *uint64, d uint64) uint64             { pt(); *p += d; n := *p; pp(); return n }
func AddUintptr(p *uintptr, d uintptr) uintptr         { pt(); *p += d; n := *p; pp(); return n }
func SwapInt32(p *int32, v int32) int32                { pt(); o := *p; *p = v; pp(); return o }
func SwapInt64(p *int64, v int64) int64                { pt(); o := *p; *p = v; pp(); return o }
func SwapUint32(p *uint32, v uint32) uint32            { pt(); o := *p; *p = v; pp(); return o }
func SwapUint64(p *uint64, v uint64) uint64            { pt(); o := *p; *p = v; pp(); return o }
func SwapPointer(p *unsafe.Pointer, v unsafe.Pointer) unsafe.Pointer {
	pt()
	o := *p
	*p = v
	pp()
	return o
}
func CompareAndSwapInt32(p *int32, o, n int32) bool {
	pt()
	if *p == o {
		*p = n
		pp()
		return true
	}
	return false
}
func CompareAndSwapInt64(p *int64, o, n int64) bool {
	pt()
	if *p == o {
		*p = n
		pp()
		return true
	}
	return false
}
func CompareAndSwapUint32(p *uint32, o, n uint32) bool {
	pt()
	if *p == o {
		*p = n
		pp()
		return true
	}
	return false
}
func CompareAndSwapUint64(p *uint64, o, n uint64) bool {
	pt()
	if *p == o {
		*p = n
		pp()
		return true
	}
	return false
}
func CompareAndSwapPointer(p *unsafe.Pointer, o, n unsafe.Pointer) bool {
	pt()
	if *p == o {
		*p = n
		pp()
		return true
	}
	return false
}
