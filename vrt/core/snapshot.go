package zzvrt

import (
	"reflect"
	"sort"
	"strings"
	"unsafe"
)

// HeapSnap is a snapshot of everything reachable from a set of root variables (the package-level
// variables of the package under test) through types declared in that package or unnamed composite
// types. Restore writes every recorded memory block back IN PLACE (same addresses, so pointers held by
// the harness - tags, handles - stay valid) and refills every recorded map in place. Values of foreign
// named types (sync.Pool, sync.Map, atomic.*, os.File, bytes.Buffer, reflect.Type ...) are restored as
// bits where they sit inside a recorded block and are not followed. Objects allocated after the
// snapshot simply become unreachable again.
//
// This is what gives every explored execution / enumerated case the same start state without the
// harness naming a single private identifier of the tree under test.
type HeapSnap struct {
	follow func(reflect.Type) bool
	blocks []heapBlock
	maps   []heapMap
	seen   map[seenKey]bool
	Roots  []string
}

type seenKey struct {
	p unsafe.Pointer
	t reflect.Type
}

type heapBlock struct {
	view  reflect.Value // settable view of the block (reflect.NewAt(t, addr).Elem())
	saved reflect.Value // copy taken at snapshot time
}

type heapMap struct {
	m    reflect.Value // the map object (settable view)
	keys []reflect.Value
	vals []reflect.Value
}

// DeepSnapshot records the state reachable from roots (name -> pointer to the variable). modPath is
// the import path of the package whose named types are followed.
func DeepSnapshot(roots map[string]any, modPath string) *HeapSnap {
	h := &HeapSnap{seen: map[seenKey]bool{}}
	h.follow = func(t reflect.Type) bool {
		pp := t.PkgPath()
		return pp == "" || pp == modPath
	}
	names := make([]string, 0, len(roots))
	for n := range roots {
		names = append(names, n)
	}
	sort.Strings(names)
	h.Roots = names
	for _, n := range names {
		pv := reflect.ValueOf(roots[n])
		if pv.Kind() != reflect.Ptr || pv.IsNil() {
			continue
		}
		h.block(pv.UnsafePointer(), pv.Type().Elem())
	}
	h.seen = nil
	return h
}

// block records the memory block of type t at p (once) and walks it.
func (h *HeapSnap) block(p unsafe.Pointer, t reflect.Type) {
	if p == nil || t.Size() == 0 {
		return
	}
	k := seenKey{p, t}
	if h.seen[k] {
		return
	}
	h.seen[k] = true
	view := reflect.NewAt(t, p).Elem()
	saved := reflect.New(t).Elem()
	saved.Set(view)
	h.blocks = append(h.blocks, heapBlock{view: view, saved: saved})
	h.walk(view)
}

// rw returns a view of v without the read-only flag reflect puts on unexported fields.
func rw(v reflect.Value) reflect.Value {
	if v.CanAddr() {
		return reflect.NewAt(v.Type(), unsafe.Pointer(v.UnsafeAddr())).Elem()
	}
	return v
}

// walk follows the pointers inside v (v itself is already covered by a recorded block or is a copy).
// v must be addressable (blocks and the copies made here are); the read-only flag is stripped first.
func (h *HeapSnap) walk(v reflect.Value) {
	v = rw(v)
	t := v.Type()
	if t.PkgPath() != "" && !h.follow(t) {
		// foreign named type: opaque, except atomic.Pointer[T] whose target may be one of ours
		if t.PkgPath() == "sync/atomic" && strings.HasPrefix(t.Name(), "Pointer[") && t.Kind() == reflect.Struct && t.NumField() == 3 && v.CanAddr() {
			et := t.Field(0).Type // [0]*T
			if et.Kind() == reflect.Array && et.Elem().Kind() == reflect.Ptr {
				tt := et.Elem().Elem()
				if h.follow(tt) {
					p := *(*unsafe.Pointer)(unsafe.Pointer(v.Field(2).UnsafeAddr()))
					h.block(p, tt)
				}
			}
		}
		return
	}
	switch v.Kind() {
	case reflect.Ptr:
		if !v.IsNil() && h.follow(t.Elem()) {
			h.block(v.UnsafePointer(), t.Elem())
		}
	case reflect.Interface:
		if !v.IsNil() {
			e := v.Elem()
			if e.Kind() == reflect.Ptr {
				if !e.IsNil() && h.follow(e.Type().Elem()) {
					h.block(e.UnsafePointer(), e.Type().Elem())
				}
			} else if h.follow(e.Type()) && hasPointers(e.Type()) {
				c := reflect.New(e.Type()).Elem() // boxed copy: immutable itself, but may hold pointers
				c.Set(e)
				h.walk(c)
			}
		}
	case reflect.Struct:
		for i := 0; i < v.NumField(); i++ {
			h.walk(v.Field(i))
		}
	case reflect.Array:
		if hasPointers(t.Elem()) {
			for i := 0; i < v.Len(); i++ {
				h.walk(v.Index(i))
			}
		}
	case reflect.Slice:
		if !v.IsNil() && v.Len() > 0 {
			h.block(v.UnsafePointer(), reflect.ArrayOf(v.Len(), t.Elem()))
		}
	case reflect.Map:
		if v.IsNil() {
			return
		}
		m := reflect.New(t).Elem() // our own settable handle on the same map object
		m.Set(v)
		k := seenKey{m.UnsafePointer(), t}
		if h.seen[k] {
			return
		}
		h.seen[k] = true
		hm := heapMap{m: m}
		it := m.MapRange()
		for it.Next() {
			kc := reflect.New(t.Key()).Elem()
			kc.Set(it.Key())
			vc := reflect.New(t.Elem()).Elem()
			vc.Set(it.Value())
			hm.keys = append(hm.keys, kc)
			hm.vals = append(hm.vals, vc)
			h.walk(kc)
			h.walk(vc)
		}
		h.maps = append(h.maps, hm)
	}
}

func hasPointers(t reflect.Type) bool {
	switch t.Kind() {
	case reflect.Bool, reflect.Int, reflect.Int8, reflect.Int16, reflect.Int32, reflect.Int64, reflect.Uint, reflect.Uint8, reflect.Uint16,
		reflect.Uint32, reflect.Uint64, reflect.Uintptr, reflect.Float32, reflect.Float64, reflect.Complex64, reflect.Complex128:
		return false
	}
	return true
}

// Restore brings every recorded block and map back to its snapshot value.
func (h *HeapSnap) Restore() {
	for i := range h.blocks {
		b := &h.blocks[i]
		b.view.Set(b.saved)
	}
	for i := range h.maps {
		m := &h.maps[i]
		m.m.Clear()
		for j := range m.keys {
			m.m.SetMapIndex(m.keys[j], m.vals[j])
		}
	}
}

// Size reports what the snapshot covers (blocks, maps).
func (h *HeapSnap) Size() (int, int) { return len(h.blocks), len(h.maps) }

// VisitStructs calls f with a settable view of every recorded block (and array element / nested
// struct inside it) whose type is t.
func (h *HeapSnap) VisitStructs(t reflect.Type, f func(reflect.Value)) {
	var visit func(v reflect.Value)
	visit = func(v reflect.Value) {
		if v.Type() == t {
			f(rw(v))
			return
		}
		if v.Type().PkgPath() != "" && !h.follow(v.Type()) {
			return
		}
		switch v.Kind() {
		case reflect.Struct:
			for i := 0; i < v.NumField(); i++ {
				visit(v.Field(i))
			}
		case reflect.Array:
			if v.Type().Elem().Kind() == reflect.Struct || v.Type().Elem().Kind() == reflect.Array {
				for i := 0; i < v.Len(); i++ {
					visit(v.Index(i))
				}
			}
		}
	}
	for i := range h.blocks {
		visit(h.blocks[i].view)
	}
}
