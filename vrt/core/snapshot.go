package zzvrt

import "reflect"

// Snapshot records the current value of *p and returns a function that restores it. Maps and slices
// are cloned one level deep (at snapshot time and at every restore), so that entries added or removed
// by an execution do not leak into the next one; pointers are restored as pointers (what they point
// to is the business of the explicit reset code).
func Snapshot[T any](p *T) func() {
	v := reflect.ValueOf(p).Elem()
	saved := cloneShallow(v)
	return func() { v.Set(cloneShallow(saved)) }
}

func cloneShallow(v reflect.Value) reflect.Value {
	switch v.Kind() {
	case reflect.Map:
		if v.IsNil() {
			return v
		}
		c := reflect.MakeMapWithSize(v.Type(), v.Len())
		it := v.MapRange()
		for it.Next() {
			c.SetMapIndex(it.Key(), it.Value())
		}
		return c
	case reflect.Slice:
		if v.IsNil() {
			return v
		}
		c := reflect.MakeSlice(v.Type(), v.Len(), v.Len())
		reflect.Copy(c, v)
		return c
	}
	c := reflect.New(v.Type()).Elem()
	c.Set(v)
	return c
}
