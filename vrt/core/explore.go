package zzvrt

import (
	"fmt"
	"hash/fnv"
	"os"
	"strconv"
	"time"
)

// Violation is one oracle failure of one execution.
type Violation struct {
	Clause string `json:"clause"` // oracle clause that failed
	Key    string `json:"key"`    // stable identification of what fails (used for known findings)
	Detail string `json:"detail"`
}

// Scenario is a closed harness explored under the scheduler.
type Scenario struct {
	Name   string
	Desc   string                                    // human-readable description of the member (families)
	Before func()                                    // runs outside the scheduler before every execution (reset)
	Body   func()                                    // thread 0
	Check  func(x *Exec) (obs string, v []Violation) // oracle, runs after the execution (outside the scheduler)
	Opts   RunOpts
}

// Found is a violation together with the schedule that produced it.
type Found struct {
	Scenario string    `json:"scenario"`
	Choices  []int     `json:"choices"`
	Outcome  string    `json:"outcome"`
	Viol     Violation `json:"violation"`
	Trace    []string  `json:"trace,omitempty"`
	Obs      string    `json:"observation,omitempty"`
}

// Stats is what one exploration covered.
type Stats struct {
	Scenario      string           `json:"scenario"`
	Bounds        string           `json:"bounds"`
	Executions    int64            `json:"executions"`
	Steps         int64            `json:"steps"`      // scheduled steps over all executions
	TreeNodes     int64            `json:"tree_nodes"` // distinct decision-tree nodes (choice prefixes) visited
	MaxPoints     int              `json:"max_points"`
	MaxSteps      int              `json:"max_steps"`
	Outcomes      map[string]int64 `json:"outcomes"`     // execution outcome class -> count
	DistinctObs   int              `json:"distinct_obs"` // distinct observations (hash of Check's obs)
	obs           map[uint64]struct{}
	ObsHashes     []uint64         `json:"obs_hashes,omitempty"`
	Capped        bool             `json:"capped"`
	Found         []Found          `json:"found,omitempty"`
	Sample        []int            `json:"sample_choices,omitempty"`
	SampleTrace   []string         `json:"sample_trace,omitempty"`
	ReplayChecked int              `json:"replay_determinism_checked"`
	MaxPreempt    int              `json:"max_preemptions_used"`
	Members       int              `json:"members,omitempty"` // scenario families: members explored
	Extra         map[string]int64 `json:"extra,omitempty"`   // harness-defined counters (e.g. vfs traces replayed on the real filesystem)
}

func (b Bounds) String() string {
	s := fmt.Sprintf("P<=%d", b.Preempt)
	if b.Preempt < 0 {
		s = "P unbounded"
	}
	for i := Seam(0); i < NSeams; i++ {
		if i != SeamSelect && b.Env[i] > 0 {
			s += fmt.Sprintf(" %s<=%d", i, b.Env[i])
		}
	}
	return s
}

func hashStr(s string) uint64 {
	h := fnv.New64a()
	h.Write([]byte(s))
	return h.Sum64()
}

// Explorer enumerates every execution of a scenario within its bounds.
type Explorer struct {
	S        *Scenario
	Shard    int
	NShards  int
	Deadline time.Time
	MaxFound int
	Stats    Stats
}

type workItem struct {
	prefix []int
}

// children computes the unexplored alternatives of execution x that lie beyond its prefix.
func children(x *Exec, plen int, b Bounds) [][]int {
	var out [][]int
	pre := 0
	var used [NSeams]int
	for i := 0; i < len(x.Points); i++ {
		p := x.Points[i]
		if i >= plen {
			for alt := 1; alt < p.N; alt++ {
				ok := true
				if p.Env {
					if p.Seam != SeamSelect && used[p.Seam]+1 > b.Env[p.Seam] {
						ok = false
					}
				} else if p.Preempt {
					if b.Preempt >= 0 && pre+1 > b.Preempt {
						ok = false
					}
				}
				if !ok {
					break
				}
				c := make([]int, i+1)
				for j := 0; j < i; j++ {
					c[j] = x.Points[j].Choice
				}
				c[i] = alt
				out = append(out, c)
			}
		}
		if p.Choice > 0 {
			if p.Env {
				if p.Seam != SeamSelect {
					used[p.Seam]++
				}
			} else if p.Preempt {
				pre++
			}
		}
	}
	return out
}

// Post-publication scheduling points (see PostPoint) are on for every scenario: they only add schedules
// that a real preemption right after an atomic operation produces. VERIF_POSTPUBLISH=0 turns them off
// (to compare state-space sizes), leaving them to scenarios that ask for them in their RunOpts.
var forcePostPublish = os.Getenv("VERIF_POSTPUBLISH") != "0"

func (e *Explorer) runOne(prefix []int, trace bool) (*Exec, string, []Violation) {
	if e.S.Before != nil {
		e.S.Before()
	}
	o := e.S.Opts
	o.Trace = trace
	if forcePostPublish {
		o.PostPublish = true
	}
	x := Run(e.S.Body, prefix, o)
	obs, v := e.S.Check(x)
	return x, obs, v
}

func (e *Explorer) account(x *Exec, plen int, obs string, v []Violation, count bool) {
	st := &e.Stats
	if count {
		st.Executions++
		st.Steps += int64(x.Steps)
		st.TreeNodes += int64(len(x.Points)-plen) + 1
		if len(x.Points) > st.MaxPoints {
			st.MaxPoints = len(x.Points)
		}
		if x.Steps > st.MaxSteps {
			st.MaxSteps = x.Steps
		}
		oc := x.Outcome
		if oc == "" {
			oc = "completed"
		} else if len(oc) > 6 && oc[:6] == "panic:" {
			oc = "panic"
		}
		st.Outcomes[oc]++
		st.obs[hashStr(x.Outcome+"\x00"+obs)] = struct{}{}
		if p, _ := x.Used(); p > st.MaxPreempt {
			st.MaxPreempt = p
		}
		// deterministic-replay spot check
		if st.Executions%997 == 1 {
			x2, obs2, _ := e.runOne(x.Choices(), false)
			if obs2 != obs || x2.Outcome != x.Outcome || len(x2.Points) != len(x.Points) {
				fatalf("NONDETERMINISM scenario=%s choices=%v: %q/%q vs %q/%q", e.S.Name, x.Choices(), x.Outcome, obs, x2.Outcome, obs2)
			}
			st.ReplayChecked++
		}
	}
	if len(v) > 0 && count {
		seen := map[string]bool{}
		for _, f := range st.Found {
			seen[f.Viol.Clause+"|"+f.Viol.Key] = true
		}
		for _, vi := range v {
			k := vi.Clause + "|" + vi.Key
			if seen[k] || len(st.Found) >= e.MaxFound {
				continue
			}
			seen[k] = true
			// re-run twice with tracing: the schedule must fail identically before it is believed
			ch := x.Choices()
			x2, obs2, v2 := e.runOne(ch, true)
			_, obs3, v3 := e.runOne(ch, false)
			if obs2 != obs || obs3 != obs || len(v2) != len(v) || len(v3) != len(v) {
				fatalf("NONDETERMINISM on violation replay scenario=%s choices=%v", e.S.Name, ch)
			}
			st.Found = append(st.Found, Found{Scenario: e.S.Name, Choices: ch, Outcome: x.Outcome, Viol: vi, Trace: x2.Trace, Obs: obs})
		}
	}
}

// Explore runs the depth-first search. Work is sharded on a deterministic frontier.
func (e *Explorer) Explore() {
	st := &e.Stats
	st.Scenario = e.S.Name
	st.Bounds = e.S.Opts.Bounds.String()
	if e.S.Opts.PostPublish || forcePostPublish {
		st.Bounds += " +post-publish points"
	}
	st.Outcomes = map[string]int64{}
	st.obs = map[uint64]struct{}{}
	if e.MaxFound == 0 {
		e.MaxFound = 20
	}
	if e.NShards <= 0 {
		e.NShards = 1
	}
	if v, err := strconv.Atoi(os.Getenv("VERIF_PREEMPT")); err == nil && v >= 0 {
		// experiments: one preemption bound for every scenario (e.g. a bound no schedule reaches = all interleavings)
		e.S.Opts.Bounds.Preempt = v
		st.Bounds = e.S.Opts.Bounds.String() + " [VERIF_PREEMPT]"
	}
	b := e.S.Opts.Bounds

	// Phase 1: every shard expands the same frontier breadth-first until it is wide enough;
	// only shard 0 accounts for these executions.
	frontier := [][]int{{}}
	target := 1
	if e.NShards > 1 {
		target = e.NShards * 8
	}
	first := true
	for len(frontier) > 0 && len(frontier) < target {
		var next [][]int
		grew := false
		for _, p := range frontier {
			x, obs, v := e.runOne(p, false)
			e.account(x, len(p), obs, v, e.Shard == 0)
			if first && e.Shard == 0 {
				first = false
				st.Sample = x.Choices()
				xs, _, _ := e.runOne(p, true)
				st.SampleTrace = xs.Trace
				if len(st.SampleTrace) > 60 {
					st.SampleTrace = st.SampleTrace[:60]
				}
			}
			ch := children(x, len(p), b)
			if len(ch) > 0 {
				grew = true
			}
			next = append(next, ch...)
		}
		frontier = next
		if !grew {
			break
		}
	}
	// Phase 2: depth-first below the frontier items owned by this shard.
	for i, p := range frontier {
		if i%e.NShards != e.Shard {
			continue
		}
		stack := [][]int{p}
		for len(stack) > 0 {
			if !e.Deadline.IsZero() && st.Executions%64 == 0 && time.Now().After(e.Deadline) {
				st.Capped = true
				break
			}
			pr := stack[len(stack)-1]
			stack = stack[:len(stack)-1]
			x, obs, v := e.runOne(pr, false)
			e.account(x, len(pr), obs, v, true)
			ch := children(x, len(pr), b)
			for j := len(ch) - 1; j >= 0; j-- {
				stack = append(stack, ch[j])
			}
		}
		if st.Capped {
			break
		}
	}
	st.DistinctObs = len(st.obs)
	if len(st.obs) <= 4096 {
		for h := range st.obs {
			st.ObsHashes = append(st.ObsHashes, h)
		}
	}
}

// Replay runs one recorded schedule with tracing and returns the execution with the oracle verdict.
func Replay(s *Scenario, choices []int) (*Exec, string, []Violation) {
	e := &Explorer{S: s}
	return e.runOne(choices, true)
}
