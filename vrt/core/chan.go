package zzvrt

// Chan is the scheduler-owned replacement of a Go channel. A nil *Chan behaves like a nil channel
// (send and receive block forever, close panics).
//
// Unbuffered channels: a sender parks with its value registered in sendq; a receive is enabled when
// sendq is non-empty (or the channel is closed) and completes the hand-off for both sides.
type Chan[T any] struct {
	buf    []T
	cap    int
	closed bool
	sendq  []*sendWaiter[T]
	nrecv  int // threads currently parked in a receive (only used for unbuffered select-send)
}

type sendWaiter[T any] struct {
	v    T
	done bool
}

// MakeChan replaces make(chan T, n).
func MakeChan[T any](n int) *Chan[T] {
	if n < 0 {
		panic("makechan: size out of range")
	}
	return &Chan[T]{cap: n}
}

func (c *Chan[T]) canSend() bool {
	if c == nil {
		return false
	}
	if c.closed {
		return true // will panic
	}
	return c.cap > 0 && len(c.buf) < c.cap
}

func (c *Chan[T]) canRecv() bool {
	if c == nil {
		return false
	}
	return len(c.buf) > 0 || len(c.sendq) > 0 || c.closed
}

func (c *Chan[T]) doSend(v T) {
	if c.closed {
		panic("send on closed channel")
	}
	c.buf = append(c.buf, v)
}

func (c *Chan[T]) doRecv() (v T, ok bool) {
	if len(c.buf) > 0 {
		v = c.buf[0]
		var zero T
		c.buf[0] = zero
		c.buf = c.buf[1:]
		if len(c.buf) == 0 {
			c.buf = nil
		}
		return v, true
	}
	if len(c.sendq) > 0 {
		w := c.sendq[0]
		c.sendq = c.sendq[1:]
		w.done = true
		return w.v, true
	}
	// closed
	return v, false
}

// Send replaces `c <- v`.
func (c *Chan[T]) Send(v T) {
	if c == nil {
		Point(KSend, func() bool { return false })
		return
	}
	if c.cap == 0 {
		if cur == nil || cur.atomic > 0 {
			fatalf("unbuffered send outside the scheduler")
		}
		if c.closed {
			Point(KSend, nil)
			panic("send on closed channel")
		}
		w := &sendWaiter[T]{v: v}
		c.sendq = append(c.sendq, w)
		Point(KSend, func() bool { return w.done || c.closed })
		if !w.done {
			// closed while waiting
			for i, q := range c.sendq {
				if q == w {
					c.sendq = append(c.sendq[:i:i], c.sendq[i+1:]...)
					break
				}
			}
			panic("send on closed channel")
		}
		return
	}
	Point(KSend, c.canSend)
	c.doSend(v)
}

// Recv replaces `<-c`.
func (c *Chan[T]) Recv() T {
	v, _ := c.Recv2()
	return v
}

// Recv2 replaces `v, ok := <-c`.
func (c *Chan[T]) Recv2() (T, bool) {
	if c == nil {
		Point(KRecv, func() bool { return false })
		var zero T
		return zero, false
	}
	c.nrecv++
	Point(KRecv, c.canRecv)
	c.nrecv--
	return c.doRecv()
}

// Close replaces close(c).
func (c *Chan[T]) Close() {
	Point(KClose, nil)
	if c == nil {
		panic("close of nil channel")
	}
	if c.closed {
		panic("close of closed channel")
	}
	c.closed = true
}

// Len replaces len(c).
func (c *Chan[T]) Len() int {
	if c == nil {
		return 0
	}
	Point(KChanLen, nil)
	return len(c.buf)
}

// Cap replaces cap(c).
func (c *Chan[T]) Cap() int {
	if c == nil {
		return 0
	}
	return c.cap
}

// Snapshot returns a copy of the buffered items (harness/oracle use; not a scheduling point).
func (c *Chan[T]) Snapshot() []T {
	if c == nil {
		return nil
	}
	return append([]T(nil), c.buf...)
}

// Case is one communication clause of a rewritten select statement.
type Case interface {
	ready() bool
	fire()
}

// SendC is a send clause.
type SendC[T any] struct {
	c *Chan[T]
	v T
}

// SendCase builds the clause `case c <- v:`.
func (c *Chan[T]) SendCase(v T) *SendC[T] { return &SendC[T]{c: c, v: v} }

func (s *SendC[T]) ready() bool {
	if s.c == nil {
		return false
	}
	if s.c.cap == 0 {
		return s.c.closed // unbuffered select-send only fires on a closed channel (panic); see Select
	}
	return s.c.canSend()
}
func (s *SendC[T]) fire() { s.c.doSend(s.v) }

// RecvC is a receive clause; after Select returned its index, Val/OK hold the received value.
type RecvC[T any] struct {
	c   *Chan[T]
	Val T
	OK  bool
}

// RecvCase builds the clause `case v, ok := <-c:`.
func (c *Chan[T]) RecvCase() *RecvC[T] { return &RecvC[T]{c: c} }

func (r *RecvC[T]) ready() bool { return r.c.canRecv() }
func (r *RecvC[T]) fire()       { r.Val, r.OK = r.c.doRecv() }

// Select replaces a select statement: it returns the index of the clause that fired, or -1 for
// the default clause. When several clauses are ready the explorer chooses among them.
func Select(hasDefault bool, cases ...Case) int {
	for _, c := range cases {
		if s, ok := c.(interface{ unbufferedSend() bool }); ok && s.unbufferedSend() {
			fatalf("INSTRUMENTATION-GAP: select with a send on an unbuffered channel is not modelled")
		}
	}
	anyReady := func() bool {
		for _, c := range cases {
			if c.ready() {
				return true
			}
		}
		return false
	}
	if hasDefault {
		Point(KSelect, nil)
	} else {
		Point(KSelect, anyReady)
	}
	var ready [8]int
	rd := ready[:0]
	for i, c := range cases {
		if c.ready() {
			rd = append(rd, i)
		}
	}
	if len(rd) == 0 {
		if !hasDefault {
			fatalf("select resumed with no ready case")
		}
		return -1
	}
	i := rd[0]
	if len(rd) > 1 {
		i = rd[Choose(SeamSelect, len(rd))]
	}
	cases[i].fire()
	return i
}

func (s *SendC[T]) unbufferedSend() bool { return s.c != nil && s.c.cap == 0 && !s.c.closed }
