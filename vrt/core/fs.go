package zzvrt

import (
	"errors"
	"io"
	"io/fs"
	"os"
	"path/filepath"
	"sort"
	"strings"
	"syscall"
	"time"
)

// FS is the in-memory filesystem of one execution: Unix semantics restricted to what the appenders
// use (append-mode regular files, directories, descriptors that survive unlink, mtimes from the
// virtual clock). Every call is a scheduling point and is logged for the oracles.
type FS struct {
	FaultOps   map[string]bool        // kinds of call that may be failed by the explorer (nil = every kind)
	Cwd        string                 // working directory of the modelled process ("" = "/")
	WriteGate  func(path string) bool // when set: a write to path does not start before it returns true (a slow / stalled disk: the writer waits, nothing fails)
	Unwritable func(path string) bool // paths whose every write fails with ENOSPC (a full disk: part of the scenario, not a deviation)
	// NoShortWrites: an injected write fault refuses the whole write (EIO), never stores half of it
	NoShortWrites bool
	nfd           int
	x             *Exec
	Nodes         map[string]*Inode // cleaned path -> node
	Log           []FSCall
	Open          map[*File]struct{}
}

// Inode is a file or directory.
type Inode struct {
	Dir     bool
	Data    []byte
	MTime   time.Time
	Writes  []WriteRec // every completed write call, in order
	Removed bool
}

// WriteRec is one completed write call on a file.
type WriteRec struct {
	Off, Len int
	Step     int // scheduler step at which the write took effect
	At       time.Time
}

// FSCall is one logged filesystem call.
type FSCall struct {
	Op    string
	Path  string
	Flag  int
	Err   string
	Step  int
	At    time.Time
	Bytes int
	TID   int
	FD    int       // descriptor identity (open order), 0 if not descriptor-based
	Data  string    // bytes handed to a write call (whole argument, also for failed / short writes)
	MTime time.Time // remove: the modification time the removed entry had
}

// File is an open descriptor.
type File struct {
	fs      *FS
	Ino     *Inode
	Path    string // cleaned absolute path (what the oracles look at)
	Given   string // the name as it was passed to OpenFile: what Name() reports, like (*os.File).Name
	Flag    int
	Closed  bool
	pos     int
	ID      int
	real    *os.File
	special *[]byte
	dirList []fs.DirEntry // directory handle: the listing taken at the first read
	dirRead bool
}

// fault asks the explorer whether this call fails (seam "fault"); FaultOps restricts which kinds of
// call may fail in this execution (nil = all).
func (f *FS) fault(op string, n int) int {
	if f.FaultOps != nil && !f.FaultOps[op] {
		return 0
	}
	return Choose(SeamFault, n)
}

func newFS(x *Exec) *FS {
	return &FS{x: x, Nodes: map[string]*Inode{"/": {Dir: true}, ".": {Dir: true}}, Open: map[*File]struct{}{}}
}

// clean resolves a path the way the kernel does: relative names against the working directory of the process
// (Cwd, "/" unless a scenario or the code under test changes it with Chdir).
func (f *FS) clean(p string) string {
	if !filepath.IsAbs(p) {
		cwd := f.Cwd
		if cwd == "" {
			cwd = "/"
		}
		p = filepath.Join(cwd, p)
	}
	return filepath.Clean(p)
}

// Chdir / Getwd: the working directory of the modelled process.
func (f *FS) Chdir(dir string) error {
	Point(KFS, nil)
	d := f.clean(dir)
	if n, ok := f.Nodes[d]; !ok || !n.Dir {
		f.log(FSCall{Op: "chdir", Path: d, Err: "ENOENT"})
		return pathErr("chdir", dir, syscall.ENOENT)
	}
	f.Cwd = d
	f.log(FSCall{Op: "chdir", Path: d})
	return nil
}

func (f *FS) Getwd() string {
	if f.Cwd == "" {
		return "/"
	}
	return f.Cwd
}

// Abs mirrors filepath.Abs on the modelled working directory.
func (f *FS) Abs(p string) string { return f.clean(p) }

func (f *FS) log(c FSCall) {
	c.Step = f.x.Steps
	c.At = f.x.Now
	if f.x.cur != nil {
		c.TID = f.x.cur.id
	}
	f.Log = append(f.Log, c)
	if f.x.tracing {
		f.x.tracef("  fs %s %s err=%q bytes=%d", c.Op, c.Path, c.Err, c.Bytes)
	}
}

// MkdirAll creates a directory and its parents (harness set-up; not a scheduling point).
func (f *FS) MkdirAll(dir string) {
	dir = f.clean(dir)
	for d := dir; ; d = filepath.Dir(d) {
		if n, ok := f.Nodes[d]; !ok || !n.Dir {
			f.Nodes[d] = &Inode{Dir: true, MTime: f.x.Now}
		}
		if d == "/" || d == "." || filepath.Dir(d) == d {
			break
		}
	}
}

// Put creates a regular file with the given content and mtime (harness set-up).
func (f *FS) Put(path string, data []byte, mtime time.Time) {
	path = f.clean(path)
	f.MkdirAll(filepath.Dir(path))
	f.Nodes[path] = &Inode{Data: append([]byte(nil), data...), MTime: mtime}
}

// List returns the names in dir, sorted.
func (f *FS) List(dir string) []string {
	dir = f.clean(dir)
	var out []string
	for p := range f.Nodes {
		if p != dir && filepath.Dir(p) == dir {
			out = append(out, filepath.Base(p))
		}
	}
	sort.Strings(out)
	return out
}

// OpenCount returns the number of open descriptors whose path lies under dir.
func (f *FS) OpenCount(dir string) int {
	dir = f.clean(dir)
	n := 0
	for fl := range f.Open {
		if strings.HasPrefix(fl.Path, dir+"/") || filepath.Dir(fl.Path) == dir {
			n++
		}
	}
	return n
}

func pathErr(op, path string, err error) error { return &fs.PathError{Op: op, Path: path, Err: err} }

// OpenFile mirrors os.OpenFile.
func (f *FS) OpenFile(name string, flag int, perm os.FileMode) (*File, error) {
	Point(KFS, nil)
	p := f.clean(name)
	if f.fault("open", 2) == 1 {
		f.log(FSCall{Op: "open", Path: p, Flag: flag, Err: "ENOENT(injected)"})
		return nil, pathErr("open", name, syscall.ENOENT)
	}
	if d, ok := f.Nodes[filepath.Dir(p)]; !ok || !d.Dir {
		f.log(FSCall{Op: "open", Path: p, Flag: flag, Err: "ENOENT"})
		return nil, pathErr("open", name, syscall.ENOENT)
	}
	n, ok := f.Nodes[p]
	if ok && n.Dir {
		if flag&(os.O_WRONLY|os.O_RDWR) != 0 {
			f.log(FSCall{Op: "open", Path: p, Flag: flag, Err: "EISDIR"})
			return nil, pathErr("open", name, syscall.EISDIR)
		}
	}
	if !ok {
		if flag&os.O_CREATE == 0 {
			f.log(FSCall{Op: "open", Path: p, Flag: flag, Err: "ENOENT"})
			return nil, pathErr("open", name, syscall.ENOENT)
		}
		n = &Inode{MTime: f.x.Now}
		f.Nodes[p] = n
	} else if flag&os.O_CREATE != 0 && flag&os.O_EXCL != 0 {
		f.log(FSCall{Op: "open", Path: p, Flag: flag, Err: "EEXIST"})
		return nil, pathErr("open", name, syscall.EEXIST)
	}
	if flag&os.O_TRUNC != 0 && !n.Dir {
		n.Data = nil
		n.MTime = f.x.Now
	}
	f.nfd++
	fl := &File{fs: f, Ino: n, Path: p, Given: name, Flag: flag, ID: f.nfd}
	f.Open[fl] = struct{}{}
	f.log(FSCall{Op: "open", Path: p, Flag: flag, FD: fl.ID})
	return fl, nil
}

// Write mirrors (*os.File).Write.
func (fl *File) Write(b []byte) (int, error) {
	if fl == nil {
		return 0, os.ErrInvalid
	}
	if fl.real != nil {
		return fl.real.Write(b)
	}
	if fl.special != nil {
		*fl.special = append(*fl.special, b...)
		return len(b), nil
	}
	f := fl.fs
	if f.WriteGate != nil {
		Point(KFS, func() bool { return f.WriteGate == nil || f.WriteGate(fl.Path) })
	} else {
		Point(KFS, nil)
	}
	if fl.Closed {
		f.log(FSCall{Op: "write", Path: fl.Path, Err: "EBADF(closed)", Bytes: len(b), FD: fl.ID, Data: string(b)})
		return 0, pathErr("write", fl.Path, os.ErrClosed)
	}
	if fl.Flag&(os.O_WRONLY|os.O_RDWR) == 0 {
		f.log(FSCall{Op: "write", Path: fl.Path, Err: "EBADF", Bytes: len(b), FD: fl.ID, Data: string(b)})
		return 0, pathErr("write", fl.Path, syscall.EBADF)
	}
	if f.Unwritable != nil && f.Unwritable(fl.Path) {
		// a target that opens but refuses every write (full disk, exceeded quota, /dev/full): not an injected
		// deviation but a property of the environment of this scenario
		f.log(FSCall{Op: "write", Path: fl.Path, Err: "ENOSPC(persistent)", Bytes: len(b), FD: fl.ID, Data: string(b)})
		return 0, pathErr("write", fl.Path, syscall.ENOSPC)
	}
	n := len(b)
	var err error
	alts := 3
	if f.NoShortWrites {
		alts = 2
	}
	switch f.fault("write", alts) {
	case 1:
		f.log(FSCall{Op: "write", Path: fl.Path, Err: "EIO(injected)", Bytes: len(b), FD: fl.ID, Data: string(b)})
		return 0, pathErr("write", fl.Path, syscall.EIO)
	case 2:
		n = len(b) / 2
		err = pathErr("write", fl.Path, syscall.ENOSPC)
	}
	ino := fl.Ino
	off := fl.pos
	if fl.Flag&os.O_APPEND != 0 {
		off = len(ino.Data)
	}
	if end := off + n; end > len(ino.Data) {
		ino.Data = append(ino.Data, make([]byte, end-len(ino.Data))...)
	}
	copy(ino.Data[off:], b[:n])
	fl.pos = off + n
	ino.MTime = f.x.Now
	ino.Writes = append(ino.Writes, WriteRec{Off: off, Len: n, Step: f.x.Steps, At: f.x.Now})
	e := ""
	if err != nil {
		e = "ENOSPC(short,injected)"
	}
	f.log(FSCall{Op: "write", Path: fl.Path, Bytes: n, Err: e, FD: fl.ID, Data: string(b)})
	return n, err
}

// WriteString mirrors (*os.File).WriteString.
func (fl *File) WriteString(s string) (int, error) { return fl.Write([]byte(s)) }

// Sync mirrors (*os.File).Sync.
func (fl *File) Sync() error {
	if fl == nil {
		return os.ErrInvalid
	}
	if fl.real != nil {
		return fl.real.Sync()
	}
	if fl.special != nil {
		return nil
	}
	Point(KFS, nil)
	if fl.Closed {
		fl.fs.log(FSCall{Op: "sync", Path: fl.Path, Err: "closed", FD: fl.ID})
		return pathErr("sync", fl.Path, os.ErrClosed)
	}
	if fl.fs.fault("sync", 2) == 1 {
		fl.fs.log(FSCall{Op: "sync", Path: fl.Path, Err: "EIO(injected)", FD: fl.ID})
		return pathErr("sync", fl.Path, syscall.EIO)
	}
	fl.fs.log(FSCall{Op: "sync", Path: fl.Path, FD: fl.ID})
	return nil
}

// Close mirrors (*os.File).Close.
func (fl *File) Close() error {
	if fl == nil {
		return os.ErrInvalid
	}
	if fl.real != nil {
		return fl.real.Close()
	}
	if fl.special != nil {
		return nil
	}
	Point(KFS, nil)
	if fl.Closed {
		fl.fs.log(FSCall{Op: "close", Path: fl.Path, Err: "closed", FD: fl.ID})
		return pathErr("close", fl.Path, os.ErrClosed)
	}
	fl.Closed = true
	delete(fl.fs.Open, fl)
	if fl.fs.fault("close", 2) == 1 {
		fl.fs.log(FSCall{Op: "close", Path: fl.Path, Err: "EIO(injected)", FD: fl.ID})
		return pathErr("close", fl.Path, syscall.EIO)
	}
	fl.fs.log(FSCall{Op: "close", Path: fl.Path, FD: fl.ID})
	return nil
}

// Name mirrors (*os.File).Name.
func (fl *File) Name() string {
	if fl.real != nil {
		return fl.real.Name()
	}
	if fl.Given != "" {
		return fl.Given
	}
	return fl.Path
}

// Read is only supported on pass-through files.
func (fl *File) Read(b []byte) (int, error) {
	if fl.real != nil {
		return fl.real.Read(b)
	}
	return 0, io.EOF
}

// Stat mirrors (*os.File).Stat.
func (fl *File) Stat() (fs.FileInfo, error) {
	if fl.real != nil {
		return fl.real.Stat()
	}
	return &entry{name: filepath.Base(fl.Path), ino: fl.Ino}, nil
}

// ReadDir / Readdir / Readdirnames mirror the directory-reading methods of *os.File (n <= 0: everything
// that is left, n > 0: at most n entries and io.EOF once nothing is left). The listing is taken (one
// filesystem call: scheduling point, may fail) when the handle is first read.
func (fl *File) ReadDir(n int) ([]fs.DirEntry, error) {
	if fl.real != nil {
		return fl.real.ReadDir(n)
	}
	if fl.Closed {
		return nil, pathErr("readdir", fl.Path, os.ErrClosed)
	}
	if !fl.dirRead {
		l, err := fl.fs.ReadDir(fl.Path)
		if err != nil {
			return nil, err
		}
		fl.dirList, fl.dirRead = l, true
	}
	rest := fl.dirList[min(fl.pos, len(fl.dirList)):]
	if n > 0 {
		if len(rest) == 0 {
			return nil, io.EOF
		}
		rest = rest[:min(n, len(rest))]
	}
	fl.pos += len(rest)
	return append([]fs.DirEntry(nil), rest...), nil
}

func (fl *File) Readdir(n int) ([]fs.FileInfo, error) {
	if fl.real != nil {
		return fl.real.Readdir(n)
	}
	es, err := fl.ReadDir(n)
	out := make([]fs.FileInfo, 0, len(es))
	for _, e := range es {
		out = append(out, e.(*entry))
	}
	return out, err
}

func (fl *File) Readdirnames(n int) ([]string, error) {
	if fl.real != nil {
		return fl.real.Readdirnames(n)
	}
	es, err := fl.ReadDir(n)
	out := make([]string, 0, len(es))
	for _, e := range es {
		out = append(out, e.Name())
	}
	return out, err
}

// Chmod / Chown are accepted and ignored (the model has no permissions).
func (fl *File) Chmod(mode fs.FileMode) error {
	if fl.real != nil {
		return fl.real.Chmod(mode)
	}
	return nil
}

// Truncate mirrors (*os.File).Truncate.
func (fl *File) Truncate(size int64) error {
	if fl.real != nil {
		return fl.real.Truncate(size)
	}
	Point(KFS, nil)
	if fl.Closed {
		return pathErr("truncate", fl.Path, os.ErrClosed)
	}
	for int64(len(fl.Ino.Data)) < size {
		fl.Ino.Data = append(fl.Ino.Data, 0)
	}
	fl.Ino.Data = fl.Ino.Data[:size]
	fl.Ino.MTime = fl.fs.x.Now
	fl.fs.log(FSCall{Op: "truncate", Path: fl.Path, FD: fl.ID, Bytes: int(size)})
	return nil
}

// Seek is accepted (append-mode writes ignore the offset, as on a real O_APPEND descriptor).
func (fl *File) Seek(offset int64, whence int) (int64, error) {
	if fl.real != nil {
		return fl.real.Seek(offset, whence)
	}
	return int64(len(fl.Ino.Data)), nil
}

// Chtimes sets the modification time of a file.
func (f *FS) Chtimes(name string, mtime time.Time) error {
	Point(KFS, nil)
	p := f.clean(name)
	n, ok := f.Nodes[p]
	if !ok {
		f.log(FSCall{Op: "chtimes", Path: p, Err: "ENOENT"})
		return pathErr("chtimes", name, syscall.ENOENT)
	}
	n.MTime = mtime
	f.log(FSCall{Op: "chtimes", Path: p})
	return nil
}

// Fd returns the descriptor number of the file: for a file of the in-memory filesystem a number the raw
// descriptor calls below (SysWrite ...) resolve back to it, until it is closed.
func (fl *File) Fd() uintptr {
	if fl.real != nil {
		return fl.real.Fd()
	}
	if fl.special != nil || fl.fs == nil {
		return 99
	}
	return uintptr(vfdBase + fl.ID)
}

// ---- raw descriptor calls (instrumented sources: syscall.Write & co are rewritten to these) ------------
//
// Code that keeps a descriptor number instead of the *os.File still talks to the in-memory filesystem:
// every call is the corresponding File method (same scheduling points, faults, crash semantics). Numbers
// that do not belong to an open in-memory file get EBADF - except 1 and 2, which are the captured streams.

// FilepathAbs replaces filepath.Abs in instrumented sources (the working directory is the modelled one).
func FilepathAbs(p string) (string, error) {
	if x := cur; x != nil && x.FS != nil {
		return x.FS.Abs(p), nil
	}
	return filepath.Abs(p)
}

const vfdBase = 1000

// SysStdout / SysStderr are where raw writes to descriptors 1 and 2 go (set by the os shim).
var SysStdout, SysStderr *[]byte

func vfd(fd int) *File {
	x := cur
	if x == nil || x.FS == nil {
		return nil
	}
	for fl := range x.FS.Open {
		if vfdBase+fl.ID == fd && !fl.Closed {
			return fl
		}
	}
	return nil
}

func sysErr(err error) error {
	var pe *fs.PathError
	if errors.As(err, &pe) {
		if en, ok := pe.Err.(syscall.Errno); ok {
			return en
		}
		if errors.Is(pe.Err, os.ErrClosed) {
			return syscall.EBADF
		}
		return pe.Err
	}
	return err
}

func SysWrite(fd int, p []byte) (int, error) {
	if cur == nil {
		return syscall.Write(fd, p)
	}
	if fd == 1 && SysStdout != nil {
		*SysStdout = append(*SysStdout, p...)
		return len(p), nil
	}
	if fd == 2 && SysStderr != nil {
		*SysStderr = append(*SysStderr, p...)
		return len(p), nil
	}
	fl := vfd(fd)
	if fl == nil {
		Point(KFS, nil)
		return -1, syscall.EBADF
	}
	n, err := fl.Write(p)
	if err != nil && n == 0 {
		n = -1
	}
	return n, sysErr(err)
}

func SysPwrite(fd int, p []byte, off int64) (int, error) {
	if cur == nil {
		return syscall.Pwrite(fd, p, off)
	}
	fl := vfd(fd)
	if fl == nil {
		return -1, syscall.EBADF
	}
	save := fl.pos
	fl.pos = int(off)
	n, err := fl.Write(p)
	fl.pos = save
	return n, sysErr(err)
}

func SysRead(fd int, p []byte) (int, error) {
	if cur == nil {
		return syscall.Read(fd, p)
	}
	fl := vfd(fd)
	if fl == nil {
		return -1, syscall.EBADF
	}
	n, err := fl.Read(p)
	if err == io.EOF {
		return 0, nil
	}
	return n, sysErr(err)
}

func SysClose(fd int) error {
	if cur == nil {
		return syscall.Close(fd)
	}
	fl := vfd(fd)
	if fl == nil {
		Point(KFS, nil)
		return syscall.EBADF
	}
	return sysErr(fl.Close())
}

func SysFsync(fd int) error {
	if cur == nil {
		return syscall.Fsync(fd)
	}
	fl := vfd(fd)
	if fl == nil {
		Point(KFS, nil)
		return syscall.EBADF
	}
	return sysErr(fl.Sync())
}

func SysFdatasync(fd int) error { return SysFsync(fd) }

func SysSeek(fd int, off int64, whence int) (int64, error) {
	if cur == nil {
		return syscall.Seek(fd, off, whence)
	}
	fl := vfd(fd)
	if fl == nil {
		return -1, syscall.EBADF
	}
	n, err := fl.Seek(off, whence)
	return n, sysErr(err)
}

func SysFtruncate(fd int, length int64) error {
	if cur == nil {
		return syscall.Ftruncate(fd, length)
	}
	fl := vfd(fd)
	if fl == nil {
		return syscall.EBADF
	}
	return sysErr(fl.Truncate(length))
}

func SysOpen(path string, mode int, perm uint32) (int, error) {
	if cur == nil {
		return syscall.Open(path, mode, perm)
	}
	fl, err := cur.FS.OpenFile(path, mode&^syscall.O_CLOEXEC, os.FileMode(perm))
	if err != nil {
		return -1, sysErr(err)
	}
	return int(fl.Fd()), nil
}

// WrapReal wraps a real *os.File (pass-through outside the scheduler).
func WrapReal(f *os.File) *File { return &File{real: f} }

// Special returns a File that appends to *dst without scheduling (stderr/stdout capture).
func Special(dst *[]byte) *File { return &File{special: dst} }

type entry struct {
	name string
	ino  *Inode
}

func (e *entry) Name() string { return e.name }
func (e *entry) IsDir() bool  { return e.ino.Dir }
func (e *entry) Type() fs.FileMode {
	if e.ino.Dir {
		return fs.ModeDir
	}
	return 0
}
func (e *entry) Info() (fs.FileInfo, error) {
	if e.ino.Removed {
		return nil, pathErr("lstat", e.name, syscall.ENOENT)
	}
	return e, nil
}
func (e *entry) Size() int64 { return int64(len(e.ino.Data)) }
func (e *entry) Mode() fs.FileMode {
	if e.ino.Dir {
		return fs.ModeDir | 0755
	}
	return 0644
}
func (e *entry) ModTime() time.Time { return e.ino.MTime }
func (e *entry) Sys() any           { return nil }

// ReadDir mirrors os.ReadDir.
func (f *FS) ReadDir(dir string) ([]fs.DirEntry, error) {
	Point(KFS, nil)
	d := f.clean(dir)
	if f.fault("readdir", 2) == 1 {
		f.log(FSCall{Op: "readdir", Path: d, Err: "EIO(injected)"})
		return nil, pathErr("open", dir, syscall.EIO)
	}
	if n, ok := f.Nodes[d]; !ok || !n.Dir {
		f.log(FSCall{Op: "readdir", Path: d, Err: "ENOENT"})
		return nil, pathErr("open", dir, syscall.ENOENT)
	}
	var out []fs.DirEntry
	for _, name := range f.List(d) {
		out = append(out, &entry{name: name, ino: f.Nodes[filepath.Join(d, name)]})
	}
	f.log(FSCall{Op: "readdir", Path: d, Bytes: len(out)})
	return out, nil
}

// Remove mirrors os.Remove.
func (f *FS) Remove(name string) error {
	Point(KFS, nil)
	p := f.clean(name)
	if f.fault("remove", 2) == 1 {
		f.log(FSCall{Op: "remove", Path: p, Err: "EACCES(injected)"})
		return pathErr("remove", name, syscall.EACCES)
	}
	n, ok := f.Nodes[p]
	if !ok {
		f.log(FSCall{Op: "remove", Path: p, Err: "ENOENT"})
		return pathErr("remove", name, syscall.ENOENT)
	}
	if n.Dir {
		for q := range f.Nodes {
			if q != p && filepath.Dir(q) == p {
				f.log(FSCall{Op: "remove", Path: p, Err: "ENOTEMPTY"})
				return pathErr("remove", name, syscall.ENOTEMPTY)
			}
		}
	}
	n.Removed = true
	delete(f.Nodes, p)
	f.log(FSCall{Op: "remove", Path: p, MTime: n.MTime})
	return nil
}

// RemoveAll mirrors os.RemoveAll.
func (f *FS) RemoveAll(name string) error {
	Point(KFS, nil)
	p := f.clean(name)
	for q, n := range f.Nodes {
		if q == p || strings.HasPrefix(q, p+"/") {
			n.Removed = true
			delete(f.Nodes, q)
		}
	}
	f.log(FSCall{Op: "removeall", Path: p})
	return nil
}

// Stat mirrors os.Stat.
func (f *FS) Stat(name string) (fs.FileInfo, error) {
	Point(KFS, nil)
	p := f.clean(name)
	n, ok := f.Nodes[p]
	if !ok {
		return nil, pathErr("stat", name, syscall.ENOENT)
	}
	return &entry{name: filepath.Base(p), ino: n}, nil
}

// Rename mirrors os.Rename (files and directories).
func (f *FS) Rename(from, to string) error {
	Point(KFS, nil)
	a, b := f.clean(from), f.clean(to)
	if _, ok := f.Nodes[a]; !ok {
		f.log(FSCall{Op: "rename", Path: a, Err: "ENOENT"})
		return pathErr("rename", from, syscall.ENOENT)
	}
	moved := map[string]*Inode{}
	for q, n := range f.Nodes {
		if q == a || strings.HasPrefix(q, a+"/") {
			moved[b+q[len(a):]] = n
			delete(f.Nodes, q)
		}
	}
	for q, n := range moved {
		f.Nodes[q] = n
	}
	f.log(FSCall{Op: "rename", Path: a + "->" + b})
	return nil
}

// Mkdir mirrors os.Mkdir / os.MkdirAll.
func (f *FS) Mkdir(name string) error {
	Point(KFS, nil)
	f.MkdirAll(name)
	f.log(FSCall{Op: "mkdir", Path: f.clean(name)})
	return nil
}
