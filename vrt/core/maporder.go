package zzvrt

import (
	"fmt"
	"sort"
)

// MapOrder replaces the iteration order of `for k := range m` in instrumented code: ascending keys
// by default; under the explorer (seam maporder) any key may be moved to the front of the
// remaining ones, one deviation per unit of budget.
func MapOrder[K comparable, V any](m map[K]V) []K {
	keys := make([]K, 0, len(m))
	for k := range m {
		keys = append(keys, k)
	}
	if len(keys) < 2 {
		return keys
	}
	if ks, ok := any(keys).([]string); ok {
		sort.Strings(ks)
	} else {
		sort.Slice(keys, func(i, j int) bool { return fmt.Sprint(keys[i]) < fmt.Sprint(keys[j]) })
	}
	if cur == nil {
		return keys
	}
	for pos := 0; pos < len(keys)-1; pos++ {
		c := Choose(SeamMapOrder, len(keys)-pos)
		if c > 0 {
			k := keys[pos+c]
			copy(keys[pos+1:pos+c+1], keys[pos:pos+c])
			keys[pos] = k
		}
	}
	return keys
}
