package zzvrt

import (
	"fmt"
	"sort"
)

// MapOrder replaces the iteration order of `for k := range m` in instrumented code: ascending keys
// by default; under the explorer (seam maporder) any key may be moved to the front of the
// remaining ones, one deviation per unit of budget.
func MapOrder[K comparable, V any](m map[K]V) []K {
	keys := make([]K, 0, len(m))
	for k := range m {
		keys = append(keys, k)
	}
	if len(keys) < 2 {
		return keys
	}
	if ks, ok := any(keys).([]string); ok {
		sort.Strings(ks)
	} else {
		sort.Slice(keys, func(i, j int) bool { return fmt.Sprint(keys[i]) < fmt.Sprint(keys[j]) })
	}
	if cur == nil {
		permute(keys, MapOrderSeed)
		return keys
	}
	for pos := 0; pos < len(keys)-1; pos++ {
		c := Choose(SeamMapOrder, len(keys)-pos)
		if c > 0 {
			k := keys[pos+c]
			copy(keys[pos+1:pos+c+1], keys[pos:pos+c])
			keys[pos] = k
		}
	}
	return keys
}

// MapOrderSeed selects the iteration order of instrumented map ranges OUTSIDE the scheduler (the
// enumeration harness): 0 = ascending keys. Maps of up to 3 keys go through all their permutations
// for seeds 0..5; larger maps: 1 = descending, k >= 2 = ascending rotated by k-1.
var MapOrderSeed int

func permute[K any](keys []K, seed int) {
	n := len(keys)
	if seed <= 0 || n < 2 {
		return
	}
	if n <= 3 {
		// seed-th permutation in lexicographic order of positions
		fact := 1
		for i := 2; i <= n; i++ {
			fact *= i
		}
		k := seed % fact
		rest := append([]K(nil), keys...)
		for i := 0; i < n; i++ {
			fact /= n - i
			j := k / fact
			k %= fact
			keys[i] = rest[j]
			rest = append(rest[:j:j], rest[j+1:]...)
		}
		return
	}
	if seed == 1 {
		for i, j := 0, n-1; i < j; i, j = i+1, j-1 {
			keys[i], keys[j] = keys[j], keys[i]
		}
		return
	}
	r := (seed - 1) % n
	rot := append(append([]K(nil), keys[r:]...), keys[:r]...)
	copy(keys, rot)
}
