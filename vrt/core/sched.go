// Package zzvrt is the verification runtime that is injected (by `go build -overlay`) into the
// module under test as the virtual package github.com/go-spring/log/zzvrt.
//
// It contains a cooperative scheduler (exactly one goroutine of an execution runs at a time; every
// hooked operation is a scheduling point), a stateless depth-first explorer that enumerates all
// schedules / environment answers within stated budgets, and the shims the instrumented sources
// are re-pointed to (channels here; sync, sync/atomic, os and time in the sub-packages).
package zzvrt

import (
	"fmt"
	"os"
	"runtime"
	"runtime/debug"
	"strings"
	"time"
)

// Kind names the operation a thread is about to perform at a scheduling point.
type Kind uint8

const (
	KStart Kind = iota
	KSpawn
	KSend
	KRecv
	KSelect
	KClose
	KAtomic
	KPool
	KMap
	KMutex
	KFS
	KTime
	KYield
	KGate
	KChanLen
	KPost
)

var kindNames = [...]string{"start", "spawn", "send", "recv", "select", "close", "atomic", "pool", "syncmap", "mutex", "fs", "time", "yield", "gate", "chanlen", "post-publish"}

func (k Kind) String() string { return kindNames[k] }

// Seam identifies an environment choice (a deviation from the default answer costs one unit of the
// seam's budget).
type Seam uint8

const (
	SeamTick Seam = iota
	SeamFault
	SeamPoolMiss
	SeamMapOrder
	SeamCrash
	SeamSelect // choice among several ready select cases: free
	SeamClock  // clock step decided by the harness between operations (rather than inside a clock read)
	NSeams
)

var seamNames = [...]string{"tick", "fault", "poolmiss", "maporder", "crash", "select", "clock"}

func (s Seam) String() string { return seamNames[s] }

// Bounds are the budgets of one exploration.
type Bounds struct {
	Preempt int         // preemption bound (-1 = unbounded)
	Env     [NSeams]int // per-seam deviation budgets
	Horizon int         // max scheduling steps per execution (livelock beyond)
}

// PointRec is one recorded decision of an execution.
type PointRec struct {
	N       int  // number of alternatives
	Choice  int  // alternative taken
	Env     bool // environment choice (else thread choice)
	Seam    Seam
	Preempt bool // for thread choices: the running thread was still enabled, alt>0 is a preemption
}

type thread struct {
	id      int
	name    string
	wake    chan int
	enabled func() bool
	kind    Kind
	done    bool
	started bool
}

const (
	sigRun  = 0
	sigKill = 1
)

// Exec is one execution of a scenario under the scheduler.
type Exec struct {
	threads []*thread
	cur     *thread
	prefix  []int
	Points  []PointRec
	Steps   int
	Outcome string // "" (completed), "deadlock", "livelock", "crash", "panic: ..."
	settled bool   // Settle() was called: default choices only, nothing recorded
	Leaked  int    // threads still parked for good when the scenario body had returned (not an outcome)
	Stack   string
	bounds  Bounds
	killed  bool
	atomic  int
	ctl     chan struct{}
	alive   int
	used    [NSeams]int
	preempt int

	// virtual environment
	Now         time.Time
	TickStep    time.Duration
	TickLands   []time.Duration // where in the next interval a tick lands (offsets from the boundary)
	FS          *FS
	Stderr      []byte
	Trace       []string
	tracing     bool
	postPublish bool
	// per-execution registry of lazily initialised shim state
	resetters []func()
}

var cur *Exec

// Cur returns the running execution (nil outside the scheduler).
func Cur() *Exec { return cur }

// Active reports whether the caller runs under the scheduler (and outside an Atomic section).
func Active() bool { return cur != nil && cur.atomic == 0 && !cur.killed }

type divergence struct{ msg string }

func fatalf(format string, args ...any) {
	fmt.Fprintf(os.Stderr, "ZZVRT-FATAL: "+format+"\n", args...)
	debug.PrintStack()
	os.Exit(2)
}

func (x *Exec) tracef(format string, args ...any) {
	if x.tracing {
		x.Trace = append(x.Trace, fmt.Sprintf(format, args...))
	}
}

// Tracef appends a line to the execution trace (only kept when replaying with tracing on).
func Tracef(format string, args ...any) {
	if x := cur; x != nil && x.tracing {
		id := -1
		if x.cur != nil {
			id = x.cur.id
		}
		x.Trace = append(x.Trace, fmt.Sprintf("  T%d: ", id)+fmt.Sprintf(format, args...))
	}
}

// nextChoice returns the alternative to take at a decision with n alternatives and records it.
func (x *Exec) nextChoice(n int, env bool, seam Seam, preempt bool) int {
	i := len(x.Points)
	c := 0
	if i < len(x.prefix) {
		c = x.prefix[i]
		if c >= n {
			fatalf("replay divergence at point %d: choice %d of %d alternatives (prefix %v)", i, c, n, x.prefix)
		}
	}
	x.Points = append(x.Points, PointRec{N: n, Choice: c, Env: env, Seam: seam, Preempt: preempt})
	if c > 0 {
		if env {
			x.used[seam]++
		} else if preempt {
			x.preempt++
		}
	}
	return c
}

// Choose asks the explorer for an environment answer in 0..n-1 (0 = default). When the seam's
// budget is exhausted (or zero) the default is returned without recording a point.
func Choose(seam Seam, n int) int {
	x := cur
	if x == nil || x.atomic > 0 || x.killed || n <= 1 || x.settled {
		return 0
	}
	if seam != SeamSelect && x.used[seam] >= x.bounds.Env[seam] {
		return 0
	}
	c := x.nextChoice(n, true, seam, false)
	if c > 0 {
		x.tracef("  env %s -> alternative %d", seam, c)
	}
	return c
}

// Point is called by every hooked operation before it takes effect. enabled==nil means always
// enabled; otherwise the thread cannot be scheduled while enabled() is false.
func Point(k Kind, enabled func() bool) {
	x := cur
	if x == nil || x.atomic > 0 {
		if enabled != nil && !enabled() {
			if x == nil {
				fatalf("blocking %s operation outside the scheduler", k)
			}
			if x.killed {
				runtime.Goexit()
			}
			// The code inside an Atomic section has to WAIT (for a goroutine it started itself, say: a Destroy that
			// stops its loggers in the background and waits for them). The section stops being atomic while it
			// waits - the other threads run, under the explorer's control - and is atomic again afterwards.
			saved := x.atomic
			x.atomic = 0
			t := x.cur
			t.enabled = enabled
			t.kind = k
			x.reschedule(t)
			t.enabled = nil
			x.atomic = saved
		}
		return
	}
	if x.killed {
		if enabled != nil && !enabled() {
			runtime.Goexit()
		}
		return
	}
	t := x.cur
	if !x.settled && x.bounds.Env[SeamCrash] > 0 && x.used[SeamCrash] < x.bounds.Env[SeamCrash] {
		if x.nextChoice(2, true, SeamCrash, false) == 1 {
			x.tracef("  CRASH before T%d %s", t.id, k)
			x.abort("crash")
		}
	}
	t.enabled = enabled
	t.kind = k
	x.reschedule(t)
	t.enabled = nil
}

// PostPoint is an extra scheduling point AFTER a publishing operation has taken effect (atomic store /
// swap / successful CAS, sync.Map store): only in executions run with RunOpts.PostPublish. Hooked
// operations yield BEFORE they take effect, so an operation and the unhooked code that follows it are one
// atomic step; for race-free code that loses nothing, but "publish, then initialise what was published"
// is invisible. With this point another thread can run between the publication and what follows it.
func PostPoint() {
	if x := cur; x != nil && x.postPublish && x.atomic == 0 && !x.killed {
		Point(KPost, nil)
	}
}

// Abort ends the current execution with the given outcome (shims use it for defects they detect directly).
func Abort(outcome string) {
	if x := cur; x != nil {
		x.Stack = string(debug.Stack())
		x.abort(outcome)
	}
	panic(outcome)
}

// Settle ends the explored part of an execution: from here on the scheduler takes the default choice
// at every decision (running thread first, then ascending ids; default environment answers) without
// recording it, so the explorer has nothing left to vary. For the tail of a scenario whose outcome no
// longer depends on the schedule (e.g. draining a long backlog once the interesting calls have
// returned); what runs after it is covered under ONE schedule only and the scenario says so.
func Settle() {
	if x := cur; x != nil {
		x.settled = true
	}
}

// Yield is a plain scheduling point (used by harness sinks to model a slow consumer).
func Yield() { Point(KYield, nil) }

func (x *Exec) abort(outcome string) {
	if !x.killed {
		x.killed = true
		x.Outcome = outcome
	}
	runtime.Goexit()
}

// reschedule picks the next thread to run. t is the calling thread (nil when it has just exited).
func (x *Exec) reschedule(t *thread) {
	x.Steps++
	if x.Steps > x.bounds.Horizon {
		x.tracef("  horizon of %d steps exceeded", x.bounds.Horizon)
		if t == nil {
			x.killed = true
			x.Outcome = "livelock"
			return
		}
		x.abort("livelock")
	}
	var list [16]*thread
	en := list[:0]
	curEnabled := false
	if t != nil && (t.enabled == nil || t.enabled()) {
		en = append(en, t)
		curEnabled = true
	}
	for _, u := range x.threads {
		if u == t || u.done {
			continue
		}
		if u.enabled == nil || u.enabled() {
			en = append(en, u)
		}
	}
	if len(en) == 0 {
		if x.tracing {
			var sb strings.Builder
			for _, u := range x.threads {
				if !u.done {
					fmt.Fprintf(&sb, " T%d(%s) blocked in %s;", u.id, u.name, u.kind)
				}
			}
			x.tracef("  DEADLOCK:%s", sb.String())
		}
		// the scenario body (thread 0) has returned and what is left can never run again: goroutines the
		// code under test parked for good (a background task waiting for a timer that will not fire, a worker
		// nobody stopped). That is a leak, which no property is about, not a blocked call: the execution is
		// complete; the remaining threads are torn down and counted.
		if len(x.threads) > 0 && x.threads[0].done {
			for _, u := range x.threads {
				if !u.done {
					x.Leaked++
				}
			}
			x.killed = true
			if t == nil {
				return
			}
			runtime.Goexit()
		}
		if t == nil {
			x.killed = true
			x.Outcome = "deadlock"
			return
		}
		x.abort("deadlock")
	}
	idx := 0
	if len(en) > 1 && !x.settled {
		idx = x.nextChoice(len(en), false, 0, curEnabled)
	}
	next := en[idx]
	if x.tracing {
		x.tracef("step %d: T%d(%s) %s", x.Steps, next.id, next.name, next.kind)
	}
	if next == t {
		return
	}
	x.cur = next
	next.wake <- sigRun
	if t == nil {
		return
	}
	if sig := <-t.wake; sig == sigKill {
		runtime.Goexit()
	}
}

func (x *Exec) spawn(name string, f func()) *thread {
	t := &thread{id: len(x.threads), name: name, wake: make(chan int, 1), kind: KStart}
	x.threads = append(x.threads, t)
	x.alive++
	go func() {
		defer func() {
			r := recover()
			x.threadExit(t, r)
		}()
		if sig := <-t.wake; sig == sigKill {
			return
		}
		t.started = true
		f()
	}()
	return t
}

func (x *Exec) threadExit(t *thread, r any) {
	t.done = true
	x.alive--
	if r != nil && !x.killed {
		x.killed = true
		x.Outcome = fmt.Sprintf("panic: %v", r)
		x.Stack = string(debug.Stack())
		x.tracef("  T%d PANIC: %v", t.id, r)
	}
	if x.killed {
		x.ctl <- struct{}{}
		return
	}
	if x.alive == 0 {
		x.ctl <- struct{}{}
		return
	}
	x.reschedule(nil)
	if x.killed {
		x.ctl <- struct{}{}
	}
}

// Go replaces the `go` statement in instrumented code.
func Go(f func()) { GoNamed("go", f) }

// GoNamed spawns a named thread.
func GoNamed(name string, f func()) {
	x := cur
	if x == nil {
		fatalf("goroutine started outside the scheduler")
	}
	if x.killed {
		return
	}
	x.spawn(name, f)
	Point(KSpawn, nil)
}

// Atomic runs f without scheduling points (harness set-up).
func Atomic(f func()) {
	x := cur
	if x == nil {
		f()
		return
	}
	x.atomic++
	defer func() { x.atomic-- }()
	f()
}

// OnReset registers a function to run when the current execution is discarded (used by shims with
// package-level state).
func (x *Exec) OnReset(f func()) { x.resetters = append(x.resetters, f) }

// RunOpts configure a single execution.
type RunOpts struct {
	Bounds   Bounds
	Trace    bool
	Start    time.Time
	TickStep time.Duration
	// TickLands: the offsets from the next interval boundary at which a clock tick may land; each is a
	// separate alternative of the tick seam. Default: just after the boundary (1ms).
	TickLands []time.Duration
	// PostPublish adds a scheduling point after every publishing atomic / sync.Map operation (see PostPoint).
	PostPublish bool
}

// Run executes body once, replaying prefix and taking choice 0 afterwards.
func Run(body func(), prefix []int, o RunOpts) *Exec {
	if cur != nil {
		fatalf("nested Run")
	}
	x := &Exec{prefix: prefix, bounds: o.Bounds, ctl: make(chan struct{}, 1), tracing: o.Trace, postPublish: o.PostPublish}
	if x.bounds.Horizon == 0 {
		x.bounds.Horizon = 20000
	}
	x.Now = o.Start
	if x.Now.IsZero() {
		x.Now = time.Date(2025, 6, 1, 10, 0, 0, 0, time.UTC)
	}
	x.TickStep = o.TickStep
	if x.TickStep == 0 {
		x.TickStep = time.Hour
	}
	x.TickLands = o.TickLands
	if len(x.TickLands) == 0 {
		x.TickLands = []time.Duration{time.Millisecond}
	}
	x.FS = newFS(x)
	cur = x
	t0 := x.spawn("main", body)
	x.cur = t0
	t0.wake <- sigRun
	<-x.ctl
	if x.killed {
		for _, t := range x.threads {
			if !t.done {
				t.wake <- sigKill
				<-x.ctl
			}
		}
	}
	for _, f := range x.resetters {
		f()
	}
	cur = nil
	if len(x.Points) < len(prefix) {
		fatalf("replay divergence: execution ended after %d points, prefix has %d (%v) outcome=%q", len(x.Points), len(prefix), prefix, x.Outcome)
	}
	return x
}

// Choices returns the choice list of the execution with trailing zeros trimmed.
func (x *Exec) Choices() []int {
	n := len(x.Points)
	for n > 0 && x.Points[n-1].Choice == 0 {
		n--
	}
	out := make([]int, n)
	for i := range out {
		out[i] = x.Points[i].Choice
	}
	return out
}

// Preemptions and deviations used by this execution.
func (x *Exec) Used() (preempt int, env [NSeams]int) { return x.preempt, x.used }

// Gate lets a harness disable a thread until another thread opens it.
type Gate struct{ open bool }

func (g *Gate) Wait()        { Point(KGate, func() bool { return g.open }) }
func (g *Gate) Open()        { g.open = true }
func (g *Gate) Close()       { g.open = false }
func (g *Gate) IsOpen() bool { return g.open }

// WaitUntil blocks the calling thread until cond holds (cond must only read scheduler-owned state).
func WaitUntil(cond func() bool) { Point(KGate, cond) }

// ThreadID returns the id of the running thread (0 = main), -1 outside the scheduler.
func ThreadID() int {
	if cur == nil || cur.cur == nil {
		return -1
	}
	return cur.cur.id
}

// WaitQuiescent blocks the calling thread until every other thread is finished or disabled.
func WaitQuiescent() {
	x := cur
	if x == nil {
		return
	}
	t := x.cur
	Point(KGate, func() bool {
		for _, u := range x.threads {
			if u == t || u.done {
				continue
			}
			if u.enabled == nil || u.enabled() {
				return false
			}
		}
		return true
	})
}
