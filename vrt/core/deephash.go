package zzvrt

import (
	"fmt"
	"hash"
	"hash/fnv"
	"math"
	"reflect"
	"runtime"
	"sort"
	"strings"
	"time"
	"unsafe"
)

// DeepHash computes a canonical hash of everything reachable from roots (name -> pointer to a
// package-level variable) through types of the package under test and unnamed composite types: the
// explicit-state searches use it as the identity of an implementation state. Canonical means: pointers
// are numbered in traversal order (addresses do not matter, sharing and cycles do), map entries are
// visited in the order of their keys, and what cannot influence the future of the library in a way the
// properties observe is left out - the internals of mutexes / pools / sync.Map caches, channel contents,
// captured variables of closures (a function value is its code's name), foreign objects (files, buffers:
// type and nil-ness only), and the ORDER of slices of references (visited in the order of their elements' hashes). The state identity is therefore an ABSTRACTION of the heap with a stated
// blind spot; the searches that use it say so in their bounds.
func DeepHash(roots map[string]any, modPath string, skip func(name string) bool) uint64 {
	return deepHash(roots, modPath, skip, nil)
}

// DeepHashTrace is DeepHash that also returns one line per hashed token (debugging a state identity).
func DeepHashTrace(roots map[string]any, modPath string, skip func(name string) bool) (uint64, []string) {
	var tr []string
	return deepHash(roots, modPath, skip, &tr), tr
}

// unstableHashes counts hashes abandoned because the heap changed under the hasher.
var unstableHashes uint64

func deepHash(roots map[string]any, modPath string, skip func(name string) bool, tr *[]string) (sum uint64) {
	// The enumeration group hashes a LIVE package: a worker goroutine of the code under test may still be
	// modifying what is being read (an interface slot cleared between two looks at it). Such a hash is worthless,
	// not fatal: it is replaced by a value no other hash has, so that callers waiting for two equal consecutive
	// hashes (quiescence) simply try again.
	defer func() {
		if r := recover(); r != nil {
			unstableHashes++
			sum = 0xdead000000000000 | unstableHashes
		}
	}()
	hs := &deepHasher{h: fnv.New64a(), ids: map[unsafe.Pointer]int{}, modPath: modPath, tr: tr}
	names := make([]string, 0, len(roots))
	for n := range roots {
		if skip == nil || !skip(n) {
			names = append(names, n)
		}
	}
	sort.Strings(names)
	for _, n := range names {
		pv := reflect.ValueOf(roots[n])
		if pv.Kind() != reflect.Ptr || pv.IsNil() {
			continue
		}
		hs.str(n)
		hs.path = n
		hs.val(pv.Elem(), 0)
	}
	return hs.h.Sum64()
}

type deepHasher struct {
	h       hash.Hash64
	ids     map[unsafe.Pointer]int
	modPath string
	buf     [9]byte
	tr      *[]string
	path    string
}

func (hs *deepHasher) u64(tag byte, x uint64) {
	if hs.tr != nil {
		*hs.tr = append(*hs.tr, fmt.Sprintf("%s: %c %d", hs.path, tag, x))
	}
	hs.buf[0] = tag
	for i := 0; i < 8; i++ {
		hs.buf[1+i] = byte(x >> (8 * i))
	}
	hs.h.Write(hs.buf[:])
}

func (hs *deepHasher) str(s string) {
	if hs.tr != nil {
		*hs.tr = append(*hs.tr, fmt.Sprintf("%s: %q", hs.path, s))
	}
	hs.u64('s', uint64(len(s)))
	hs.h.Write([]byte(s))
}

func (hs *deepHasher) follow(t reflect.Type) bool {
	pp := t.PkgPath()
	return pp == "" || pp == hs.modPath
}

func (hs *deepHasher) ref(p unsafe.Pointer) (seen bool) {
	if id, ok := hs.ids[p]; ok {
		hs.u64('r', uint64(id))
		return true
	}
	hs.ids[p] = len(hs.ids) + 1
	hs.u64('n', uint64(len(hs.ids)))
	return false
}

func (hs *deepHasher) val(v reflect.Value, depth int) {
	if depth > 64 {
		hs.u64('!', 0)
		return
	}
	v = rw(v)
	t := v.Type()
	if t.PkgPath() != "" && !hs.follow(t) {
		hs.foreign(v, depth)
		return
	}
	switch v.Kind() {
	case reflect.Bool:
		if v.Bool() {
			hs.u64('b', 1)
		} else {
			hs.u64('b', 0)
		}
	case reflect.Int, reflect.Int8, reflect.Int16, reflect.Int32, reflect.Int64:
		hs.u64('i', uint64(v.Int()))
	case reflect.Uint, reflect.Uint8, reflect.Uint16, reflect.Uint32, reflect.Uint64, reflect.Uintptr:
		hs.u64('u', v.Uint())
	case reflect.Float32, reflect.Float64:
		hs.u64('f', math.Float64bits(v.Float()))
	case reflect.Complex64, reflect.Complex128:
		c := v.Complex()
		hs.u64('c', math.Float64bits(real(c)))
		hs.u64('c', math.Float64bits(imag(c)))
	case reflect.String:
		hs.str(v.String())
	case reflect.Ptr:
		if v.IsNil() {
			hs.u64('0', 0)
		} else if !hs.follow(t.Elem()) {
			hs.str("*" + t.Elem().String())
		} else if !hs.ref(v.UnsafePointer()) {
			hs.val(v.Elem(), depth+1)
		}
	case reflect.Interface:
		if v.IsNil() {
			hs.u64('0', 0)
			return
		}
		e := v.Elem()
		hs.str(e.Type().String())
		if e.Kind() == reflect.Ptr {
			hs.val(e, depth+1)
		} else {
			c := reflect.New(e.Type()).Elem()
			c.Set(e)
			hs.val(c, depth+1)
		}
	case reflect.Struct:
		for i := 0; i < v.NumField(); i++ {
			if hs.tr != nil {
				old := hs.path
				hs.path += "." + t.Field(i).Name
				hs.val(v.Field(i), depth+1)
				hs.path = old
				continue
			}
			hs.val(v.Field(i), depth+1)
		}
	case reflect.Array:
		for i := 0; i < v.Len(); i++ {
			hs.val(v.Index(i), depth+1)
		}
	case reflect.Slice:
		if v.IsNil() {
			hs.u64('0', 0)
			return
		}
		hs.u64('l', uint64(v.Len()))
		if ek := t.Elem().Kind(); (ek == reflect.Ptr || ek == reflect.Interface) && v.Len() > 1 {
			// a slice of references (plugin instances collected while iterating over a map, in whatever order
			// that was): visited in the order of the elements' own hashes, so that the identity does not
			// depend on the order; sharing between the elements is still seen by the numbering of the visit
			idx := make([]int, v.Len())
			own := make([]uint64, v.Len())
			for i := range idx {
				idx[i] = i
				sub := &deepHasher{h: fnv.New64a(), ids: map[unsafe.Pointer]int{}, modPath: hs.modPath}
				sub.val(v.Index(i), depth+1)
				own[i] = sub.h.Sum64()
			}
			sort.SliceStable(idx, func(a, b int) bool { return own[idx[a]] < own[idx[b]] })
			for _, i := range idx {
				hs.val(v.Index(i), depth+1)
			}
			return
		}
		for i := 0; i < v.Len(); i++ {
			hs.val(v.Index(i), depth+1)
		}
	case reflect.Map:
		if v.IsNil() {
			hs.u64('0', 0)
			return
		}
		if hs.ref(v.UnsafePointer()) {
			return
		}
		type kv struct {
			ks   string
			k, v reflect.Value
		}
		var es []kv
		it := v.MapRange()
		for it.Next() {
			kc := reflect.New(t.Key()).Elem()
			kc.Set(it.Key())
			vc := reflect.New(t.Elem()).Elem()
			vc.Set(it.Value())
			es = append(es, kv{keyString(kc), kc, vc})
		}
		sort.SliceStable(es, func(i, j int) bool { return es[i].ks < es[j].ks })
		hs.u64('m', uint64(len(es)))
		for _, e := range es {
			hs.str(e.ks)
			old := hs.path
			if hs.tr != nil {
				hs.path += "[" + e.ks + "]"
			}
			hs.val(e.v, depth+1)
			hs.path = old
		}
	case reflect.Func:
		if v.IsNil() {
			hs.u64('0', 0)
		} else if f := runtime.FuncForPC(v.Pointer()); f != nil {
			hs.str(f.Name())
		}
	case reflect.Chan:
		if v.IsNil() {
			hs.u64('0', 0)
		} else {
			hs.u64('C', uint64(v.Cap()))
		}
	case reflect.UnsafePointer:
		if v.IsNil() {
			hs.u64('0', 0)
		} else {
			hs.u64('P', 1)
		}
	}
}

// keyString is the canonical order key of a map key (plain values: their printed form; anything
// holding pointers: the dynamic type).
func keyString(k reflect.Value) string {
	switch k.Kind() {
	case reflect.String:
		return k.String()
	case reflect.Bool, reflect.Int, reflect.Int8, reflect.Int16, reflect.Int32, reflect.Int64, reflect.Uint, reflect.Uint8, reflect.Uint16,
		reflect.Uint32, reflect.Uint64, reflect.Uintptr, reflect.Float32, reflect.Float64:
		return fmt.Sprintf("%020v", k.Interface())
	case reflect.Interface:
		if k.IsNil() {
			return "<nil>"
		}
		if rt, ok := k.Interface().(reflect.Type); ok {
			return "type:" + rt.String()
		}
		return k.Elem().Type().String() + ":" + keyString(k.Elem())
	case reflect.Struct, reflect.Array:
		if !hasPointersDeep(k.Type()) {
			return fmt.Sprintf("%v", k.Interface())
		}
	}
	return k.Type().String()
}

func hasPointersDeep(t reflect.Type) bool {
	switch t.Kind() {
	case reflect.Struct:
		for i := 0; i < t.NumField(); i++ {
			if hasPointersDeep(t.Field(i).Type) {
				return true
			}
		}
		return false
	case reflect.Array:
		return hasPointersDeep(t.Elem())
	case reflect.String:
		return false
	}
	return hasPointers(t)
}

// foreign hashes a value of a named type from another package.
func (hs *deepHasher) foreign(v reflect.Value, depth int) {
	t := v.Type()
	pp, name := t.PkgPath(), t.Name()
	hs.str(pp + "." + name)
	switch {
	case pp == "sync/atomic" && t.Kind() == reflect.Struct:
		if strings.HasPrefix(name, "Pointer[") && t.NumField() == 3 && v.CanAddr() {
			if et := t.Field(0).Type; et.Kind() == reflect.Array && et.Elem().Kind() == reflect.Ptr {
				p := *(*unsafe.Pointer)(unsafe.Pointer(v.Field(2).UnsafeAddr()))
				if p == nil {
					hs.u64('0', 0)
				} else if tt := et.Elem().Elem(); !hs.follow(tt) {
					hs.u64('P', 1)
				} else if !hs.ref(p) {
					hs.val(reflect.NewAt(tt, p).Elem(), depth+1)
				}
			}
			return
		}
		// Int32 / Int64 / Uint32 / Uint64 / Bool / Value: plain fields
		for i := 0; i < t.NumField(); i++ {
			f := rw(v.Field(i))
			switch f.Kind() {
			case reflect.Int32, reflect.Int64:
				hs.u64('i', uint64(f.Int()))
			case reflect.Uint32, reflect.Uint64, reflect.Uintptr:
				hs.u64('u', f.Uint())
			case reflect.Interface:
				if !f.IsNil() {
					hs.str(f.Elem().Type().String())
				}
			}
		}
	case pp == "time" && name == "Time":
		if v.CanAddr() {
			tm := *(*time.Time)(unsafe.Pointer(v.UnsafeAddr()))
			hs.u64('t', uint64(tm.UnixNano()))
		}
	case pp == "time" || pp == "reflect" && t.Kind() != reflect.Interface:
		switch v.Kind() {
		case reflect.Int64:
			hs.u64('i', uint64(v.Int()))
		case reflect.Uint, reflect.Uint32, reflect.Uint64:
			hs.u64('u', v.Uint())
		}
	case t.Kind() == reflect.Interface:
		if v.IsNil() {
			hs.u64('0', 0)
		} else if rt, ok := v.Interface().(reflect.Type); ok {
			hs.str(rt.String())
		} else {
			hs.str(v.Elem().Type().String())
			if e := v.Elem(); e.Kind() == reflect.Ptr && !e.IsNil() && hs.follow(e.Type().Elem()) {
				hs.val(e, depth+1)
			}
		}
	case t.Kind() == reflect.Ptr:
		if v.IsNil() {
			hs.u64('0', 0)
		} else {
			hs.u64('P', 1)
		}
	default:
		// sync.Mutex / RWMutex / WaitGroup / Once / Pool / Map, os.File, bytes.Buffer ...: opaque
		switch v.Kind() {
		case reflect.Bool:
			if v.Bool() {
				hs.u64('b', 1)
			}
		case reflect.Int, reflect.Int8, reflect.Int16, reflect.Int32, reflect.Int64:
			hs.u64('i', uint64(v.Int()))
		case reflect.Uint, reflect.Uint8, reflect.Uint16, reflect.Uint32, reflect.Uint64:
			hs.u64('u', v.Uint())
		case reflect.String:
			hs.str(v.String())
		}
	}
}
