// Package vos replaces "os" in instrumented sources. Under the scheduler all file operations go to
// the execution's in-memory filesystem; outside the scheduler they pass through to the real os.
package vos

import (
	"io/fs"
	"os"
	"time"

	zzvrt "github.com/go-spring/log/zzvrt"
)

type (
	File         = zzvrt.File
	FileMode     = fs.FileMode
	FileInfo     = fs.FileInfo
	DirEntry     = fs.DirEntry
	PathError    = fs.PathError
	Signal       = os.Signal
	LinkError    = os.LinkError
	SyscallError = os.SyscallError
)

const (
	O_RDONLY = os.O_RDONLY
	O_WRONLY = os.O_WRONLY
	O_RDWR   = os.O_RDWR
	O_APPEND = os.O_APPEND
	O_CREATE = os.O_CREATE
	O_EXCL   = os.O_EXCL
	O_SYNC   = os.O_SYNC
	O_TRUNC  = os.O_TRUNC

	ModePerm      = os.ModePerm
	ModeDir       = os.ModeDir
	ModeAppend    = os.ModeAppend
	ModeSymlink   = os.ModeSymlink
	PathSeparator = os.PathSeparator
	DevNull       = os.DevNull
)

var (
	ErrInvalid    = os.ErrInvalid
	ErrPermission = os.ErrPermission
	ErrExist      = os.ErrExist
	ErrNotExist   = os.ErrNotExist
	ErrClosed     = os.ErrClosed

	// StderrBuf / StdoutBuf capture what instrumented code prints to the standard streams.
	StderrBuf []byte
	StdoutBuf []byte
	Stderr    = zzvrt.Special(&StderrBuf)
	Stdout    = zzvrt.Special(&StdoutBuf)
	Stdin     = zzvrt.WrapReal(os.Stdin)
	Args      = os.Args
)

func IsNotExist(err error) bool         { return os.IsNotExist(err) }
func IsExist(err error) bool            { return os.IsExist(err) }
func IsPermission(err error) bool       { return os.IsPermission(err) }
func Getenv(k string) string            { return os.Getenv(k) }
func LookupEnv(k string) (string, bool) { return os.LookupEnv(k) }
func Getpid() int                       { return 4242 }
func Hostname() (string, error)         { return "verif-host", nil }
func Getwd() (string, error) {
	if x := zzvrt.Cur(); x != nil {
		return x.FS.Getwd(), nil
	}
	return os.Getwd()
}
func Chdir(dir string) error {
	if x := zzvrt.Cur(); x != nil {
		return x.FS.Chdir(dir)
	}
	return os.Chdir(dir)
}
func Exit(code int)   { panic("os.Exit called") }
func TempDir() string { return "/tmp" }

func OpenFile(name string, flag int, perm FileMode) (*File, error) {
	if x := zzvrt.Cur(); x != nil {
		return x.FS.OpenFile(name, flag, perm)
	}
	f, err := os.OpenFile(name, flag, perm)
	if err != nil {
		return nil, err
	}
	return zzvrt.WrapReal(f), nil
}

func Create(name string) (*File, error) {
	return OpenFile(name, O_RDWR|O_CREATE|O_TRUNC, 0666)
}

func Open(name string) (*File, error) { return OpenFile(name, O_RDONLY, 0) }

func ReadDir(dir string) ([]DirEntry, error) {
	if x := zzvrt.Cur(); x != nil {
		return x.FS.ReadDir(dir)
	}
	return os.ReadDir(dir)
}

func Remove(name string) error {
	if x := zzvrt.Cur(); x != nil {
		return x.FS.Remove(name)
	}
	return os.Remove(name)
}

func RemoveAll(name string) error {
	if x := zzvrt.Cur(); x != nil {
		return x.FS.RemoveAll(name)
	}
	return os.RemoveAll(name)
}

func Stat(name string) (FileInfo, error) {
	if x := zzvrt.Cur(); x != nil {
		return x.FS.Stat(name)
	}
	return os.Stat(name)
}

func Lstat(name string) (FileInfo, error) { return Stat(name) }

func Rename(a, b string) error {
	if x := zzvrt.Cur(); x != nil {
		return x.FS.Rename(a, b)
	}
	return os.Rename(a, b)
}

func Mkdir(name string, perm FileMode) error {
	if x := zzvrt.Cur(); x != nil {
		return x.FS.Mkdir(name)
	}
	return os.Mkdir(name, perm)
}

func MkdirAll(name string, perm FileMode) error {
	if x := zzvrt.Cur(); x != nil {
		return x.FS.Mkdir(name)
	}
	return os.MkdirAll(name, perm)
}

func Chtimes(name string, atime, mtime time.Time) error {
	if x := zzvrt.Cur(); x != nil {
		return x.FS.Chtimes(name, mtime)
	}
	return os.Chtimes(name, atime, mtime)
}

func Chmod(name string, mode FileMode) error {
	if x := zzvrt.Cur(); x != nil {
		_, err := x.FS.Stat(name)
		return err
	}
	return os.Chmod(name, mode)
}

func Truncate(name string, size int64) error {
	f, err := OpenFile(name, O_WRONLY, 0)
	if err != nil {
		return err
	}
	err = f.Truncate(size)
	if e := f.Close(); err == nil {
		err = e
	}
	return err
}

func Executable() (string, error)  { return os.Executable() }
func UserHomeDir() (string, error) { return os.UserHomeDir() }
func Getuid() int                  { return os.Getuid() }
func Geteuid() int                 { return os.Geteuid() }
func Getppid() int                 { return 4241 }
func Environ() []string            { return os.Environ() }
func ExpandEnv(s string) string    { return os.ExpandEnv(s) }
func SameFile(a, b FileInfo) bool {
	return a.Name() == b.Name() && a.ModTime().Equal(b.ModTime()) && a.Size() == b.Size()
}
func NewFile(fd uintptr, name string) *File {
	return zzvrt.WrapReal(os.NewFile(fd, name))
}

func ReadFile(name string) ([]byte, error) {
	if x := zzvrt.Cur(); x != nil {
		if n, ok := x.FS.Nodes[name]; ok && !n.Dir {
			return append([]byte(nil), n.Data...), nil
		}
		return nil, &fs.PathError{Op: "open", Path: name, Err: os.ErrNotExist}
	}
	return os.ReadFile(name)
}

func WriteFile(name string, data []byte, perm FileMode) error {
	f, err := OpenFile(name, O_WRONLY|O_CREATE|O_TRUNC, perm)
	if err != nil {
		return err
	}
	_, err = f.Write(data)
	if e := f.Close(); err == nil {
		err = e
	}
	return err
}

func init() { zzvrt.SysStdout, zzvrt.SysStderr = &StdoutBuf, &StderrBuf }
