module verif

go 1.25

require github.com/go-spring/log v0.0.0

replace github.com/go-spring/log => /repo
