module verif

go 1.25

require github.com/go-spring/log v0.0.0

require (
	github.com/antlr4-go/antlr/v4 v4.13.1 // indirect
	github.com/go-spring/stdlib v0.0.5 // indirect
	github.com/spf13/cast v1.10.0 // indirect
	golang.org/x/exp v0.0.0-20240506185415-9bf2ced13842 // indirect
)

replace github.com/go-spring/log => /repo
